//! lockx — extracts the lock-acquisition structure of the saito workspace from source (syn) and
//! explores every reachable (function, held-lock-set) state: the model side of C20.
//!
//! Output (JSON on stdout or to --out): sites, functions, explored states, inversions.

use std::collections::{BTreeMap, BTreeSet, VecDeque};
use std::path::{Path, PathBuf};

use proc_macro2::{TokenStream, TokenTree};
use quote::ToTokens;
use serde_json::json;
use syn::punctuated::Punctuated;
use syn::spanned::Spanned;
use syn::{Expr, Item, Pat, Stmt, Token, Type};

// ------------------------------------------------------------------------------------------
// lock kinds
// ------------------------------------------------------------------------------------------

#[derive(Clone, Debug, PartialEq, Eq, PartialOrd, Ord, Hash)]
pub enum Kind {
    /// the five ordered shared locks
    Config,
    Blockchain,
    Mempool,
    Peers,
    Wallet,
    /// saito-wasm's global mutex
    WasmGlobal,
    /// any other lock (not part of the documented order)
    Other(String),
}

impl Kind {
    pub fn rank(&self) -> Option<u8> {
        match self {
            Kind::Config => Some(3),
            Kind::Blockchain => Some(4),
            Kind::Mempool => Some(5),
            Kind::Peers => Some(6),
            Kind::Wallet => Some(7),
            _ => None,
        }
    }
    pub fn name(&self) -> String {
        match self {
            Kind::Config => "config".into(),
            Kind::Blockchain => "blockchain".into(),
            Kind::Mempool => "mempool".into(),
            Kind::Peers => "peers".into(),
            Kind::Wallet => "wallet".into(),
            Kind::WasmGlobal => "SAITO".into(),
            Kind::Other(s) => format!("other:{}", s),
        }
    }
    /// payload type name guarded by the lock (for receiver typing of guards)
    pub fn payload(&self) -> Option<&'static str> {
        match self {
            Kind::Blockchain => Some("Blockchain"),
            Kind::Mempool => Some("Mempool"),
            Kind::Peers => Some("PeerCollection"),
            Kind::Wallet => Some("Wallet"),
            Kind::Config => Some("Configuration"),
            _ => None,
        }
    }
}

fn kind_of_payload(p: &str) -> Kind {
    let p = p.trim();
    if p == "Blockchain" {
        Kind::Blockchain
    } else if p == "Mempool" {
        Kind::Mempool
    } else if p == "PeerCollection" {
        Kind::Peers
    } else if p == "Wallet" {
        Kind::Wallet
    } else if p.contains("Configuration") || p.contains("Configs") || p.contains("Configurations") {
        Kind::Config
    } else if p.contains("SaitoWasm") {
        Kind::WasmGlobal
    } else {
        Kind::Other(p.chars().filter(|c| !c.is_whitespace()).take(40).collect())
    }
}

// ------------------------------------------------------------------------------------------
// tiny type language
// ------------------------------------------------------------------------------------------

#[derive(Clone, Debug, PartialEq, Eq)]
pub enum Ty {
    Unknown,
    /// a named type (last path segment)
    Named(String),
    /// Arc<RwLock<T>> / RwLock<T> / Mutex<T>
    Lock(Kind),
    /// Box<dyn Trait> / &dyn Trait
    Dyn(String),
}

fn ty_from_syn(t: &Type) -> Ty {
    let s = t.to_token_stream().to_string();
    ty_from_str(&s)
}

fn ty_from_str(s: &str) -> Ty {
    let flat: String = s.chars().filter(|c| !c.is_whitespace()).collect();
    for lk in ["RwLock<", "Mutex<"] {
        if let Some(i) = flat.find(lk) {
            // payload up to the matching '>'
            let rest = &flat[i + lk.len()..];
            let mut depth = 1;
            let mut end = rest.len();
            for (j, c) in rest.char_indices() {
                if c == '<' {
                    depth += 1;
                } else if c == '>' {
                    depth -= 1;
                    if depth == 0 {
                        end = j;
                        break;
                    }
                }
            }
            let payload = &rest[..end];
            let payload = payload.trim_start_matches("dyn");
            let p = payload.split(|c| c == '+' || c == '<').next().unwrap_or("");
            let p = p.rsplit("::").next().unwrap_or(p);
            return Ty::Lock(kind_of_payload(if payload.contains("Configuration") { "Configuration" } else if payload.contains("SaitoWasm") { "SaitoWasm" } else { p }));
        }
    }
    if let Some(i) = flat.find("dyn") {
        let rest = &flat[i + 3..];
        let name: String = rest.chars().take_while(|c| c.is_alphanumeric() || *c == '_' || *c == ':').collect();
        let name = name.rsplit("::").next().unwrap_or("").to_string();
        if !name.is_empty() {
            return Ty::Dyn(name);
        }
    }
    // strip wrappers
    let mut cur = flat.as_str();
    loop {
        let c = cur.trim_start_matches('&').trim_start_matches("mut");
        let c = c.trim_start_matches('&');
        let mut changed = c.len() != cur.len();
        cur = c;
        for w in ["Arc<", "Box<", "Option<", "Rc<", "RefCell<"] {
            if cur.starts_with(w) && cur.ends_with('>') {
                cur = &cur[w.len()..cur.len() - 1];
                changed = true;
            }
        }
        if !changed {
            break;
        }
    }
    let head: String = cur.chars().take_while(|c| c.is_alphanumeric() || *c == '_' || *c == ':').collect();
    let name = head.rsplit("::").next().unwrap_or("").to_string();
    // collections are typed by their element type (methods of the collection itself are std's)
    if ["HashMap", "AHashMap", "BTreeMap", "Vec", "VecDeque", "HashSet", "AHashSet", "BTreeSet", "Result"].contains(&name.as_str()) && cur.ends_with('>') {
        if let Some(lt) = cur.find('<') {
            let inner = &cur[lt + 1..cur.len() - 1];
            // split top-level generic arguments
            let mut depth = 0;
            let mut args: Vec<String> = vec![String::new()];
            for c in inner.chars() {
                match c {
                    '<' | '(' | '[' => {
                        depth += 1;
                        args.last_mut().unwrap().push(c);
                    }
                    '>' | ')' | ']' => {
                        depth -= 1;
                        args.last_mut().unwrap().push(c);
                    }
                    ',' if depth == 0 => args.push(String::new()),
                    _ => args.last_mut().unwrap().push(c),
                }
            }
            let pick = if name.ends_with("Map") { args.last() } else { args.first() };
            if let Some(a) = pick {
                return ty_from_str(a);
            }
        }
    }
    if name.is_empty() || name.chars().next().map(|c| c.is_lowercase()).unwrap_or(true) {
        Ty::Unknown
    } else {
        Ty::Named(name)
    }
}

// ------------------------------------------------------------------------------------------
// extracted program
// ------------------------------------------------------------------------------------------

#[derive(Clone, Debug)]
pub struct Site {
    pub file: String,
    pub line: usize,
    pub kind: Kind,
    pub write: bool,
    pub recv: String,
    pub by: &'static str,
    pub func: usize,
}

#[derive(Clone, Debug)]
pub enum Bind {
    Var(String),
    Temp,
    Discard,
    /// the guard is stored into a variable declared `up` scopes further out (`x = Some(l.write().await)`,
    /// `x.insert(..)`): it lives until that variable's scope ends, is dropped or is overwritten with None
    Outer(String, usize),
}

#[derive(Clone, Debug)]
pub enum Node {
    Acq { site: usize, bind: Bind },
    Drop { var: String },
    Call { callees: Vec<usize>, precise: bool, line: usize, name: String },
    Scope(Vec<Node>),
    Stmt(Vec<Node>),
    /// alternatives; bool = branch diverges (return / break / continue / panic)
    Alt(Vec<(Vec<Node>, bool)>),
    Loop(Vec<Node>),
    /// body handed to a spawn: a task of its own
    Spawn(usize),
}

#[derive(Clone, Debug)]
pub struct Func {
    pub krate: String,
    pub file: String,
    pub line: usize,
    pub name: String,
    pub self_ty: Option<String>,
    pub trait_name: Option<String>,
    pub is_method: bool,
    pub exported_wasm: bool,
    pub body: Vec<Node>,
    pub is_spawn_body: bool,
}

#[derive(Default)]
pub struct Program {
    pub funcs: Vec<Func>,
    pub sites: Vec<Site>,
    /// (type, field) -> type
    pub fields: BTreeMap<(String, String), Ty>,
    /// field name -> set of lock kinds it has anywhere
    pub field_locks: BTreeMap<String, BTreeSet<Kind>>,
    pub statics: BTreeMap<String, Ty>,
    pub unclassified: Vec<(String, usize, String)>,
    pub unparsed_macro_sites: Vec<(String, usize, String)>,
    pub raw_site_count: usize,
    pub skipped_test_items: usize,
    /// return types of functions: (self_ty or "", name) -> Ty
    pub returns: BTreeMap<(String, String), Ty>,
}

fn has_cfg_test(attrs: &[syn::Attribute]) -> bool {
    attrs.iter().any(|a| {
        let s = a.to_token_stream().to_string().replace(' ', "");
        s.contains("cfg(test)") || s == "#[test]" || s.contains("tokio::test") || s.contains("serial")
    })
}

// ------------------------------------------------------------------------------------------
// pass 1: declarations
// ------------------------------------------------------------------------------------------

struct Decl {
    krate: String,
    file: String,
    self_ty: Option<String>,
    trait_name: Option<String>,
    sig: syn::Signature,
    attrs: Vec<syn::Attribute>,
    block: Option<syn::Block>,
}

fn collect_items(items: &[Item], krate: &str, file: &str, prog: &mut Program, decls: &mut Vec<Decl>) {
    for it in items {
        match it {
            Item::Mod(m) => {
                if has_cfg_test(&m.attrs) {
                    prog.skipped_test_items += 1;
                    continue;
                }
                if let Some((_, items)) = &m.content {
                    collect_items(items, krate, file, prog, decls);
                }
            }
            Item::Struct(s) => {
                if has_cfg_test(&s.attrs) {
                    continue;
                }
                let name = s.ident.to_string();
                for f in s.fields.iter() {
                    if let Some(id) = &f.ident {
                        let t = ty_from_syn(&f.ty);
                        if let Ty::Lock(k) = &t {
                            prog.field_locks.entry(id.to_string()).or_default().insert(k.clone());
                        }
                        prog.fields.insert((name.clone(), id.to_string()), t);
                    }
                }
            }
            Item::Fn(f) => {
                if has_cfg_test(&f.attrs) {
                    prog.skipped_test_items += 1;
                    continue;
                }
                decls.push(Decl { krate: krate.into(), file: file.into(), self_ty: None, trait_name: None, sig: f.sig.clone(), attrs: f.attrs.clone(), block: Some((*f.block).clone()) });
            }
            Item::Impl(im) => {
                if has_cfg_test(&im.attrs) {
                    prog.skipped_test_items += 1;
                    continue;
                }
                let self_ty = match ty_from_syn(&im.self_ty) {
                    Ty::Named(n) => Some(n),
                    _ => Some(im.self_ty.to_token_stream().to_string()),
                };
                let trait_name = im.trait_.as_ref().map(|(_, p, _)| p.segments.last().map(|s| s.ident.to_string()).unwrap_or_default());
                for ii in im.items.iter() {
                    if let syn::ImplItem::Fn(f) = ii {
                        if has_cfg_test(&f.attrs) {
                            prog.skipped_test_items += 1;
                            continue;
                        }
                        decls.push(Decl { krate: krate.into(), file: file.into(), self_ty: self_ty.clone(), trait_name: trait_name.clone(), sig: f.sig.clone(), attrs: f.attrs.clone(), block: Some(f.block.clone()) });
                    }
                }
            }
            Item::Trait(t) => {
                if has_cfg_test(&t.attrs) {
                    continue;
                }
                for ti in t.items.iter() {
                    if let syn::TraitItem::Fn(f) = ti {
                        if let Some(b) = &f.default {
                            decls.push(Decl { krate: krate.into(), file: file.into(), self_ty: Some(t.ident.to_string()), trait_name: Some(t.ident.to_string()), sig: f.sig.clone(), attrs: f.attrs.clone(), block: Some(b.clone()) });
                        }
                    }
                }
            }
            Item::Static(s) => {
                prog.statics.insert(s.ident.to_string(), ty_from_syn(&s.ty));
            }
            Item::Macro(m) => {
                // lazy_static! { pub static ref NAME: Type = ...; }
                let txt = m.mac.tokens.to_string();
                if m.mac.path.to_token_stream().to_string().contains("lazy_static") {
                    for part in txt.split("static ref").skip(1) {
                        let name: String = part.trim().chars().take_while(|c| c.is_alphanumeric() || *c == '_').collect();
                        if let Some(colon) = part.find(':') {
                            let ty: String = part[colon + 1..].split('=').next().unwrap_or("").to_string();
                            prog.statics.insert(name, ty_from_str(&ty));
                        }
                    }
                }
            }
            _ => {}
        }
    }
}

// ------------------------------------------------------------------------------------------
// pass 2: bodies
// ------------------------------------------------------------------------------------------

const STD_NAMES: &[&str] = &[
    "clone", "len", "is_empty", "iter", "iter_mut", "into_iter", "push", "insert", "get", "get_mut", "remove", "contains", "contains_key", "unwrap", "expect", "map", "send", "recv", "lock", "read", "write", "to_string", "into",
    "from", "as_ref", "as_mut", "ok", "err", "is_some", "is_none", "is_ok", "is_err", "extend", "drain", "collect", "filter", "any", "all", "find", "keys", "values", "entry", "take", "replace", "clear", "push_back", "pop_front",
    "sort", "cmp", "eq", "hash", "fmt", "default", "to_vec", "as_slice", "as_str", "unwrap_or", "unwrap_or_default", "map_err", "and_then", "or_insert", "or_default", "first", "last", "retain", "try_into", "try_from", "to_owned",
    "borrow", "borrow_mut", "deref", "deref_mut", "await", "capacity", "max_capacity", "try_recv", "try_send", "abs_diff", "saturating_sub", "min", "max", "cloned", "copied", "enumerate", "zip", "rev", "skip", "next", "count", "sum",
    "for_each", "filter_map", "flat_map", "position", "append", "truncate", "split_at", "concat", "join", "starts_with", "ends_with", "trim", "parse", "as_bytes", "to_be_bytes", "from_be_bytes", "elapsed", "as_millis", "as_secs",
    "with_capacity", "reserve", "shrink_to_fit", "get_or_insert", "ok_or", "unwrap_or_else", "is_existing", "flush", "write_all", "close", "abort", "spawn", "sleep", "tick", "reset",
];

struct Env {
    vars: Vec<BTreeMap<String, Ty>>,
    self_ty: Option<String>,
}
impl Env {
    fn get(&self, n: &str) -> Ty {
        for m in self.vars.iter().rev() {
            if let Some(t) = m.get(n) {
                return t.clone();
            }
        }
        Ty::Unknown
    }
    fn has(&self, n: &str) -> bool {
        self.vars.iter().any(|m| m.contains_key(n))
    }
    fn set(&mut self, n: &str, t: Ty) {
        if let Some(m) = self.vars.last_mut() {
            m.insert(n.to_string(), t);
        }
    }
}

struct Builder<'a> {
    prog: &'a mut Program,
    /// (self_ty or "", name) -> func ids
    by_ty_name: &'a BTreeMap<(String, String), Vec<usize>>,
    by_name: &'a BTreeMap<String, Vec<usize>>,
    trait_impls: &'a BTreeMap<(String, String), Vec<usize>>,
    file: String,
    func: usize,
    krate: String,
    spawned: Vec<(Vec<Node>, usize)>,
}

fn line_of<T: Spanned>(t: &T) -> usize {
    t.span().start().line
}

fn expr_text(e: &Expr) -> String {
    let s = e.to_token_stream().to_string();
    s.replace(' ', "")
}

fn last_ident(e: &Expr) -> Option<String> {
    match e {
        Expr::Path(p) => p.path.segments.last().map(|s| s.ident.to_string()),
        Expr::Field(f) => match &f.member {
            syn::Member::Named(i) => Some(i.to_string()),
            _ => None,
        },
        Expr::MethodCall(m) => last_ident(&m.receiver),
        Expr::Paren(p) => last_ident(&p.expr),
        Expr::Reference(r) => last_ident(&r.expr),
        Expr::Unary(u) => last_ident(&u.expr),
        Expr::Try(t) => last_ident(&t.expr),
        Expr::Await(a) => last_ident(&a.base),
        Expr::Call(c) => c.args.first().and_then(last_ident),
        _ => None,
    }
}

impl<'a> Builder<'a> {
    fn ty_of(&self, e: &Expr, env: &Env) -> Ty {
        match e {
            Expr::Path(p) => {
                if p.path.segments.len() == 1 {
                    let n = p.path.segments[0].ident.to_string();
                    if n == "self" {
                        return env.self_ty.clone().map(Ty::Named).unwrap_or(Ty::Unknown);
                    }
                    let t = env.get(&n);
                    if t != Ty::Unknown {
                        return t;
                    }
                    if let Some(t) = self.prog.statics.get(&n) {
                        return t.clone();
                    }
                }
                if let Some(l) = p.path.segments.last() {
                    if let Some(t) = self.prog.statics.get(&l.ident.to_string()) {
                        return t.clone();
                    }
                }
                Ty::Unknown
            }
            Expr::Field(f) => {
                let base = self.ty_of(&f.base, env);
                if let (Ty::Named(b), syn::Member::Named(m)) = (&base, &f.member) {
                    if let Some(t) = self.prog.fields.get(&(b.clone(), m.to_string())) {
                        return t.clone();
                    }
                }
                Ty::Unknown
            }
            Expr::MethodCall(m) => {
                let n = m.method.to_string();
                let base = self.ty_of(&m.receiver, env);
                if [
                    "clone", "as_ref", "as_mut", "unwrap", "borrow", "borrow_mut", "deref", "deref_mut", "expect", "as_deref", "as_deref_mut", "to_owned", "get", "get_mut", "first", "last", "first_mut", "last_mut", "front", "back", "front_mut",
                    "back_mut", "iter", "iter_mut", "values", "values_mut", "into_iter", "next", "pop", "pop_front", "pop_back", "remove", "unwrap_or_default", "cloned", "copied", "take", "ok", "find", "drain",
                ]
                .contains(&n.as_str())
                {
                    return base;
                }
                if let Ty::Named(b) = &base {
                    if let Some(t) = self.prog.returns.get(&(b.clone(), n.clone())) {
                        return t.clone();
                    }
                }
                Ty::Unknown
            }
            Expr::Paren(p) => self.ty_of(&p.expr, env),
            Expr::Reference(r) => self.ty_of(&r.expr, env),
            Expr::Unary(u) => self.ty_of(&u.expr, env),
            Expr::Try(t) => self.ty_of(&t.expr, env),
            Expr::Await(a) => self.ty_of(&a.base, env),
            Expr::Call(c) => {
                // Arc::clone(&x)
                let f = expr_text(&c.func);
                if f.ends_with("clone") || f.ends_with("Arc::new") {
                    if let Some(a) = c.args.first() {
                        return self.ty_of(a, env);
                    }
                }
                if f.ends_with("RwLock::new") || f.ends_with("Mutex::new") {
                    if let Some(a) = c.args.first() {
                        let inner = match a {
                            Expr::Struct(s) => s.path.segments.last().map(|x| x.ident.to_string()),
                            Expr::Call(c2) => {
                                // Type::new(..)
                                if let Expr::Path(p) = &*c2.func {
                                    let segs: Vec<String> = p.path.segments.iter().map(|x| x.ident.to_string()).collect();
                                    if segs.len() >= 2 {
                                        Some(segs[segs.len() - 2].clone())
                                    } else {
                                        None
                                    }
                                } else {
                                    None
                                }
                            }
                            other => match self.ty_of(other, env) {
                                Ty::Named(n) => Some(n),
                                _ => None,
                            },
                        };
                        if let Some(n) = inner {
                            return Ty::Lock(kind_of_payload(&n));
                        }
                    }
                }
                Ty::Unknown
            }
            _ => Ty::Unknown,
        }
    }

    /// is `e` (after stripping parens / `?`) exactly a lock acquisition `X.read().await` ?
    fn as_acq<'e>(&self, e: &'e Expr) -> Option<(&'e Expr, bool, &'static str)> {
        let e = match e {
            Expr::Paren(p) => &p.expr,
            _ => e,
        };
        if let Expr::Await(a) = e {
            if let Expr::MethodCall(m) = &*a.base {
                let n = m.method.to_string();
                if m.args.is_empty() && (n == "read" || n == "write" || n == "lock") {
                    return Some((&m.receiver, n != "read", if n == "lock" { "lock" } else { "rw" }));
                }
            }
        }
        // non-awaited forms
        if let Expr::MethodCall(m) = e {
            let n = m.method.to_string();
            if m.args.is_empty() && ["try_read", "try_write", "blocking_read", "blocking_write", "blocking_lock", "try_lock"].contains(&n.as_str()) {
                return Some((&m.receiver, !n.contains("read"), "try"));
            }
            // try_read().unwrap() etc.
            if ["unwrap", "expect"].contains(&n.as_str()) {
                return self.as_acq(&m.receiver);
            }
        }
        None
    }

    fn classify(&mut self, recv: &Expr, env: &Env, line: usize, write: bool) -> Option<usize> {
        let t = self.ty_of(recv, env);
        let text = expr_text(recv);
        let (kind, by) = match t {
            Ty::Lock(k) => (Some(k), "type"),
            _ => {
                // by field name, when that field name is a lock of one kind everywhere
                let li = last_ident(recv).unwrap_or_default();
                if let Some(ks) = self.prog.field_locks.get(&li) {
                    if ks.len() == 1 {
                        (ks.iter().next().cloned(), "field-name")
                    } else {
                        (None, "")
                    }
                } else {
                    let l = li.to_lowercase();
                    let k = if l.contains("blockchain") {
                        Some(Kind::Blockchain)
                    } else if l.contains("mempool") {
                        Some(Kind::Mempool)
                    } else if l.contains("peer") {
                        Some(Kind::Peers)
                    } else if l.contains("wallet") {
                        Some(Kind::Wallet)
                    } else if l.contains("config") {
                        Some(Kind::Config)
                    } else if li == "SAITO" {
                        Some(Kind::WasmGlobal)
                    } else {
                        None
                    };
                    (k, "name")
                }
            }
        };
        match kind {
            Some(kind) => {
                self.prog.sites.push(Site { file: self.file.clone(), line, kind, write, recv: text, by, func: self.func });
                Some(self.prog.sites.len() - 1)
            }
            None => {
                self.prog.unclassified.push((self.file.clone(), line, text));
                None
            }
        }
    }

    /// can code of the crate being analysed call function `i` directly (not through a trait object)?
    fn visible(&self, i: usize) -> bool {
        let k = &self.prog.funcs[i].krate;
        *k == self.krate || k == "saito-core"
    }

    fn resolve_method(&self, recv: &Expr, name: &str, env: &Env) -> (Vec<usize>, bool) {
        let t = self.ty_of(recv, env);
        match &t {
            Ty::Named(tn) => {
                if let Some(v) = self.by_ty_name.get(&(tn.clone(), name.to_string())) {
                    return (v.clone(), v.len() == 1);
                }
                // trait default method on a named type, or trait object behind a named alias
                if let Some(v) = self.trait_impls.get(&(tn.clone(), name.to_string())) {
                    return (v.clone(), v.len() == 1);
                }
                (vec![], true)
            }
            Ty::Dyn(tr) => {
                let v = self.trait_impls.get(&(tr.clone(), name.to_string())).cloned().unwrap_or_default();
                (v.clone(), v.len() <= 1)
            }
            Ty::Lock(_) => (vec![], true),
            Ty::Unknown => {
                if STD_NAMES.contains(&name) {
                    return (vec![], true);
                }
                let v: Vec<usize> = self.by_name.get(name).cloned().unwrap_or_default().into_iter().filter(|&i| self.prog.funcs[i].is_method && (self.visible(i) || self.prog.funcs[i].trait_name.is_some())).collect();
                (v, false)
            }
        }
    }

    fn resolve_path_call(&self, func: &Expr, env: &Env) -> (Vec<usize>, bool, String) {
        if let Expr::Path(p) = func {
            let segs: Vec<String> = p.path.segments.iter().map(|s| s.ident.to_string()).collect();
            let name = segs.last().cloned().unwrap_or_default();
            if segs.len() >= 2 {
                let mut ty = segs[segs.len() - 2].clone();
                if ty == "Self" {
                    ty = env.self_ty.clone().unwrap_or_default();
                }
                if let Some(v) = self.by_ty_name.get(&(ty.clone(), name.clone())) {
                    return (v.clone(), v.len() == 1, format!("{}::{}", ty, name));
                }
                if ty.chars().next().map(|c| c.is_uppercase()).unwrap_or(false) {
                    // a type of another crate (std, tokio ...)
                    return (vec![], true, format!("{}::{}", ty, name));
                }
            }
            // a local variable or parameter that is called (closure, fn pointer)
            if segs.len() == 1 && env.has(&name) {
                return (vec![], true, name);
            }
            // free function (of this crate or of a crate it depends on)
            let v: Vec<usize> = self.by_name.get(&name).cloned().unwrap_or_default().into_iter().filter(|&i| !self.prog.funcs[i].is_method && self.visible(i)).collect();
            let precise = v.len() == 1;
            return (v, precise, name);
        }
        (vec![], true, String::new())
    }

    /// `Some(e)`, `Ok(e)`, `Box::new(e)`, `(e)` -> e
    fn peel_wrapper(e: &Expr) -> &Expr {
        match e {
            Expr::Paren(p) => Self::peel_wrapper(&p.expr),
            Expr::Call(c) if c.args.len() == 1 => {
                let f = expr_text(&c.func).replace(' ', "");
                if ["Some", "Ok", "Box::new", "Arc::new"].contains(&f.as_str()) {
                    Self::peel_wrapper(&c.args[0])
                } else {
                    e
                }
            }
            _ => e,
        }
    }

    /// how many scopes further out than the current one `name` was declared (large when unknown)
    fn scopes_up(env: &Env, name: &str) -> usize {
        for (i, m) in env.vars.iter().enumerate().rev() {
            if m.contains_key(name) {
                return env.vars.len() - 1 - i;
            }
        }
        usize::MAX / 2
    }

    fn bind_name(p: &Pat) -> Option<String> {
        match p {
            Pat::Ident(i) => Some(i.ident.to_string()),
            Pat::Type(t) => Self::bind_name(&t.pat),
            Pat::Wild(_) => Some("_".into()),
            _ => None,
        }
    }

    // ------------------------------------------------------------------ expressions

    /// visit an expression in evaluation order, appending nodes; acquisitions found here are
    /// temporaries unless the caller handles the outermost one itself
    fn expr(&mut self, e: &Expr, env: &mut Env, out: &mut Vec<Node>) {
        if let Some((recv, write, _)) = self.as_acq(e) {
            self.expr(recv, env, out);
            if let Some(site) = self.classify(recv, env, line_of(e), write) {
                out.push(Node::Acq { site, bind: Bind::Temp });
            }
            return;
        }
        match e {
            Expr::Await(a) => self.expr(&a.base, env, out),
            Expr::MethodCall(m) => {
                self.expr(&m.receiver, env, out);
                for a in m.args.iter() {
                    self.expr(a, env, out);
                }
                let name = m.method.to_string();
                let (callees, precise) = self.resolve_method(&m.receiver, &name, env);
                if !callees.is_empty() {
                    out.push(Node::Call { callees, precise, line: line_of(m), name });
                }
            }
            Expr::Call(c) => {
                let ftxt = expr_text(&c.func);
                // drop(x)
                if ftxt == "drop" || ftxt.ends_with("::drop") {
                    if let Some(Expr::Path(p)) = c.args.first() {
                        if let Some(id) = p.path.get_ident() {
                            out.push(Node::Drop { var: id.to_string() });
                            return;
                        }
                    }
                }
                let is_spawn = ftxt.ends_with("spawn") || ftxt.ends_with("spawn_local") || ftxt.ends_with("spawn_blocking");
                if is_spawn {
                    for a in c.args.iter() {
                        let mut body = vec![];
                        let mut env2 = Env { vars: env.vars.clone(), self_ty: env.self_ty.clone() };
                        self.expr_inner_of_closure(a, &mut env2, &mut body);
                        self.spawned.push((body, line_of(c)));
                        out.push(Node::Spawn(self.spawned.len() - 1));
                    }
                    return;
                }
                for a in c.args.iter() {
                    self.expr(a, env, out);
                }
                let (callees, precise, name) = self.resolve_path_call(&c.func, env);
                if !callees.is_empty() {
                    out.push(Node::Call { callees, precise, line: line_of(c), name });
                }
            }
            Expr::Block(b) => {
                let mut inner = vec![];
                self.block(&b.block, env, &mut inner);
                out.push(Node::Scope(inner));
            }
            Expr::Async(a) => {
                let mut inner = vec![];
                self.block(&a.block, env, &mut inner);
                out.push(Node::Scope(inner));
            }
            Expr::Unsafe(u) => {
                let mut inner = vec![];
                self.block(&u.block, env, &mut inner);
                out.push(Node::Scope(inner));
            }
            Expr::Closure(c) => {
                // executed in place (iterator adaptors, callbacks): approximated as inline
                let mut inner = vec![];
                env.vars.push(BTreeMap::new());
                for p in c.inputs.iter() {
                    if let Some(n) = Self::bind_name(p) {
                        env.set(&n, Ty::Unknown);
                    }
                }
                self.expr(&c.body, env, &mut inner);
                env.vars.pop();
                out.push(Node::Scope(vec![Node::Stmt(inner)]));
            }
            Expr::If(i) => {
                // condition temporaries are dropped before the branches, except for `if let`
                let mut cond = vec![];
                let is_let = matches!(&*i.cond, Expr::Let(_));
                self.expr(&i.cond, env, &mut cond);
                let mut then_nodes = vec![];
                self.block(&i.then_branch, env, &mut then_nodes);
                let then_div = block_diverges(&i.then_branch);
                let mut else_nodes = vec![];
                let mut else_div = false;
                if let Some((_, eb)) = &i.else_branch {
                    self.expr(eb, env, &mut else_nodes);
                    else_div = expr_diverges(eb);
                }
                let alt = Node::Alt(vec![(vec![Node::Scope(then_nodes)], then_div), (else_nodes, else_div)]);
                if is_let {
                    let mut s = cond;
                    s.push(alt);
                    out.push(Node::Stmt(s));
                } else {
                    out.push(Node::Stmt(cond));
                    out.push(alt);
                }
            }
            Expr::Let(l) => {
                self.expr(&l.expr, env, out);
                // bind pattern variables with the guard payload type when the scrutinee is a guard
                self.bind_pattern_types(&l.pat, &l.expr, env);
            }
            Expr::Match(m) => {
                let mut s = vec![];
                self.expr(&m.expr, env, &mut s);
                let mut arms = vec![];
                for arm in m.arms.iter() {
                    let mut a = vec![];
                    if let Some((_, g)) = &arm.guard {
                        self.expr(g, env, &mut a);
                    }
                    self.expr(&arm.body, env, &mut a);
                    arms.push((vec![Node::Scope(a)], expr_diverges(&arm.body)));
                }
                s.push(Node::Alt(arms));
                out.push(Node::Stmt(s));
            }
            Expr::While(w) => {
                let is_let = matches!(&*w.cond, Expr::Let(_));
                let mut cond = vec![];
                self.expr(&w.cond, env, &mut cond);
                let mut body = vec![];
                self.block(&w.body, env, &mut body);
                if is_let {
                    let mut s = cond;
                    s.push(Node::Scope(body));
                    out.push(Node::Loop(vec![Node::Stmt(s)]));
                } else {
                    out.push(Node::Loop(vec![Node::Stmt(cond), Node::Scope(body)]));
                }
            }
            Expr::ForLoop(f) => {
                let mut s = vec![];
                self.expr(&f.expr, env, &mut s);
                let mut body = vec![];
                self.block(&f.body, env, &mut body);
                s.push(Node::Loop(vec![Node::Scope(body)]));
                out.push(Node::Stmt(s));
            }
            Expr::Loop(l) => {
                let mut body = vec![];
                self.block(&l.body, env, &mut body);
                out.push(Node::Loop(vec![Node::Scope(body)]));
            }
            Expr::Macro(m) => self.mac(&m.mac, env, out),
            Expr::Assign(a) => {
                // `x = Some(lock.write().await)` / `x = lock.write().await`: the guard moves into x
                if let Expr::Path(lp) = &*a.left {
                    if let Some(name) = lp.path.get_ident().map(|i| i.to_string()) {
                        if let Some((recv, write, _)) = self.as_acq(Self::peel_wrapper(&a.right)) {
                            let mut s = vec![];
                            self.expr(recv, env, &mut s);
                            out.extend(s);
                            if let Some(site) = self.classify(recv, env, line_of(&*a.right), write) {
                                let up = Self::scopes_up(env, &name);
                                out.push(Node::Acq { site, bind: Bind::Outer(name, up) });
                            }
                            return;
                        }
                        if let Expr::Path(rp) = &*a.right {
                            if rp.path.is_ident("None") {
                                out.push(Node::Drop { var: name });
                                return;
                            }
                        }
                    }
                }
                self.expr(&a.right, env, out);
                self.expr(&a.left, env, out);
            }
            Expr::Binary(b) => {
                self.expr(&b.left, env, out);
                self.expr(&b.right, env, out);
            }
            Expr::Unary(u) => self.expr(&u.expr, env, out),
            Expr::Paren(p) => self.expr(&p.expr, env, out),
            Expr::Reference(r) => self.expr(&r.expr, env, out),
            Expr::Field(f) => self.expr(&f.base, env, out),
            Expr::Index(i) => {
                self.expr(&i.expr, env, out);
                self.expr(&i.index, env, out);
            }
            Expr::Try(t) => self.expr(&t.expr, env, out),
            Expr::Cast(c) => self.expr(&c.expr, env, out),
            Expr::Return(r) => {
                if let Some(e) = &r.expr {
                    self.expr(e, env, out);
                }
            }
            Expr::Break(b) => {
                if let Some(e) = &b.expr {
                    self.expr(e, env, out);
                }
            }
            Expr::Tuple(t) => {
                for e in t.elems.iter() {
                    self.expr(e, env, out);
                }
            }
            Expr::Array(a) => {
                for e in a.elems.iter() {
                    self.expr(e, env, out);
                }
            }
            Expr::Struct(s) => {
                for f in s.fields.iter() {
                    self.expr(&f.expr, env, out);
                }
                if let Some(r) = &s.rest {
                    self.expr(r, env, out);
                }
            }
            Expr::Range(r) => {
                if let Some(a) = &r.start {
                    self.expr(a, env, out);
                }
                if let Some(b) = &r.end {
                    self.expr(b, env, out);
                }
            }
            Expr::Repeat(r) => {
                self.expr(&r.expr, env, out);
            }
            Expr::Group(g) => self.expr(&g.expr, env, out),
            Expr::TryBlock(t) => {
                let mut inner = vec![];
                self.block(&t.block, env, &mut inner);
                out.push(Node::Scope(inner));
            }
            _ => {}
        }
    }

    fn expr_inner_of_closure(&mut self, e: &Expr, env: &mut Env, out: &mut Vec<Node>) {
        match e {
            Expr::Closure(c) => self.expr(&c.body, env, out),
            Expr::Async(a) => self.block(&a.block, env, out),
            _ => self.expr(e, env, out),
        }
    }

    fn bind_pattern_types(&mut self, pat: &Pat, init: &Expr, env: &mut Env) {
        if let Some(name) = Self::bind_name(pat) {
            let t = if let Some((recv, _, _)) = self.as_acq(init) {
                match self.ty_of(recv, env) {
                    Ty::Lock(k) => k.payload().map(|p| Ty::Named(p.to_string())).unwrap_or(Ty::Unknown),
                    _ => {
                        // by name classification
                        let li = last_ident(recv).unwrap_or_default();
                        match self.prog.field_locks.get(&li).and_then(|s| if s.len() == 1 { s.iter().next() } else { None }) {
                            Some(k) => k.payload().map(|p| Ty::Named(p.to_string())).unwrap_or(Ty::Unknown),
                            None => Ty::Unknown,
                        }
                    }
                }
            } else {
                self.ty_of(init, env)
            };
            env.set(&name, t);
        }
        if let Pat::Type(pt) = pat {
            if let Some(n) = Self::bind_name(&pt.pat) {
                let t = ty_from_syn(&pt.ty);
                if t != Ty::Unknown {
                    env.set(&n, t);
                }
            }
        }
    }

    fn mac(&mut self, m: &syn::Macro, env: &mut Env, out: &mut Vec<Node>) {
        let name = m.path.segments.last().map(|s| s.ident.to_string()).unwrap_or_default();
        let toks = m.tokens.clone();
        let raw = count_raw_sites(&toks);
        if name == "select" {
            // tokio::select! { pat = expr => block, ... } : scan every parsable block / expr
            let before = self.prog.sites.len() + self.prog.unclassified.len();
            self.scan_token_groups(&toks, env, out);
            let after = self.prog.sites.len() + self.prog.unclassified.len();
            if after - before < raw {
                self.prog.unparsed_macro_sites.push((self.file.clone(), line_of(m), format!("{}! ({} of {} sites parsed)", name, after - before, raw)));
            }
            return;
        }
        let parser = Punctuated::<Expr, Token![,]>::parse_terminated;
        match syn::parse::Parser::parse2(parser, toks.clone()) {
            Ok(list) => {
                let mut s = vec![];
                for e in list.iter() {
                    self.expr(e, env, &mut s);
                }
                if !s.is_empty() {
                    out.push(Node::Stmt(s));
                }
            }
            Err(_) => {
                // try as a block of statements
                let wrapped: TokenStream = quote::quote!({ #toks });
                match syn::parse2::<syn::Block>(wrapped) {
                    Ok(b) => {
                        let mut inner = vec![];
                        self.block(&b, env, &mut inner);
                        out.push(Node::Scope(inner));
                    }
                    Err(_) => {
                        if raw > 0 {
                            self.prog.unparsed_macro_sites.push((self.file.clone(), line_of(m), format!("{}! ({} sites)", name, raw)));
                        }
                    }
                }
            }
        }
    }

    fn scan_token_groups(&mut self, ts: &TokenStream, env: &mut Env, out: &mut Vec<Node>) {
        // split at top level on ',' and "=>" ; try to parse each piece as expr or block
        let mut piece: Vec<TokenTree> = vec![];
        let mut pieces: Vec<Vec<TokenTree>> = vec![];
        let toks: Vec<TokenTree> = ts.clone().into_iter().collect();
        let mut i = 0;
        while i < toks.len() {
            match &toks[i] {
                TokenTree::Punct(p) if p.as_char() == ',' => {
                    pieces.push(std::mem::take(&mut piece));
                }
                TokenTree::Punct(p) if p.as_char() == '=' && i + 1 < toks.len() && matches!(&toks[i + 1], TokenTree::Punct(q) if q.as_char() == '>') => {
                    pieces.push(std::mem::take(&mut piece));
                    i += 1;
                }
                TokenTree::Punct(p) if p.as_char() == '=' => {
                    // pattern = future : drop the pattern part
                    piece.clear();
                }
                TokenTree::Group(g) if g.delimiter() == proc_macro2::Delimiter::Brace && piece.is_empty() => {
                    pieces.push(vec![toks[i].clone()]);
                }
                t => piece.push(t.clone()),
            }
            i += 1;
        }
        if !piece.is_empty() {
            pieces.push(piece);
        }
        let mut alts = vec![];
        for p in pieces {
            let ts: TokenStream = p.into_iter().collect();
            if let Ok(e) = syn::parse2::<Expr>(ts.clone()) {
                let mut s = vec![];
                self.expr(&e, env, &mut s);
                if !s.is_empty() {
                    alts.push((vec![Node::Scope(vec![Node::Stmt(s)])], false));
                }
            } else if let Ok(b) = syn::parse2::<syn::Block>(ts) {
                let mut s = vec![];
                self.block(&b, env, &mut s);
                alts.push((vec![Node::Scope(s)], false));
            }
        }
        if !alts.is_empty() {
            out.push(Node::Alt(alts));
        }
    }

    // ------------------------------------------------------------------ statements

    fn block(&mut self, b: &syn::Block, env: &mut Env, out: &mut Vec<Node>) {
        env.vars.push(BTreeMap::new());
        for st in b.stmts.iter() {
            self.stmt(st, env, out);
        }
        env.vars.pop();
    }

    fn stmt(&mut self, st: &Stmt, env: &mut Env, out: &mut Vec<Node>) {
        match st {
            Stmt::Local(l) => {
                let Some(init) = &l.init else { return };
                let e = &init.expr;
                // `let g = X.read().await;`  (possibly `let (a, b) = (X.read().await, Y.read().await);`)
                let e: &Box<Expr> = e;
                let peeled: &Expr = if self.as_acq(e).is_none() && self.as_acq(Self::peel_wrapper(e)).is_some() { Self::peel_wrapper(e) } else { &**e };
                if let Some((recv, write, _)) = self.as_acq(peeled) {
                    let mut s = vec![];
                    self.expr(recv, env, &mut s);
                    if !s.is_empty() {
                        out.push(Node::Stmt(s));
                    }
                    let name = Self::bind_name(&l.pat);
                    if let Some(site) = self.classify(recv, env, line_of(peeled), write) {
                        let bind = match name.as_deref() {
                            Some("_") => Bind::Discard,
                            Some(n) => Bind::Var(n.to_string()),
                            None => Bind::Var(format!("<pattern@{}>", line_of(l))),
                        };
                        out.push(Node::Acq { site, bind });
                    }
                    self.bind_pattern_types(&l.pat, e, env);
                    return;
                }
                if let (Expr::Tuple(t), Pat::Tuple(pt)) = (&**e, &l.pat) {
                    if t.elems.len() == pt.elems.len() && t.elems.iter().any(|x| self.as_acq(x).is_some()) {
                        for (x, p) in t.elems.iter().zip(pt.elems.iter()) {
                            if let Some((recv, write, _)) = self.as_acq(x) {
                                if let Some(site) = self.classify(recv, env, line_of(x), write) {
                                    let bind = match Self::bind_name(p).as_deref() {
                                        Some("_") => Bind::Discard,
                                        Some(n) => Bind::Var(n.to_string()),
                                        None => Bind::Var(format!("<pattern@{}>", line_of(l))),
                                    };
                                    out.push(Node::Acq { site, bind });
                                }
                                self.bind_pattern_types(p, x, env);
                            } else {
                                let mut s = vec![];
                                self.expr(x, env, &mut s);
                                out.push(Node::Stmt(s));
                            }
                        }
                        return;
                    }
                }
                let mut s = vec![];
                self.expr(e, env, &mut s);
                if let Some((_, div)) = &init.diverge {
                    let mut d = vec![];
                    self.expr(div, env, &mut d);
                    s.push(Node::Alt(vec![(vec![], false), (d, true)]));
                }
                if !s.is_empty() {
                    out.push(Node::Stmt(s));
                }
                self.bind_pattern_types(&l.pat, e, env);
            }
            Stmt::Expr(e, _) => {
                let mut s = vec![];
                self.expr(e, env, &mut s);
                if !s.is_empty() {
                    // control-flow expressions manage their own statement boundaries
                    match e {
                        Expr::If(_) | Expr::Block(_) | Expr::Loop(_) | Expr::While(_) => out.extend(s),
                        _ => out.push(Node::Stmt(s)),
                    }
                }
            }
            Stmt::Macro(m) => {
                let mut s = vec![];
                self.mac(&m.mac, env, &mut s);
                if !s.is_empty() {
                    out.push(Node::Stmt(s));
                }
            }
            Stmt::Item(_) => {}
        }
    }
}

fn count_raw_sites(ts: &TokenStream) -> usize {
    let toks: Vec<TokenTree> = ts.clone().into_iter().collect();
    let mut n = 0;
    for (i, t) in toks.iter().enumerate() {
        match t {
            TokenTree::Group(g) => n += count_raw_sites(&g.stream()),
            TokenTree::Ident(id) => {
                let s = id.to_string();
                if (s == "read" || s == "write" || s == "lock") && i > 0 && matches!(&toks[i - 1], TokenTree::Punct(p) if p.as_char() == '.') {
                    // followed by () . await
                    if let (Some(TokenTree::Group(g)), Some(TokenTree::Punct(p)), Some(TokenTree::Ident(a))) = (toks.get(i + 1), toks.get(i + 2), toks.get(i + 3)) {
                        if g.stream().is_empty() && p.as_char() == '.' && a == "await" {
                            n += 1;
                        }
                    }
                }
            }
            _ => {}
        }
    }
    n
}

fn expr_diverges(e: &Expr) -> bool {
    match e {
        Expr::Return(_) | Expr::Break(_) | Expr::Continue(_) => true,
        Expr::Block(b) => block_diverges(&b.block),
        Expr::Macro(m) => {
            let n = m.mac.path.segments.last().map(|s| s.ident.to_string()).unwrap_or_default();
            ["panic", "unreachable", "todo", "unimplemented"].contains(&n.as_str())
        }
        _ => false,
    }
}

fn block_diverges(b: &syn::Block) -> bool {
    match b.stmts.last() {
        Some(Stmt::Expr(e, _)) => expr_diverges(e),
        Some(Stmt::Macro(m)) => {
            let n = m.mac.path.segments.last().map(|s| s.ident.to_string()).unwrap_or_default();
            ["panic", "unreachable", "todo", "unimplemented"].contains(&n.as_str())
        }
        _ => false,
    }
}

// ------------------------------------------------------------------------------------------
// exploration
// ------------------------------------------------------------------------------------------

#[derive(Clone, Debug, PartialEq, Eq, PartialOrd, Ord)]
struct Held {
    kind: Kind,
    write: bool,
    var: Option<String>,
    depth: usize,
    stmt: usize,
    site: Option<usize>,
    /// inherited from the caller
    inherited: bool,
}

type Ctx = Vec<(Kind, bool)>;

#[derive(Clone, Debug)]
struct Finding {
    class: String,
    held: Kind,
    held_write: bool,
    held_site: Option<usize>,
    acquired_site: usize,
    root: usize,
    chain: Vec<(usize, usize)>, // (func, call line)
    precise: bool,
    all_held: Vec<(Kind, bool)>,
}

struct Explorer<'a> {
    prog: &'a Program,
    seen: BTreeSet<(usize, Ctx)>,
    parent: BTreeMap<(usize, Ctx), (usize, Ctx, usize, bool)>,
    queue: VecDeque<(usize, Ctx)>,
    findings: Vec<Finding>,
    transitions: u64,
    /// site -> set of held kind-sets observed statically (for conformance)
    site_held: BTreeMap<usize, BTreeSet<Vec<(Kind, bool)>>>,
    stmt_counter: usize,
    capped: usize,
}

impl<'a> Explorer<'a> {
    fn run(&mut self, roots: &[usize]) {
        for &r in roots {
            let k = (r, vec![]);
            if self.seen.insert(k.clone()) {
                self.queue.push_back(k);
            }
        }
        while let Some((f, ctx)) = self.queue.pop_front() {
            #[allow(unused_mut)]
            let mut held: Vec<Held> = ctx.iter().map(|(k, w)| Held { kind: k.clone(), write: *w, var: None, depth: 0, stmt: 0, site: None, inherited: true }).collect();
            let body = self.prog.funcs[f].body.clone();
            held.sort();
            self.walk(&body, vec![held], 1, 0, f, &ctx);
        }
    }

    fn chain_of(&self, f: usize, ctx: &Ctx) -> (usize, Vec<(usize, usize)>, bool) {
        let mut chain = vec![];
        let mut cur = (f, ctx.clone());
        let mut precise = true;
        let mut guard = 0;
        while let Some((pf, pctx, line, pr)) = self.parent.get(&cur) {
            chain.push((*pf, *line));
            precise &= *pr;
            cur = (*pf, pctx.clone());
            guard += 1;
            if guard > 64 {
                break;
            }
        }
        chain.reverse();
        (cur.0, chain, precise)
    }

    /// disjunctive walk: `states` is the set of possible held-lock lists at this point (one per
    /// path class); returns the set after the nodes
    fn walk(&mut self, nodes: &[Node], mut states: Vec<Vec<Held>>, depth: usize, stmt: usize, f: usize, ctx: &Ctx) -> Vec<Vec<Held>> {
        for n in nodes {
            if states.is_empty() {
                break;
            }
            match n {
                Node::Acq { site, bind } => {
                    let s = self.prog.sites[*site].clone();
                    for held in states.iter_mut() {
                        self.transitions += 1;
                        let mut hs: Vec<(Kind, bool)> = held.iter().map(|h| (h.kind.clone(), h.write)).collect();
                        hs.sort();
                        hs.dedup();
                        self.site_held.entry(*site).or_default().insert(hs.clone());
                        for h in held.iter() {
                            let class = match (h.kind.rank(), s.kind.rank()) {
                                (Some(a), Some(b)) if a > b => Some("inversion"),
                                (Some(a), Some(b)) if a == b && (h.write || s.write) => Some("reacquire"),
                                // read while already reading: blocks behind a queued writer (tokio's lock is fair)
                                (Some(a), Some(b)) if a == b => Some("reacquire-read"),
                                _ => None,
                            };
                            if let Some(class) = class {
                                let (root, chain, precise) = self.chain_of(f, ctx);
                                self.findings.push(Finding {
                                    class: class.to_string(),
                                    held: h.kind.clone(),
                                    held_write: h.write,
                                    held_site: h.site,
                                    acquired_site: *site,
                                    root,
                                    chain,
                                    precise,
                                    all_held: hs.clone(),
                                });
                            }
                        }
                        match bind {
                            Bind::Discard => {}
                            Bind::Var(v) => held.push(Held { kind: s.kind.clone(), write: s.write, var: Some(v.clone()), depth, stmt: 0, site: Some(*site), inherited: false }),
                            Bind::Temp => held.push(Held { kind: s.kind.clone(), write: s.write, var: None, depth, stmt, site: Some(*site), inherited: false }),
                            Bind::Outer(v, up) => held.push(Held { kind: s.kind.clone(), write: s.write, var: Some(v.clone()), depth: depth.saturating_sub(*up), stmt: 0, site: Some(*site), inherited: false }),
                        }
                    }
                }
                Node::Drop { var } => {
                    for held in states.iter_mut() {
                        if let Some(i) = held.iter().rposition(|h| h.var.as_deref() == Some(var.as_str())) {
                            held.remove(i);
                        }
                    }
                }
                Node::Call { callees, precise, line, .. } => {
                    for held in states.iter() {
                        let mut c: Ctx = held.iter().map(|h| (h.kind.clone(), h.write)).collect();
                        c.sort();
                        c.dedup();
                        for &cal in callees {
                            self.transitions += 1;
                            let k = (cal, c.clone());
                            if self.seen.insert(k.clone()) {
                                self.parent.insert(k.clone(), (f, ctx.clone(), *line, *precise && callees.len() == 1));
                                self.queue.push_back(k);
                            }
                        }
                    }
                }
                Node::Scope(inner) => {
                    let d = depth + 1;
                    states = self.walk(inner, states, d, stmt, f, ctx);
                    for held in states.iter_mut() {
                        held.retain(|h| h.inherited || h.depth < d);
                    }
                }
                Node::Stmt(inner) => {
                    self.stmt_counter += 1;
                    let sid = self.stmt_counter;
                    states = self.walk(inner, states, depth, sid, f, ctx);
                    for held in states.iter_mut() {
                        held.retain(|h| h.inherited || h.var.is_some() || h.stmt != sid);
                    }
                }
                Node::Alt(alts) => {
                    if alts.is_empty() {
                        continue;
                    }
                    let mut out: Vec<Vec<Held>> = vec![];
                    for (a, div) in alts {
                        let r = self.walk(a, states.clone(), depth, stmt, f, ctx);
                        if !*div {
                            out.extend(r);
                        }
                    }
                    states = out;
                }
                Node::Loop(inner) => {
                    // zero, one and two iterations
                    let s1 = self.walk(inner, states.clone(), depth, stmt, f, ctx);
                    let s2 = self.walk(inner, s1.clone(), depth, stmt, f, ctx);
                    states.extend(s1);
                    states.extend(s2);
                }
                Node::Spawn(_) => {}
            }
            // canonicalise
            states.sort();
            states.dedup();
            if states.len() > 64 {
                self.capped += 1;
                states.truncate(64);
            }
        }
        states
    }
}

// ------------------------------------------------------------------------------------------
// main
// ------------------------------------------------------------------------------------------

fn rs_files(dir: &Path) -> Vec<PathBuf> {
    let mut v: Vec<PathBuf> = walkdir::WalkDir::new(dir)
        .into_iter()
        .filter_map(|e| e.ok())
        .filter(|e| e.path().extension().map(|x| x == "rs").unwrap_or(false))
        .map(|e| e.path().to_path_buf())
        .filter(|p| {
            let s = p.to_string_lossy();
            !s.contains("/test/") && !s.contains("/tests/") && !s.contains("/benches/") && !s.ends_with("/test.rs") && !s.contains("/verif_")
        })
        .collect();
    v.sort();
    v
}

fn main() {
    let args: Vec<String> = std::env::args().collect();
    let repo = args.iter().position(|a| a == "--repo").and_then(|i| args.get(i + 1)).cloned().unwrap_or("/repo".into());
    let out = args.iter().position(|a| a == "--out").and_then(|i| args.get(i + 1)).cloned();
    let crates = ["saito-core", "saito-rust", "saito-spammer", "saito-wasm"];
    let mut prog = Program::default();
    let mut decls: Vec<Decl> = vec![];
    let mut parse_errors = vec![];
    let mut files_parsed = 0;
    for c in crates {
        for p in rs_files(&Path::new(&repo).join(c).join("src")) {
            let txt = match std::fs::read_to_string(&p) {
                Ok(t) => t,
                Err(e) => {
                    parse_errors.push(format!("{}: {}", p.display(), e));
                    continue;
                }
            };
            let rel = p.strip_prefix(&repo).unwrap_or(&p).to_string_lossy().to_string();
            match syn::parse_file(&txt) {
                Ok(f) => {
                    files_parsed += 1;
                    collect_items(&f.items, c, &rel, &mut prog, &mut decls);
                }
                Err(e) => parse_errors.push(format!("{}: {}", rel, e)),
            }
        }
    }
    // function table
    for d in decls.iter() {
        let is_method = d.sig.inputs.iter().any(|a| matches!(a, syn::FnArg::Receiver(_)));
        let exported = d.krate == "saito-wasm" && (d.attrs.iter().any(|a| a.to_token_stream().to_string().contains("wasm_bindgen")) || d.self_ty.as_deref().map(|t| t.starts_with("Wasm") || t == "SaitoWasm").unwrap_or(false));
        prog.funcs.push(Func {
            krate: d.krate.clone(),
            file: d.file.clone(),
            line: d.sig.ident.span().start().line,
            name: d.sig.ident.to_string(),
            self_ty: d.self_ty.clone(),
            trait_name: d.trait_name.clone(),
            is_method,
            exported_wasm: exported,
            body: vec![],
            is_spawn_body: false,
        });
        if let syn::ReturnType::Type(_, t) = &d.sig.output {
            let rt = ty_from_syn(t);
            if rt != Ty::Unknown {
                prog.returns.insert((d.self_ty.clone().unwrap_or_default(), d.sig.ident.to_string()), rt);
            }
        }
    }
    let mut by_ty_name: BTreeMap<(String, String), Vec<usize>> = BTreeMap::new();
    let mut by_name: BTreeMap<String, Vec<usize>> = BTreeMap::new();
    let mut trait_impls: BTreeMap<(String, String), Vec<usize>> = BTreeMap::new();
    for (i, f) in prog.funcs.iter().enumerate() {
        by_name.entry(f.name.clone()).or_default().push(i);
        if let Some(t) = &f.self_ty {
            by_ty_name.entry((t.clone(), f.name.clone())).or_default().push(i);
        }
        if let Some(tr) = &f.trait_name {
            trait_impls.entry((tr.clone(), f.name.clone())).or_default().push(i);
        }
    }
    // bodies
    let n_decl = decls.len();
    for (i, d) in decls.iter().enumerate() {
        let Some(block) = &d.block else { continue };
        let mut env = Env { vars: vec![BTreeMap::new()], self_ty: d.self_ty.clone() };
        for a in d.sig.inputs.iter() {
            if let syn::FnArg::Typed(pt) = a {
                if let Some(n) = Builder::bind_name(&pt.pat) {
                    env.set(&n, ty_from_syn(&pt.ty));
                }
            }
        }
        let mut b = Builder { prog: &mut prog, by_ty_name: &by_ty_name, by_name: &by_name, trait_impls: &trait_impls, file: d.file.clone(), func: i, krate: d.krate.clone(), spawned: vec![] };
        let mut body = vec![];
        b.block(block, &mut env, &mut body);
        let spawned = std::mem::take(&mut b.spawned);
        let _ = &b.krate;
        prog.funcs[i].body = vec![Node::Scope(body)];
        // spawned bodies become functions of their own
        for (sb, line) in spawned {
            let parent = prog.funcs[i].clone();
            prog.funcs.push(Func { name: format!("{}::<spawned@{}>", parent.name, line), line, body: vec![Node::Scope(sb)], is_spawn_body: true, exported_wasm: false, ..parent });
        }
    }
    let _ = n_decl;
    // raw count of sites over the same files for the completeness gate
    let mut raw = 0usize;
    for c in crates {
        for p in rs_files(&Path::new(&repo).join(c).join("src")) {
            if let Ok(txt) = std::fs::read_to_string(&p) {
                if let Ok(f) = syn::parse_file(&txt) {
                    raw += count_raw_sites_items(&f.items);
                }
            }
        }
    }
    prog.raw_site_count = raw;

    // explore: every function is a root with nothing held
    let roots: Vec<usize> = (0..prog.funcs.len()).collect();
    let mut ex = Explorer { prog: &prog, seen: BTreeSet::new(), parent: BTreeMap::new(), queue: VecDeque::new(), findings: vec![], transitions: 0, site_held: BTreeMap::new(), stmt_counter: 0, capped: 0 };
    ex.run(&roots);

    // wasm gate: every acquisition of a shared lock reachable from an exported wasm function
    // happens with SAITO held
    let mut wasm_ungated: Vec<serde_json::Value> = vec![];
    {
        let wroots: Vec<usize> = prog.funcs.iter().enumerate().filter(|(_, f)| f.exported_wasm).map(|(i, _)| i).collect();
        let mut wx = Explorer { prog: &prog, seen: BTreeSet::new(), parent: BTreeMap::new(), queue: VecDeque::new(), findings: vec![], transitions: 0, site_held: BTreeMap::new(), stmt_counter: 0, capped: 0 };
        wx.run(&wroots);
        for (site, sets) in wx.site_held.iter() {
            let s = &prog.sites[*site];
            if s.kind.rank().is_none() {
                continue;
            }
            for hs in sets {
                if !hs.iter().any(|(k, _)| *k == Kind::WasmGlobal) {
                    wasm_ungated.push(json!({"file": s.file, "line": s.line, "lock": s.kind.name(), "held": hs.iter().map(|(k, w)| format!("{}{}", k.name(), if *w { ":w" } else { ":r" })).collect::<Vec<_>>()}));
                }
            }
        }
    }

    let site_json = |i: usize| {
        let s = &prog.sites[i];
        json!({"file": s.file, "line": s.line, "lock": s.kind.name(), "mode": if s.write { "write" } else { "read" }, "recv": s.recv, "by": s.by, "fn": prog.funcs[s.func].name})
    };
    let mut fjson = vec![];
    let mut dedup = BTreeSet::new();
    for f in ex.findings.iter() {
        let a = &prog.sites[f.acquired_site];
        let key = format!(
            "{}/{}->{}/{}:{}/held@{}",
            f.class,
            f.held.name(),
            a.kind.name(),
            a.file,
            a.line,
            f.held_site.map(|i| format!("{}:{}", prog.sites[i].file, prog.sites[i].line)).unwrap_or_else(|| "caller".into())
        );
        let chain: Vec<String> = f.chain.iter().map(|(func, line)| format!("{}::{} ({}:{})", prog.funcs[*func].self_ty.clone().unwrap_or_default(), prog.funcs[*func].name, prog.funcs[*func].file, line)).collect();
        let dk = format!("{}|{}|{}", key, chain.join(">"), f.precise);
        if !dedup.insert(dk) {
            continue;
        }
        fjson.push(json!({
            "key": key,
            "class": f.class,
            "precise": f.precise,
            "held": f.held.name(),
            "held_mode": if f.held_write { "write" } else { "read" },
            "held_site": f.held_site.map(site_json),
            "acquired": site_json(f.acquired_site),
            "root": format!("{}::{}", prog.funcs[f.root].self_ty.clone().unwrap_or_default(), prog.funcs[f.root].name),
            "crate": prog.funcs[prog.sites[f.acquired_site].func].krate,
            "chain": chain,
            "all_held": f.all_held.iter().map(|(k, w)| format!("{}{}", k.name(), if *w { ":w" } else { ":r" })).collect::<Vec<_>>(),
        }));
    }
    let sites: Vec<serde_json::Value> = (0..prog.sites.len())
        .map(|i| {
            let mut v = site_json(i);
            let hs: Vec<Vec<String>> = ex.site_held.get(&i).map(|s| s.iter().map(|h| h.iter().map(|(k, w)| format!("{}{}", k.name(), if *w { ":w" } else { ":r" })).collect()).collect()).unwrap_or_default();
            v["held_sets"] = json!(hs);
            v
        })
        .collect();
    let result = json!({
        "files_parsed": files_parsed,
        "parse_errors": parse_errors,
        "functions": prog.funcs.len(),
        "skipped_test_items": prog.skipped_test_items,
        "sites_classified": prog.sites.len(),
        "sites_by_name_only": prog.sites.iter().filter(|s| s.by == "name").count(),
        "sites_raw": prog.raw_site_count,
        "unclassified": prog.unclassified.iter().map(|(f, l, t)| json!({"file": f, "line": l, "recv": t})).collect::<Vec<_>>(),
        "unparsed_macro_sites": prog.unparsed_macro_sites.iter().map(|(f, l, t)| json!({"file": f, "line": l, "what": t})).collect::<Vec<_>>(),
        "states": ex.seen.len(),
        "transitions": ex.transitions,
        "path_state_caps_hit": ex.capped,
        "findings": fjson,
        "wasm_ungated": wasm_ungated,
        "sites": sites,
    });
    let txt = serde_json::to_string_pretty(&result).unwrap();
    match out {
        Some(p) => std::fs::write(p, txt).unwrap(),
        None => println!("{}", txt),
    }
}

fn count_raw_sites_items(items: &[Item]) -> usize {
    let mut n = 0;
    for it in items {
        match it {
            Item::Mod(m) => {
                if has_cfg_test(&m.attrs) {
                    continue;
                }
                if let Some((_, items)) = &m.content {
                    n += count_raw_sites_items(items);
                }
            }
            Item::Fn(f) => {
                if !has_cfg_test(&f.attrs) {
                    n += count_raw_sites(&f.block.to_token_stream());
                }
            }
            Item::Impl(im) => {
                if has_cfg_test(&im.attrs) {
                    continue;
                }
                for ii in im.items.iter() {
                    if let syn::ImplItem::Fn(f) = ii {
                        if !has_cfg_test(&f.attrs) {
                            n += count_raw_sites(&f.block.to_token_stream());
                        }
                    }
                }
            }
            Item::Trait(t) => {
                for ti in t.items.iter() {
                    if let syn::TraitItem::Fn(f) = ti {
                        if let Some(b) = &f.default {
                            n += count_raw_sites(&b.to_token_stream());
                        }
                    }
                }
            }
            _ => {}
        }
    }
    n
}
