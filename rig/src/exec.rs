//! Tiny single-threaded executor with a poll budget, and panic capture.

use std::cell::RefCell;
use std::future::Future;
use std::panic::{catch_unwind, AssertUnwindSafe};
use std::pin::Pin;
use std::sync::Once;
use std::task::{Context, Poll, RawWaker, RawWakerVTable, Waker};

fn noop_raw() -> RawWaker {
    fn clone(_: *const ()) -> RawWaker {
        noop_raw()
    }
    fn noop(_: *const ()) {}
    static VT: RawWakerVTable = RawWakerVTable::new(clone, noop, noop, noop);
    RawWaker::new(std::ptr::null(), &VT)
}

#[derive(Debug, Clone, PartialEq, Eq)]
pub enum Outcome<T> {
    Done(T),
    /// the future returned Pending although nothing else can make progress: it would block forever
    Stalled,
    Panicked(String),
}

impl<T> Outcome<T> {
    pub fn is_done(&self) -> bool {
        matches!(self, Outcome::Done(_))
    }
    pub fn done(self) -> Option<T> {
        match self {
            Outcome::Done(t) => Some(t),
            _ => None,
        }
    }
    pub fn label(&self) -> String {
        match self {
            Outcome::Done(_) => "done".into(),
            Outcome::Stalled => "stalled".into(),
            Outcome::Panicked(m) => format!("panic: {}", m),
        }
    }
}

thread_local! {
    static STEP_BUDGET: RefCell<u64> = RefCell::new(256);
    static LAST_PANIC: RefCell<Option<String>> = RefCell::new(None);
    static QUIET: RefCell<bool> = RefCell::new(false);
}

static HOOK: Once = Once::new();

pub fn install_panic_hook() {
    HOOK.call_once(|| {
        let prev = std::panic::take_hook();
        std::panic::set_hook(Box::new(move |info| {
            let msg = if let Some(s) = info.payload().downcast_ref::<&str>() {
                s.to_string()
            } else if let Some(s) = info.payload().downcast_ref::<String>() {
                s.clone()
            } else {
                "<non-string panic>".to_string()
            };
            let loc = info
                .location()
                .map(|l| format!("{}:{}", l.file(), l.line()))
                .unwrap_or_default();
            let mut first = msg.lines().next().unwrap_or("").to_string();
            if first.len() > 200 {
                first.truncate(200);
            }
            let quiet = QUIET.with(|q| *q.borrow());
            LAST_PANIC.with(|p| *p.borrow_mut() = Some(format!("{} @ {}", first, loc)));
            if !quiet {
                prev(info);
            }
        }));
    });
}

/// Run a future to completion on the current thread.  An uncontended tokio lock / channel
/// completes in one poll; a `Pending` with nobody else to wake us is a stall (deadlock / full
/// channel).  Panics are captured with message and location.
pub fn run<F: Future>(fut: F) -> Outcome<F::Output> {
    install_panic_hook();
    saito_core::core::verif_hooks::set_validate_step_budget(STEP_BUDGET.with(|b| *b.borrow()));
    QUIET.with(|q| *q.borrow_mut() = true);
    LAST_PANIC.with(|p| *p.borrow_mut() = None);
    let waker = unsafe { Waker::from_raw(noop_raw()) };
    let mut cx = Context::from_waker(&waker);
    let mut fut = Box::pin(fut);
    let r = catch_unwind(AssertUnwindSafe(|| {
        // a few polls are allowed: some futures (yield_now style) wake themselves
        for _ in 0..64 {
            if let Poll::Ready(v) = Pin::as_mut(&mut fut).poll(&mut cx) {
                return Some(v);
            }
        }
        None
    }));
    QUIET.with(|q| *q.borrow_mut() = false);
    match r {
        Ok(Some(v)) => Outcome::Done(v),
        Ok(None) => {
            // leak the future: dropping a half-run handler could run destructors on poisoned state
            std::mem::forget(fut);
            Outcome::Stalled
        }
        Err(_) => {
            std::mem::forget(fut);
            let m = LAST_PANIC
                .with(|p| p.borrow_mut().take())
                .unwrap_or_else(|| "<unknown panic>".into());
            Outcome::Panicked(m)
        }
    }
}

/// Run and insist on completion (used for harness-side set-up that must not fail).
pub fn must<F: Future>(fut: F) -> F::Output {
    match run(fut) {
        Outcome::Done(v) => v,
        Outcome::Stalled => panic!("rig: set-up future stalled"),
        Outcome::Panicked(m) => panic!("rig: set-up future panicked: {}", m),
    }
}

/// Catch panics of a synchronous closure (decoders etc).
pub fn catch<T>(f: impl FnOnce() -> T) -> Result<T, String> {
    install_panic_hook();
    QUIET.with(|q| *q.borrow_mut() = true);
    LAST_PANIC.with(|p| *p.borrow_mut() = None);
    let r = catch_unwind(AssertUnwindSafe(f));
    QUIET.with(|q| *q.borrow_mut() = false);
    r.map_err(|_| {
        LAST_PANIC
            .with(|p| p.borrow_mut().take())
            .unwrap_or_else(|| "<unknown panic>".into())
    })
}

/// per-thread budget for the wind/unwind loop of Blockchain::validate (hook H2)
pub fn set_step_budget(b: u64) {
    STEP_BUDGET.with(|x| *x.borrow_mut() = b);
}
pub fn steps_used() -> u64 {
    saito_core::core::verif_hooks::validate_steps_used()
}
pub const LIVELOCK_MSG: &str = "exceeded its step budget";

/// poll a future to completion without catching panics (for use inside `catch`)
pub fn poll_plain<F: Future>(fut: F) -> Option<F::Output> {
    let waker = unsafe { Waker::from_raw(noop_raw()) };
    let mut cx = Context::from_waker(&waker);
    let mut fut = Box::pin(fut);
    for _ in 0..64 {
        if let Poll::Ready(v) = Pin::as_mut(&mut fut).poll(&mut cx) {
            return Some(v);
        }
    }
    None
}
