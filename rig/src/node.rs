//! LedgerNode: the real Blockchain + Mempool + Wallet + Storage over MemIO; Obs snapshot;
//! RefLedger reference model; transaction builders.

use std::collections::{BTreeMap, BTreeSet};
use std::sync::Arc;

use ahash::AHashMap;
use saito_core::core::consensus::block::{Block, BlockType};
use saito_core::core::consensus::blockchain::{AddBlockResult, Blockchain};
use saito_core::core::consensus::golden_ticket::GoldenTicket;
use saito_core::core::consensus::hop::Hop;
use saito_core::core::consensus::mempool::Mempool;
use saito_core::core::consensus::slip::{Slip, SlipType};
use saito_core::core::consensus::transaction::{Transaction, TransactionType};
use saito_core::core::consensus::wallet::Wallet;
use saito_core::core::defs::{
    Currency, SaitoHash, SaitoPublicKey, SaitoSignature, SaitoUTXOSetKey, Timestamp,
};
use saito_core::core::io::storage::Storage;
use saito_core::core::util::crypto::hash;

use crate::exec::{run, Outcome};
use crate::lock::RwLock;
use crate::seams::{Cfg, Key, MemIO};

pub type Hash = SaitoHash;

pub fn hx(h: &[u8]) -> String {
    hex::encode(&h[0..h.len().min(6)])
}

#[derive(Clone, Debug, PartialEq, Eq)]
pub enum AddRes {
    AddedLongest,
    AddedSide,
    Exists,
    Retry,
    Invalid,
    DecodeError,
}

pub struct LedgerNode {
    pub key: Key,
    pub wallet: Arc<RwLock<Wallet>>,
    pub blockchain: Arc<RwLock<Blockchain>>,
    pub mempool: Arc<RwLock<Mempool>>,
    pub storage: Storage,
    pub io: MemIO,
    pub cfg: Cfg,
}

impl LedgerNode {
    pub fn new(key: Key, cfg: Cfg) -> LedgerNode {
        Self::with_io(key, cfg, MemIO::new())
    }
    pub fn with_io(key: Key, cfg: Cfg, io: MemIO) -> LedgerNode {
        let wallet = Arc::new(RwLock::new(Wallet::new(key.private, key.public)));
        let blockchain = Arc::new(RwLock::new(Blockchain::new(
            wallet.clone(),
            cfg.consensus.genesis_period,
            cfg.consensus.default_social_stake,
            cfg.consensus.default_social_stake_period,
        )));
        let mempool = Arc::new(RwLock::new(Mempool::new(wallet.clone())));
        LedgerNode {
            key,
            wallet,
            blockchain,
            mempool,
            storage: Storage::new(Box::new(io.clone())),
            io,
            cfg,
        }
    }

    /// decode from wire bytes and call Blockchain::add_block directly
    pub fn add_block_bytes(&mut self, bytes: &[u8]) -> Outcome<AddRes> {
        let block = match Block::deserialize_from_net(bytes) {
            Ok(b) => b,
            Err(_) => return Outcome::Done(AddRes::DecodeError),
        };
        self.add_block(block)
    }

    pub fn add_block(&mut self, block: Block) -> Outcome<AddRes> {
        let bc = self.blockchain.clone();
        let mp = self.mempool.clone();
        let cfg = self.cfg.clone();
        let storage = &mut self.storage;
        run(async move {
            let mut bc = bc.write().await;
            let mut mp = mp.write().await;
            let r = bc.add_block(block, storage, &mut mp, &cfg).await;
            match r {
                AddBlockResult::BlockAddedSuccessfully(_, true, _) => AddRes::AddedLongest,
                AddBlockResult::BlockAddedSuccessfully(_, false, _) => AddRes::AddedSide,
                AddBlockResult::BlockAlreadyExists => AddRes::Exists,
                AddBlockResult::FailedButRetry(..) => AddRes::Retry,
                AddBlockResult::FailedNotValid => AddRes::Invalid,
            }
        })
    }

    /// the consumer path: mempool.add_block then Blockchain::add_blocks_from_mempool
    pub fn deliver(&mut self, bytes: &[u8]) -> Outcome<bool> {
        let mut block = match Block::deserialize_from_net(bytes) {
            Ok(b) => b,
            Err(_) => return Outcome::Done(false),
        };
        if block.generate().is_err() {
            return Outcome::Done(false);
        }
        let bc = self.blockchain.clone();
        let mp = self.mempool.clone();
        let cfg = self.cfg.clone();
        let storage = &mut self.storage;
        run(async move {
            {
                let mut m = mp.write().await;
                m.add_block(block);
            }
            let mut bc = bc.write().await;
            bc.add_blocks_from_mempool(mp.clone(), None, storage, None, None, &cfg)
                .await;
            true
        })
    }

    /// re-run the consumer loop without a new block (retries queued blocks)
    pub fn pump(&mut self) -> Outcome<bool> {
        let bc = self.blockchain.clone();
        let mp = self.mempool.clone();
        let cfg = self.cfg.clone();
        let storage = &mut self.storage;
        run(async move {
            let mut bc = bc.write().await;
            bc.add_blocks_from_mempool(mp.clone(), None, storage, None, None, &cfg)
                .await;
            true
        })
    }

    pub fn tip(&self) -> (u64, Hash) {
        let bc = self.blockchain.try_read().expect("bc lock");
        (bc.get_latest_block_id(), bc.get_latest_block_hash())
    }

    pub fn obs(&self) -> Obs {
        Obs::take(self)
    }
}

// ------------------------------------------------------------------------------------------
// observable snapshot
// ------------------------------------------------------------------------------------------

#[derive(Clone, Debug, PartialEq, Eq, Default)]
pub struct Obs {
    pub tip_id: u64,
    pub tip_hash: Hash,
    pub last_block_id: u64,
    pub last_block_hash: Hash,
    pub last_timestamp: u64,
    pub last_burnfee: u64,
    pub genesis_block_id: u64,
    pub fork_id: Option<Hash>,
    pub lowest_acceptable: (u64, Hash, u64),
    pub lc_index: Vec<(u64, Hash)>,
    pub blocks: Vec<(Hash, u64, bool, u8)>,
    pub ring: Vec<(usize, Vec<(u64, Hash)>, Option<usize>)>,
    pub ring_lc_pos: Option<usize>,
    pub utxo: Vec<(SaitoUTXOSetKey, bool)>,
    pub wallet_slips: Vec<SaitoUTXOSetKey>,
    /// per wallet slip: what the wallet records about it (origin block, transaction ordinal, index,
    /// amount, spent, on-chain, type) - the fields its next transactions are built from
    pub wallet_slip_records: Vec<String>,
    pub wallet_unspent: Vec<SaitoUTXOSetKey>,
    pub wallet_staking: Vec<SaitoUTXOSetKey>,
    pub wallet_balance: u64,
    pub pool_txs: Vec<SaitoSignature>,
    pub pool_utxo_map: Vec<SaitoUTXOSetKey>,
    pub pool_work: u64,
    pub pool_blocks: Vec<Hash>,
    pub pool_gts: Vec<Hash>,
    pub reservoirs: (u64, u64, u64, u64),
    pub files: Vec<(String, usize)>,
}

pub struct LedgerView<'a> {
    pub blockchain: &'a Arc<RwLock<Blockchain>>,
    pub mempool: &'a Arc<RwLock<Mempool>>,
    pub wallet: &'a Arc<RwLock<Wallet>>,
    pub io: &'a MemIO,
}

impl Obs {
    pub fn take(n: &LedgerNode) -> Obs {
        Obs::take_view(&LedgerView { blockchain: &n.blockchain, mempool: &n.mempool, wallet: &n.wallet, io: &n.io })
    }

    pub fn take_view(n: &LedgerView) -> Obs {
        let bc = n.blockchain.try_read().expect("bc lock busy");
        let mp = n.mempool.try_read().expect("mp lock busy");
        let w = n.wallet.try_read().expect("wallet lock busy");
        let mut o = Obs::default();
        o.tip_id = bc.get_latest_block_id();
        o.tip_hash = bc.get_latest_block_hash();
        o.last_block_id = bc.last_block_id;
        o.last_block_hash = bc.last_block_hash;
        o.last_timestamp = bc.last_timestamp;
        o.last_burnfee = bc.last_burnfee;
        o.genesis_block_id = bc.genesis_block_id;
        o.fork_id = bc.fork_id;
        o.lowest_acceptable = (
            bc.lowest_acceptable_block_id,
            bc.lowest_acceptable_block_hash,
            bc.lowest_acceptable_timestamp,
        );
        let mut ids: BTreeSet<u64> = BTreeSet::new();
        for b in bc.blocks.values() {
            ids.insert(b.id);
        }
        // ids to probe: a contiguous range around the stored blocks when ids are sane, otherwise
        // (a stored block with an extreme id) the stored ids and the range up to the tip
        let maxid = ids.iter().max().cloned().unwrap_or(0).max(o.tip_id);
        let probe: Vec<u64> = if maxid < 1_000_000 {
            (0..=maxid + 1).collect()
        } else {
            let mut v: BTreeSet<u64> = ids.clone();
            v.extend(0..=o.tip_id.min(1_000_000).saturating_add(1));
            v.into_iter().collect()
        };
        for id in probe {
            if let Some(h) = bc.blockring.get_longest_chain_block_hash_at_block_id(id) {
                o.lc_index.push((id, h));
            }
        }
        for (h, b) in bc.blocks.iter() {
            o.blocks
                .push((*h, b.id, b.in_longest_chain, b.block_type as u8));
        }
        o.blocks.sort();
        for (i, item) in bc.blockring.ring.iter().enumerate() {
            if item.block_hashes.is_empty() && item.lc_pos.is_none() {
                continue;
            }
            let v: Vec<(u64, Hash)> = item
                .block_ids
                .iter()
                .cloned()
                .zip(item.block_hashes.iter().cloned())
                .collect();
            o.ring.push((i, v, item.lc_pos));
        }
        o.ring_lc_pos = bc.blockring.lc_pos;
        o.utxo = bc.utxoset.iter().map(|(k, v)| (*k, *v)).collect();
        o.utxo.sort();
        o.wallet_slips = w.slips.keys().cloned().collect();
        o.wallet_slips.sort();
        o.wallet_slip_records = w.slips.values().map(|s| format!("{}-{}-{}:{}:spent={}:lc={}:{:?}", s.block_id, s.tx_ordinal, s.slip_index, s.amount, s.spent, s.lc, s.slip_type)).collect();
        o.wallet_slip_records.sort();
        o.wallet_unspent = w.unspent_slips.iter().cloned().collect();
        o.wallet_unspent.sort();
        o.wallet_staking = w.staking_slips.iter().cloned().collect();
        o.wallet_staking.sort();
        o.wallet_balance = w.get_available_balance();
        o.pool_txs = mp.transactions.keys().cloned().collect();
        o.pool_txs.sort();
        o.pool_utxo_map = mp.utxo_map.keys().cloned().collect();
        o.pool_utxo_map.sort();
        o.pool_work = mp.get_routing_work_available();
        o.pool_blocks = mp.blocks_queue.iter().map(|b| b.hash).collect();
        o.pool_gts = mp.golden_tickets.keys().cloned().collect();
        o.pool_gts.sort();
        if let Some(b) = bc.get_latest_block() {
            o.reservoirs = (b.treasury, b.graveyard, b.previous_block_unpaid, b.total_fees);
        }
        o.files = n.io.file_index();
        o
    }

    pub fn digest(&self) -> Hash {
        hash(format!("{:?}", self).as_bytes())
    }

    /// the chain part only (what two nodes on the same chain must agree on)
    pub fn chain_part(&self) -> (u64, Hash, Vec<(u64, Hash)>, Vec<(SaitoUTXOSetKey, bool)>, (u64, u64, u64, u64)) {
        (
            self.tip_id,
            self.tip_hash,
            self.lc_index.clone(),
            self.utxo.clone(),
            self.reservoirs,
        )
    }

    /// human-readable difference list (field names only + short detail)
    pub fn diff(&self, other: &Obs) -> Vec<String> {
        let mut d = vec![];
        macro_rules! cmp {
            ($f:ident) => {
                if self.$f != other.$f {
                    d.push(format!(
                        "{}: {} vs {}",
                        stringify!($f),
                        short(&format!("{:?}", self.$f)),
                        short(&format!("{:?}", other.$f))
                    ));
                }
            };
        }
        cmp!(tip_id);
        cmp!(tip_hash);
        cmp!(last_block_id);
        cmp!(last_block_hash);
        cmp!(last_timestamp);
        cmp!(last_burnfee);
        cmp!(genesis_block_id);
        cmp!(fork_id);
        cmp!(lowest_acceptable);
        cmp!(lc_index);
        cmp!(blocks);
        cmp!(ring);
        cmp!(ring_lc_pos);
        cmp!(utxo);
        cmp!(wallet_slips);
        cmp!(wallet_slip_records);
        cmp!(wallet_unspent);
        cmp!(wallet_staking);
        cmp!(wallet_balance);
        cmp!(pool_txs);
        cmp!(pool_utxo_map);
        cmp!(pool_work);
        cmp!(pool_blocks);
        cmp!(pool_gts);
        cmp!(reservoirs);
        cmp!(files);
        d
    }
}

fn short(s: &str) -> String {
    if s.len() > 160 {
        format!("{}…(len {})", &s[0..160], s.len())
    } else {
        s.to_string()
    }
}

// ------------------------------------------------------------------------------------------
// reference ledger
// ------------------------------------------------------------------------------------------

/// The boring model: a set of output coordinates.  Applying a block = for every transaction in
/// order, remove every value-carrying input, insert every value-carrying output.
#[derive(Clone, Debug, Default, PartialEq, Eq)]
pub struct RefLedger {
    pub utxo: BTreeSet<SaitoUTXOSetKey>,
    pub height: u64,
    /// inputs that named an output not present when applied (for the oracles)
    pub missing_inputs: Vec<(u64, usize, SaitoUTXOSetKey)>,
}

impl RefLedger {
    pub fn apply(&mut self, block: &Block) {
        self.height = block.id;
        for (ti, tx) in block.transactions.iter().enumerate() {
            for s in tx.from.iter() {
                if s.amount > 0 {
                    let k = s.get_utxoset_key();
                    if !self.utxo.remove(&k) {
                        self.missing_inputs.push((block.id, ti, k));
                    }
                }
            }
            for s in tx.to.iter() {
                if s.amount > 0 {
                    self.utxo.insert(s.get_utxoset_key());
                }
            }
        }
    }
    pub fn slips(&self) -> Vec<Slip> {
        self.utxo
            .iter()
            .map(|k| Slip::parse_slip_from_utxokey(k).unwrap())
            .collect()
    }
    /// unspent outputs of a key, ordered by (block, tx, index)
    pub fn unspent_of(&self, pk: &SaitoPublicKey) -> Vec<Slip> {
        let mut v: Vec<Slip> = self
            .slips()
            .into_iter()
            .filter(|s| &s.public_key == pk && s.slip_type != SlipType::Bound)
            .collect();
        v.sort_by_key(|s| (s.block_id, s.tx_ordinal, s.slip_index));
        v
    }
    pub fn in_window(&self, g: u64) -> BTreeSet<SaitoUTXOSetKey> {
        let lo = self.height.saturating_sub(g);
        self.utxo
            .iter()
            .filter(|k| Slip::parse_slip_from_utxokey(k).unwrap().block_id >= lo)
            .cloned()
            .collect()
    }
    pub fn total_u128(&self, lo_block: u64) -> u128 {
        self.slips()
            .iter()
            .filter(|s| s.block_id >= lo_block && s.slip_type != SlipType::Bound)
            .map(|s| s.amount as u128)
            .sum()
    }
}

/// decode + generate a block from bytes (harness side)
pub fn decode_block(bytes: &[u8]) -> Block {
    let mut b = Block::deserialize_from_net(bytes).expect("harness block decodes");
    b.generate().expect("harness block generates");
    b
}

// ------------------------------------------------------------------------------------------
// transaction builders
// ------------------------------------------------------------------------------------------

pub fn out_slip(pk: &SaitoPublicKey, amount: Currency) -> Slip {
    Slip {
        public_key: *pk,
        amount,
        ..Default::default()
    }
}

/// a user transaction spending `inputs` (exact coordinates) into `outputs`, signed by `signer`
pub fn make_tx(
    inputs: &[Slip],
    outputs: &[(SaitoPublicKey, Currency)],
    signer: &Key,
    ts: Timestamp,
    data: &[u8],
) -> Transaction {
    let mut tx = Transaction::default();
    tx.timestamp = ts;
    tx.data = data.to_vec();
    for s in inputs {
        let mut s = s.clone();
        s.generate_utxoset_key();
        tx.add_from_slip(s);
    }
    if inputs.is_empty() {
        tx.add_from_slip(out_slip(&signer.public, 0));
    }
    for (pk, amt) in outputs {
        tx.add_to_slip(out_slip(pk, *amt));
    }
    tx.sign(&signer.private);
    tx
}

/// re-sign after mutation
pub fn resign(tx: &mut Transaction, signer: &Key) {
    tx.sign(&signer.private);
}

pub fn add_hops(tx: &mut Transaction, route: &[Key], last_to: &SaitoPublicKey) {
    // route[0] -> route[1] -> ... -> last_to
    for i in 0..route.len() {
        let to = if i + 1 < route.len() {
            route[i + 1].public
        } else {
            *last_to
        };
        let hop = Hop::generate(&route[i].private, &route[i].public, &to, tx);
        tx.path.push(hop);
    }
}

pub fn issuance_tx(pk: &SaitoPublicKey, amount: Currency, signer: &Key) -> Transaction {
    let mut tx = Transaction::create_issuance_transaction(*pk, amount);
    tx.generate(pk, 0, 0);
    tx.sign(&signer.private);
    tx
}

/// golden ticket transaction solving `target` at `difficulty`; `nonce` picks among solutions
pub fn golden_ticket_tx(target: Hash, difficulty: u64, miner: &Key, nonce: u64) -> Transaction {
    let mut i: u64 = nonce.wrapping_mul(1_000_003);
    loop {
        let random = hash(&i.to_be_bytes());
        let gt = GoldenTicket::create(target, random, miner.public);
        if gt.validate(difficulty) {
            let mut tx = Transaction::default();
            tx.transaction_type = TransactionType::GoldenTicket;
            tx.data = gt.serialize_for_net();
            tx.add_from_slip(out_slip(&miner.public, 0));
            tx.add_to_slip(out_slip(&miner.public, 0));
            tx.sign(&miner.private);
            return tx;
        }
        i = i.wrapping_add(1);
    }
}

pub fn txmap(txs: Vec<Transaction>) -> AHashMap<SaitoSignature, Transaction> {
    let mut m = AHashMap::new();
    for t in txs {
        m.insert(t.signature, t);
    }
    m
}

pub fn block_bytes(b: &Block) -> Vec<u8> {
    b.serialize_for_net(BlockType::Full)
}

pub fn tx_type_name(t: TransactionType) -> &'static str {
    match t {
        TransactionType::Normal => "Normal",
        TransactionType::Fee => "Fee",
        TransactionType::GoldenTicket => "GoldenTicket",
        TransactionType::ATR => "ATR",
        TransactionType::Vip => "Vip",
        TransactionType::SPV => "SPV",
        TransactionType::Issuance => "Issuance",
        TransactionType::BlockStake => "BlockStake",
        TransactionType::Bound => "Bound",
    }
}

pub type Files = BTreeMap<String, Vec<u8>>;
