//! Seams: in-memory InterfaceIO (with journal + outbox), manual clock, configuration,
//! fixed keys, determinism set-up.  Nothing here touches the repository sources.

use std::collections::BTreeMap;
use std::fmt::{Debug, Formatter};
use std::io::{Error, ErrorKind};
use std::sync::atomic::{AtomicU64, Ordering};
use std::sync::{Arc, Mutex};

use async_trait::async_trait;
use saito_core::core::consensus::peers::peer_service::PeerService;
use saito_core::core::consensus::wallet::Wallet;
use saito_core::core::defs::{
    BlockId, PeerIndex, SaitoHash, SaitoPrivateKey, SaitoPublicKey, Timestamp,
    BLOCK_FILE_EXTENSION,
};
use saito_core::core::io::interface_io::{InterfaceEvent, InterfaceIO};
use saito_core::core::process::keep_time::{KeepTime, Timer};
use saito_core::core::util::configuration::{
    BlockchainConfig, Configuration, ConsensusConfig, Endpoint, PeerConfig, Server,
};
use saito_core::core::util::crypto::generate_keypair_from_private_key;

// ------------------------------------------------------------------------------------------
// determinism
// ------------------------------------------------------------------------------------------

struct ConstSource;
impl ahash::random_state::RandomSource for ConstSource {
    fn gen_hasher_seed(&self) -> usize {
        0x5a17_0000_c0de_usize
    }
}

/// Must be called once at process start, before any AHashMap is created.
pub fn init_determinism() {
    let _ = ahash::random_state::set_random_source(ConstSource);
}

// ------------------------------------------------------------------------------------------
// keys
// ------------------------------------------------------------------------------------------

#[derive(Clone, Copy)]
pub struct Key {
    pub public: SaitoPublicKey,
    pub private: SaitoPrivateKey,
}

/// K0 creator, K1 payer, K2 payee/victim, K3 attacker, K4 router1, K5 router2, K6.. extra
pub fn key(i: u8) -> Key {
    let mut sk = [0u8; 32];
    sk[0] = 0x11;
    sk[15] = 0x5a;
    sk[31] = i + 1;
    let (public, private) = generate_keypair_from_private_key(&sk);
    Key { public, private }
}

pub fn key_name(pk: &SaitoPublicKey) -> String {
    for i in 0..32u8 {
        if &key(i).public == pk {
            return format!("K{}", i);
        }
    }
    format!("pk:{}", hex::encode(&pk[0..6]))
}

// ------------------------------------------------------------------------------------------
// clock
// ------------------------------------------------------------------------------------------

#[derive(Clone, Default)]
pub struct ManualClock(pub Arc<AtomicU64>);
impl ManualClock {
    pub fn new(t: Timestamp) -> Self {
        ManualClock(Arc::new(AtomicU64::new(t)))
    }
    pub fn set(&self, t: Timestamp) {
        self.0.store(t, Ordering::SeqCst)
    }
    pub fn get(&self) -> Timestamp {
        self.0.load(Ordering::SeqCst)
    }
    pub fn advance(&self, d: Timestamp) {
        self.0.fetch_add(d, Ordering::SeqCst);
    }
    pub fn timer(&self) -> Timer {
        Timer {
            time_reader: Arc::new(self.clone()),
            hasten_multiplier: 1,
            start_time: 0,
        }
    }
}
impl KeepTime for ManualClock {
    fn get_timestamp_in_ms(&self) -> Timestamp {
        self.get()
    }
}

// ------------------------------------------------------------------------------------------
// configuration
// ------------------------------------------------------------------------------------------

#[derive(Clone)]
pub struct Cfg {
    pub consensus: ConsensusConfig,
    pub blockchain: BlockchainConfig,
    pub server: Option<Server>,
    pub peers: Vec<PeerConfig>,
    pub spv: bool,
    pub browser: bool,
    pub fetch_url: String,
}
impl Debug for Cfg {
    fn fmt(&self, f: &mut Formatter<'_>) -> std::fmt::Result {
        write!(f, "Cfg(g={})", self.consensus.genesis_period)
    }
}
impl Cfg {
    pub fn new(genesis_period: u64, heartbeat: u64) -> Cfg {
        let mut blockchain = BlockchainConfig::default();
        blockchain.issuance_writing_block_interval = 0;
        blockchain.initial_loading_completed = true;
        Cfg {
            consensus: ConsensusConfig {
                genesis_period,
                heartbeat_interval: heartbeat,
                prune_after_blocks: 8,
                max_staker_recursions: 3,
                default_social_stake: 0,
                default_social_stake_period: 60,
            },
            blockchain,
            server: Some(Server {
                host: "127.0.0.1".into(),
                port: 12101,
                protocol: "http".into(),
                endpoint: Endpoint {
                    host: "127.0.0.1".into(),
                    port: 12101,
                    protocol: "http".into(),
                },
                verification_threads: 1,
                channel_size: 1000,
                stat_timer_in_ms: 5000,
                thread_sleep_time_in_ms: 10,
                block_fetch_batch_size: 2,
                reconnection_wait_time: 10_000,
            }),
            peers: vec![],
            spv: false,
            browser: false,
            fetch_url: "http://127.0.0.1:12101".into(),
        }
    }
}
impl Configuration for Cfg {
    fn get_server_configs(&self) -> Option<&Server> {
        self.server.as_ref()
    }
    fn get_peer_configs(&self) -> &Vec<PeerConfig> {
        &self.peers
    }
    fn get_blockchain_configs(&self) -> &BlockchainConfig {
        &self.blockchain
    }
    fn get_block_fetch_url(&self) -> String {
        self.fetch_url.clone()
    }
    fn is_spv_mode(&self) -> bool {
        self.spv
    }
    fn is_browser(&self) -> bool {
        self.browser
    }
    fn replace(&mut self, _config: &dyn Configuration) {}
    fn get_consensus_config(&self) -> Option<&ConsensusConfig> {
        Some(&self.consensus)
    }
}

// ------------------------------------------------------------------------------------------
// in-memory IO
// ------------------------------------------------------------------------------------------

#[derive(Clone, Debug, PartialEq, Eq)]
pub enum JournalOp {
    Write { key: String, data: Vec<u8> },
    Append { key: String, data: Vec<u8> },
    Remove { key: String },
    SaveWallet { data: Vec<u8> },
}

#[derive(Clone, Debug, PartialEq, Eq)]
pub enum Out {
    Send { peer: u64, buffer: Vec<u8> },
    SendAll { buffer: Vec<u8>, excluded: Vec<u64> },
    Connect { url: String, peer: u64 },
    Disconnect { peer: u64 },
    Fetch { hash: SaitoHash, peer: u64, url: String, block_id: BlockId },
    Event(String),
    ApiCall { peer: u64, index: u32, kind: u8, buffer: Vec<u8> },
}

#[derive(Default, Debug)]
pub struct IoInner {
    pub files: BTreeMap<String, Vec<u8>>,
    pub journal: Vec<JournalOp>,
    pub outbox: Vec<Out>,
    pub journal_enabled: bool,
    pub fail_reads: bool,
}

pub const BLOCK_DIR: &str = "./data/blocks/";
pub const WALLET_FILE: &str = "./data/wallets/wallet";

#[derive(Clone, Debug, Default)]
pub struct MemIO {
    pub inner: Arc<Mutex<IoInner>>,
}

impl MemIO {
    pub fn new() -> MemIO {
        MemIO::default()
    }
    pub fn with_files(files: BTreeMap<String, Vec<u8>>) -> MemIO {
        let io = MemIO::default();
        io.inner.lock().unwrap().files = files;
        io
    }
    pub fn files(&self) -> BTreeMap<String, Vec<u8>> {
        self.inner.lock().unwrap().files.clone()
    }
    pub fn file_index(&self) -> Vec<(String, usize)> {
        self.inner
            .lock()
            .unwrap()
            .files
            .iter()
            .map(|(k, v)| (k.clone(), v.len()))
            .collect()
    }
    pub fn take_outbox(&self) -> Vec<Out> {
        std::mem::take(&mut self.inner.lock().unwrap().outbox)
    }
    /// puts items back in front of whatever was emitted since they were taken
    pub fn put_back_outbox(&self, mut items: Vec<Out>) {
        let mut g = self.inner.lock().unwrap();
        items.append(&mut g.outbox);
        g.outbox = items;
    }
    pub fn outbox_len(&self) -> usize {
        self.inner.lock().unwrap().outbox.len()
    }
    pub fn enable_journal(&self, on: bool) {
        self.inner.lock().unwrap().journal_enabled = on;
    }
    pub fn journal(&self) -> Vec<JournalOp> {
        self.inner.lock().unwrap().journal.clone()
    }
    pub fn get(&self, key: &str) -> Option<Vec<u8>> {
        self.inner.lock().unwrap().files.get(key).cloned()
    }
    pub fn put(&self, key: &str, data: Vec<u8>) {
        self.inner.lock().unwrap().files.insert(key.to_string(), data);
    }
}

#[async_trait]
impl InterfaceIO for MemIO {
    async fn send_message(&self, peer_index: u64, buffer: &[u8]) -> Result<(), Error> {
        self.inner.lock().unwrap().outbox.push(Out::Send {
            peer: peer_index,
            buffer: buffer.to_vec(),
        });
        Ok(())
    }
    async fn send_message_to_all(
        &self,
        buffer: &[u8],
        excluded_peers: Vec<u64>,
    ) -> Result<(), Error> {
        self.inner.lock().unwrap().outbox.push(Out::SendAll {
            buffer: buffer.to_vec(),
            excluded: excluded_peers,
        });
        Ok(())
    }
    async fn connect_to_peer(&mut self, url: String, peer_index: PeerIndex) -> Result<(), Error> {
        self.inner.lock().unwrap().outbox.push(Out::Connect {
            url,
            peer: peer_index,
        });
        Ok(())
    }
    async fn disconnect_from_peer(&self, peer_index: u64) -> Result<(), Error> {
        self.inner
            .lock()
            .unwrap()
            .outbox
            .push(Out::Disconnect { peer: peer_index });
        Ok(())
    }
    async fn fetch_block_from_peer(
        &self,
        block_hash: SaitoHash,
        peer_index: u64,
        url: &str,
        block_id: BlockId,
    ) -> Result<(), Error> {
        self.inner.lock().unwrap().outbox.push(Out::Fetch {
            hash: block_hash,
            peer: peer_index,
            url: url.to_string(),
            block_id,
        });
        Ok(())
    }
    async fn write_value(&self, key: &str, value: &[u8]) -> Result<(), Error> {
        let mut g = self.inner.lock().unwrap();
        if g.journal_enabled {
            g.journal.push(JournalOp::Write {
                key: key.to_string(),
                data: value.to_vec(),
            });
        }
        g.files.insert(key.to_string(), value.to_vec());
        Ok(())
    }
    async fn append_value(&mut self, key: &str, value: &[u8]) -> Result<(), Error> {
        let mut g = self.inner.lock().unwrap();
        if g.journal_enabled {
            g.journal.push(JournalOp::Append {
                key: key.to_string(),
                data: value.to_vec(),
            });
        }
        g.files.entry(key.to_string()).or_default().extend_from_slice(value);
        Ok(())
    }
    async fn flush_data(&mut self, _key: &str) -> Result<(), Error> {
        Ok(())
    }
    async fn read_value(&self, key: &str) -> Result<Vec<u8>, Error> {
        let g = self.inner.lock().unwrap();
        match g.files.get(key) {
            Some(v) => Ok(v.clone()),
            None => Err(Error::from(ErrorKind::NotFound)),
        }
    }
    async fn load_block_file_list(&self) -> Result<Vec<String>, Error> {
        let g = self.inner.lock().unwrap();
        Ok(g
            .files
            .keys()
            .filter(|k| k.starts_with(BLOCK_DIR) && k.contains(BLOCK_FILE_EXTENSION))
            .map(|k| k[BLOCK_DIR.len()..].to_string())
            .collect())
    }
    async fn is_existing_file(&self, key: &str) -> bool {
        self.inner.lock().unwrap().files.contains_key(key)
    }
    async fn remove_value(&self, key: &str) -> Result<(), Error> {
        let mut g = self.inner.lock().unwrap();
        if g.journal_enabled {
            g.journal.push(JournalOp::Remove {
                key: key.to_string(),
            });
        }
        match g.files.remove(key) {
            Some(_) => Ok(()),
            None => Err(Error::from(ErrorKind::NotFound)),
        }
    }
    fn get_block_dir(&self) -> String {
        BLOCK_DIR.to_string()
    }
    fn get_checkpoint_dir(&self) -> String {
        "./data/checkpoints/".to_string()
    }
    fn ensure_block_directory_exists(&self, _block_dir: &str) -> Result<(), Error> {
        Ok(())
    }
    async fn process_api_call(&self, buffer: Vec<u8>, msg_index: u32, peer_index: PeerIndex) {
        self.inner.lock().unwrap().outbox.push(Out::ApiCall {
            peer: peer_index,
            index: msg_index,
            kind: 0,
            buffer,
        });
    }
    async fn process_api_success(&self, buffer: Vec<u8>, msg_index: u32, peer_index: PeerIndex) {
        self.inner.lock().unwrap().outbox.push(Out::ApiCall {
            peer: peer_index,
            index: msg_index,
            kind: 1,
            buffer,
        });
    }
    async fn process_api_error(&self, buffer: Vec<u8>, msg_index: u32, peer_index: PeerIndex) {
        self.inner.lock().unwrap().outbox.push(Out::ApiCall {
            peer: peer_index,
            index: msg_index,
            kind: 2,
            buffer,
        });
    }
    fn send_interface_event(&self, event: InterfaceEvent) {
        let s = match event {
            InterfaceEvent::PeerHandshakeComplete(i) => format!("PeerHandshakeComplete({})", i),
            InterfaceEvent::PeerConnectionDropped(i, _) => format!("PeerConnectionDropped({})", i),
            InterfaceEvent::PeerConnected(i) => format!("PeerConnected({})", i),
            InterfaceEvent::BlockAddSuccess(h, id) => {
                format!("BlockAddSuccess({},{})", hex::encode(&h[0..6]), id)
            }
            InterfaceEvent::WalletUpdate() => "WalletUpdate".to_string(),
            InterfaceEvent::NewVersionDetected(i, _) => format!("NewVersionDetected({})", i),
            InterfaceEvent::StunPeerConnected(i) => format!("StunPeerConnected({})", i),
            InterfaceEvent::StunPeerDisconnected(i, _) => format!("StunPeerDisconnected({})", i),
            InterfaceEvent::BlockFetchStatus(i) => format!("BlockFetchStatus({})", i),
        };
        self.inner.lock().unwrap().outbox.push(Out::Event(s));
    }
    async fn save_wallet(&self, wallet: &mut Wallet) -> Result<(), Error> {
        let data = wallet.serialize_for_disk();
        let mut g = self.inner.lock().unwrap();
        if g.journal_enabled {
            g.journal.push(JournalOp::SaveWallet { data: data.clone() });
        }
        g.files.insert(WALLET_FILE.to_string(), data);
        Ok(())
    }
    async fn load_wallet(&self, wallet: &mut Wallet) -> Result<(), Error> {
        let g = self.inner.lock().unwrap();
        match g.files.get(WALLET_FILE) {
            Some(v) if v.len() >= 65 => {
                wallet.deserialize_from_disk(v);
                Ok(())
            }
            _ => Err(Error::from(ErrorKind::NotFound)),
        }
    }
    fn get_my_services(&self) -> Vec<PeerService> {
        vec![]
    }
}
