//! Small-scope value corpus for the codecs (C09, C10): every format, pairwise distinct
//! non-zero field values, boundary counts.

use saito_core::core::consensus::block::{Block, BlockType};
use saito_core::core::consensus::hop::Hop;
use saito_core::core::consensus::peers::peer_service::PeerService;
use saito_core::core::consensus::slip::{Slip, SlipType};
use saito_core::core::consensus::transaction::{Transaction, TransactionType};
use saito_core::core::msg::api_message::ApiMessage;
use saito_core::core::msg::ghost_chain_sync::GhostChainSync;
use saito_core::core::msg::handshake::{HandshakeChallenge, HandshakeResponse};
use saito_core::core::msg::message::Message;
use saito_core::core::process::version::Version;

pub fn bytes_n<const N: usize>(seed: u8) -> [u8; N] {
    let mut a = [0u8; N];
    for (i, b) in a.iter_mut().enumerate() {
        *b = seed.wrapping_mul(31).wrapping_add(i as u8).wrapping_add(1) | 1;
    }
    a
}

pub const SLIP_TYPES: [SlipType; 10] = [
    SlipType::Normal,
    SlipType::ATR,
    SlipType::VipInput,
    SlipType::VipOutput,
    SlipType::MinerInput,
    SlipType::MinerOutput,
    SlipType::RouterInput,
    SlipType::RouterOutput,
    SlipType::BlockStake,
    SlipType::Bound,
];

pub const TX_TYPES: [TransactionType; 9] = [
    TransactionType::Normal,
    TransactionType::Fee,
    TransactionType::GoldenTicket,
    TransactionType::ATR,
    TransactionType::Vip,
    TransactionType::SPV,
    TransactionType::Issuance,
    TransactionType::BlockStake,
    TransactionType::Bound,
];

pub fn slip(seed: u8, ty: SlipType, amount: u64) -> Slip {
    Slip {
        public_key: bytes_n::<33>(seed),
        amount,
        slip_index: seed.wrapping_mul(3).wrapping_add(5),
        block_id: 0x0102030405060708u64.wrapping_add(seed as u64),
        tx_ordinal: 0x1112131415161718u64.wrapping_add(seed as u64 * 7),
        slip_type: ty,
        ..Default::default()
    }
}

pub fn slips() -> Vec<Slip> {
    let mut v = vec![];
    for (i, ty) in SLIP_TYPES.iter().enumerate() {
        for (j, amt) in [1u64, 0x8000_0000_0000_0000, u64::MAX, 0x0a0b0c0d0e0f1011].iter().enumerate() {
            v.push(slip((i * 4 + j) as u8 + 1, *ty, *amt));
        }
    }
    v
}

pub fn hop(seed: u8) -> Hop {
    Hop {
        from: bytes_n::<33>(seed),
        to: bytes_n::<33>(seed.wrapping_add(100)),
        sig: bytes_n::<64>(seed.wrapping_add(50)),
    }
}

pub fn tx(ty: TransactionType, nin: usize, nout: usize, payload: usize, hops: usize, repl: u32, seed: u8) -> Transaction {
    let mut t = Transaction::default();
    t.timestamp = 0x2122232425262728u64.wrapping_add(seed as u64);
    t.transaction_type = ty;
    t.txs_replacements = repl;
    t.signature = bytes_n::<64>(seed.wrapping_add(9));
    for i in 0..nin {
        t.from.push(slip((i as u8).wrapping_add(seed), SLIP_TYPES[i % 10], 1000 + i as u64));
    }
    for i in 0..nout {
        t.to.push(slip((i as u8).wrapping_add(seed).wrapping_add(77), SLIP_TYPES[(i + 3) % 10], 5000 + i as u64));
    }
    t.data = (0..payload).map(|i| (i as u8).wrapping_mul(7).wrapping_add(seed)).collect();
    for i in 0..hops {
        t.path.push(hop(seed.wrapping_add(i as u8 * 3)));
    }
    t
}

pub fn txs(thorough: bool) -> Vec<Transaction> {
    let mut v = vec![];
    let counts: Vec<usize> = if thorough { vec![0, 1, 2, 254, 255] } else { vec![0, 1, 2, 255] };
    let payloads: Vec<usize> = if thorough { vec![0, 1, 97, 1000, 70000] } else { vec![0, 1, 97, 1000] };
    let mut seed = 1u8;
    for ty in TX_TYPES.iter() {
        for &nin in counts.iter() {
            for &nout in counts.iter() {
                // keep the product small: big counts only against small ones
                if nin > 2 && nout > 2 && !(nin == 255 && nout == 255 && *ty == TransactionType::Normal) {
                    continue;
                }
                for &p in payloads.iter() {
                    if (nin > 2 || nout > 2) && p > 97 {
                        continue;
                    }
                    for hops in 0..=3usize {
                        if hops > 1 && (nin > 2 || nout > 2 || p > 97) {
                            continue;
                        }
                        for repl in [1u32, 0x01020304] {
                            if repl != 1 && hops != 1 {
                                continue;
                            }
                            v.push(tx(*ty, nin, nout, p, hops, repl, seed));
                            seed = seed.wrapping_add(1);
                        }
                    }
                }
            }
        }
    }
    v
}

pub fn header_block(seed: u64, ntx: usize) -> Block {
    let mut b = Block::new();
    let mut c = 0x3000_0000_0000_0000u64 + seed * 1000;
    let mut next = || {
        c += 0x0101;
        c
    };
    b.id = next();
    b.timestamp = next();
    b.previous_block_hash = bytes_n::<32>(seed as u8 + 1);
    b.creator = bytes_n::<33>(seed as u8 + 2);
    b.merkle_root = bytes_n::<32>(seed as u8 + 3);
    b.signature = bytes_n::<64>(seed as u8 + 4);
    b.graveyard = next();
    b.treasury = next();
    b.burnfee = next();
    b.difficulty = next();
    b.avg_total_fees = next();
    b.avg_fee_per_byte = next();
    b.avg_nolan_rebroadcast_per_block = next();
    b.previous_block_unpaid = next();
    b.avg_total_fees_new = next();
    b.avg_total_fees_atr = next();
    b.avg_payout_routing = next();
    b.avg_payout_mining = next();
    b.avg_payout_treasury = next();
    b.avg_payout_graveyard = next();
    b.avg_payout_atr = next();
    b.total_payout_routing = next();
    b.total_payout_mining = next();
    b.total_payout_treasury = next();
    b.total_payout_graveyard = next();
    b.total_payout_atr = next();
    b.total_fees = next();
    b.total_fees_new = next();
    b.total_fees_atr = next();
    b.fee_per_byte = next();
    b.total_fees_cumulative = next();
    for i in 0..ntx {
        b.transactions.push(tx(TX_TYPES[i % 9], 1 + i % 2, 1 + i % 3, 5 * i, i % 3, 1, (seed as u8).wrapping_add(i as u8 * 11)));
    }
    b
}

/// (field name, value) list of every serialized header field, for equality and diagnostics
pub fn header_fields(b: &Block) -> Vec<(&'static str, String)> {
    vec![
        ("id", b.id.to_string()),
        ("timestamp", b.timestamp.to_string()),
        ("previous_block_hash", hex::encode(b.previous_block_hash)),
        ("creator", hex::encode(b.creator)),
        ("merkle_root", hex::encode(b.merkle_root)),
        ("signature", hex::encode(b.signature)),
        ("graveyard", b.graveyard.to_string()),
        ("treasury", b.treasury.to_string()),
        ("burnfee", b.burnfee.to_string()),
        ("difficulty", b.difficulty.to_string()),
        ("avg_total_fees", b.avg_total_fees.to_string()),
        ("avg_fee_per_byte", b.avg_fee_per_byte.to_string()),
        ("avg_nolan_rebroadcast_per_block", b.avg_nolan_rebroadcast_per_block.to_string()),
        ("previous_block_unpaid", b.previous_block_unpaid.to_string()),
        ("avg_total_fees_new", b.avg_total_fees_new.to_string()),
        ("avg_total_fees_atr", b.avg_total_fees_atr.to_string()),
        ("avg_payout_routing", b.avg_payout_routing.to_string()),
        ("avg_payout_mining", b.avg_payout_mining.to_string()),
        ("avg_payout_treasury", b.avg_payout_treasury.to_string()),
        ("avg_payout_graveyard", b.avg_payout_graveyard.to_string()),
        ("avg_payout_atr", b.avg_payout_atr.to_string()),
        ("total_payout_routing", b.total_payout_routing.to_string()),
        ("total_payout_mining", b.total_payout_mining.to_string()),
        ("total_payout_treasury", b.total_payout_treasury.to_string()),
        ("total_payout_graveyard", b.total_payout_graveyard.to_string()),
        ("total_payout_atr", b.total_payout_atr.to_string()),
        ("total_fees", b.total_fees.to_string()),
        ("total_fees_new", b.total_fees_new.to_string()),
        ("total_fees_atr", b.total_fees_atr.to_string()),
        ("fee_per_byte", b.fee_per_byte.to_string()),
        ("total_fees_cumulative", b.total_fees_cumulative.to_string()),
    ]
}

pub fn services(n: usize) -> Vec<PeerService> {
    (0..n)
        .map(|i| PeerService { service: format!("svc{}", i), domain: format!("dom{}.example", i), name: format!("name{}", i) })
        .collect()
}

pub fn handshake_responses() -> Vec<HandshakeResponse> {
    let mut v = vec![];
    for (i, url) in ["".to_string(), "u".to_string(), "http://".to_string() + &"x".repeat(293)].iter().enumerate() {
        for ns in 0..3usize {
            v.push(HandshakeResponse {
                public_key: bytes_n::<33>(i as u8 + 1),
                signature: bytes_n::<64>(i as u8 + 40),
                is_lite: ns % 2 == 1,
                block_fetch_url: url.clone(),
                challenge: bytes_n::<32>(i as u8 + 80),
                services: services(ns),
                wallet_version: Version::new(1 + i as u8, 2, 0x0304),
                core_version: Version::new(9, 8 + ns as u8, 0x0706),
            });
        }
    }
    v
}

pub fn ghost_chain(n: usize) -> GhostChainSync {
    GhostChainSync {
        start: bytes_n::<32>(3),
        prehashes: (0..n).map(|i| bytes_n::<32>(10 + i as u8)).collect(),
        previous_block_hashes: (0..n).map(|i| bytes_n::<32>(60 + i as u8)).collect(),
        block_ids: (0..n).map(|i| 0x4142434445464748 + i as u64).collect(),
        block_ts: (0..n).map(|i| 0x5152535455565758 + i as u64).collect(),
        txs: (0..n).map(|i| i % 2 == 0).collect(),
        gts: (0..n).map(|i| i % 3 == 0).collect(),
    }
}

/// every message tag with representative payloads
pub fn messages() -> Vec<Message> {
    let mut v = vec![];
    v.push(Message::HandshakeChallenge(HandshakeChallenge { challenge: bytes_n::<32>(7) }));
    for r in handshake_responses() {
        v.push(Message::HandshakeResponse(r));
    }
    for n in 0..3 {
        v.push(Message::Block(header_block(n as u64 + 1, n)));
    }
    for t in [tx(TransactionType::Normal, 1, 2, 10, 1, 1, 5), tx(TransactionType::GoldenTicket, 1, 1, 97, 0, 1, 6), tx(TransactionType::Normal, 0, 0, 0, 0, 1, 7)] {
        v.push(Message::Transaction(t));
    }
    v.push(Message::BlockHeaderHash(bytes_n::<32>(21), 0x6162636465666768));
    v.push(Message::Ping());
    v.push(Message::SPVChain());
    for n in 0..3 {
        v.push(Message::Services(services(n)));
    }
    for n in 0..4 {
        v.push(Message::GhostChain(ghost_chain(n)));
    }
    v.push(Message::GhostChainRequest(0x7172737475767778, bytes_n::<32>(22), bytes_n::<32>(23)));
    for d in [vec![], vec![1u8], (0..300).map(|i| i as u8).collect::<Vec<u8>>()] {
        v.push(Message::ApplicationMessage(ApiMessage { msg_index: 0x81828384, data: d.clone() }));
        v.push(Message::Result(ApiMessage { msg_index: 0x91929394, data: d.clone() }));
        v.push(Message::Error(ApiMessage { msg_index: 0xa1a2a3a4, data: d }));
    }
    for n in 0..3 {
        v.push(Message::KeyListUpdate((0..n).map(|i| bytes_n::<33>(i as u8 + 30)).collect()));
    }
    // BlockchainRequest has crate-private fields: obtain it through its own decoder
    let mut raw = vec![5u8];
    raw.extend_from_slice(&0x0102030405060708u64.to_be_bytes());
    raw.extend_from_slice(&bytes_n::<32>(24));
    raw.extend_from_slice(&bytes_n::<32>(25));
    if let Ok(m) = Message::deserialize(raw) {
        v.push(m);
    }
    v
}

pub fn normalize_tx(t: &Transaction) -> Transaction {
    let mut x = t.clone();
    x.hash_for_signature = None;
    x.total_in = 0;
    x.total_out = 0;
    x.total_fees = 0;
    x.total_work_for_me = 0;
    x.cumulative_fees = 0;
    for s in x.from.iter_mut().chain(x.to.iter_mut()) {
        s.utxoset_key = [0; 59];
        s.is_utxoset_key_set = false;
    }
    x
}

pub fn block_type_name(t: BlockType) -> &'static str {
    match t {
        BlockType::Ghost => "Ghost",
        BlockType::Header => "Header",
        BlockType::Pruned => "Pruned",
        BlockType::Full => "Full",
    }
}
