use rig::report::Tier;

#[global_allocator]
static ALLOC: rig::alloc::Counting = rig::alloc::Counting;

struct StderrLog;
impl log::Log for StderrLog {
    fn enabled(&self, m: &log::Metadata) -> bool {
        m.level() <= log::max_level()
    }
    fn log(&self, r: &log::Record) {
        if self.enabled(r.metadata()) {
            eprintln!("[{}] {}", r.level(), r.args());
        }
    }
    fn flush(&self) {}
}
static LOGGER: StderrLog = StderrLog;

fn main() {
    if let Ok(l) = std::env::var("VERIF_LOG") {
        let _ = log::set_logger(&LOGGER);
        log::set_max_level(match l.as_str() {
            "debug" => log::LevelFilter::Debug,
            "info" => log::LevelFilter::Info,
            "warn" => log::LevelFilter::Warn,
            _ => log::LevelFilter::Error,
        });
    }
    rig::seams::init_determinism();
    rig::exec::install_panic_hook();
    let args: Vec<String> = std::env::args().collect();
    if args.len() < 2 {
        eprintln!("usage: vrig <property> [--tier quick|thorough] [--replay file]");
        std::process::exit(2);
    }
    let prop = args[1].clone();
    let mut thorough = std::env::var("VERIF_TIER").map(|t| t == "thorough").unwrap_or(false);
    let mut replay: Option<String> = None;
    let mut i = 2;
    while i < args.len() {
        match args[i].as_str() {
            "--tier" => {
                thorough = args.get(i + 1).map(|s| s == "thorough").unwrap_or(false);
                i += 1;
            }
            "--replay" => {
                replay = args.get(i + 1).cloned();
                i += 1;
            }
            _ => {}
        }
        i += 1;
    }
    let seed = std::env::var("VERIF_SEED").ok().and_then(|s| s.parse().ok()).unwrap_or(0u64);
    let tier = Tier { thorough, seed };
    // engine-level caps: a run that does not finish, or eats the machine, is a machinery exit (2),
    // never a verdict. (Non-termination of the subject itself is caught inside the explorers by
    // the step budget and reported as a violation long before this fires.)
    {
        let wall_cap = std::env::var("VERIF_WALL_CAP_S").ok().and_then(|s| s.parse().ok()).unwrap_or(if thorough { 5400u64 } else { 900u64 });
        let rss_cap_kb = std::env::var("VERIF_RSS_CAP_KB").ok().and_then(|s| s.parse().ok()).unwrap_or(40_000_000u64);
        let name = prop.clone();
        std::thread::spawn(move || {
            let start = std::time::Instant::now();
            loop {
                std::thread::sleep(std::time::Duration::from_secs(2));
                if start.elapsed().as_secs() > wall_cap {
                    eprintln!("MACHINERY-ERROR: {} exceeded its wall-clock cap of {} s; no verdict", name, wall_cap);
                    std::process::exit(2);
                }
                if let Ok(st) = std::fs::read_to_string("/proc/self/statm") {
                    let pages: u64 = st.split_whitespace().nth(1).and_then(|x| x.parse().ok()).unwrap_or(0);
                    if pages * 4 > rss_cap_kb {
                        eprintln!("MACHINERY-ERROR: {} exceeded its memory cap of {} KB; no verdict", name, rss_cap_kb);
                        std::process::exit(2);
                    }
                }
            }
        });
    }
    let code = match prop.as_str() {
        "C01" => rig::props::c01::main(tier, replay),
        "C02" => rig::props::c02::main(tier, replay),
        "C03" => rig::props::c03::main(tier, replay),
        "C04" => rig::props::c04::main(tier, replay),
        "C05" => rig::props::c05::main(tier, replay),
        "C06" => rig::props::c06::main(tier, replay),
        "C07" => rig::props::c07::main(tier, replay),
        "debug-rich" => rig::props::c07::debug_rich(),
        "C09" => rig::props::c09::main(tier, replay),
        "C10" => rig::props::c10::main(tier, replay),
        "C18" => rig::props::c18::main(tier, replay),
        "C11" => rig::props::c11::main(tier, replay),
        "C12" => rig::props::c12::main(tier, replay),
        "C13" => rig::props::c13::main(tier, replay),
        "C14" => rig::props::c14::main(tier, replay),
        "C19" => rig::props::c19::main(tier, replay),
        "C20" => rig::props::c20::main(tier, replay),
        "C08" => rig::props::c08::main(tier, replay),
        "C15" => rig::props::c15::main(tier, replay),
        "C16" => rig::props::c16::main(tier, replay),
        "C17" => rig::props::c17::main(tier, replay),
        "selftest" => rig::props::c03::selftest(),
        _ => {
            eprintln!("unknown property {}", prop);
            2
        }
    };
    std::process::exit(code);
}
