//! Helpers for driving a FullNode from scripted peers: connection, handshake, messages.

use saito_core::core::defs::SaitoHash;
use saito_core::core::io::network_event::NetworkEvent;
use saito_core::core::msg::handshake::{HandshakeChallenge, HandshakeResponse};
use saito_core::core::msg::message::Message;
use saito_core::core::process::version::{read_pkg_version, Version};
use saito_core::core::util::crypto::sign;

use crate::exec::Outcome;
use crate::fullnode::FullNode;
use crate::seams::{Key, Out};

pub fn incoming(peer: u64, m: &Message) -> NetworkEvent {
    NetworkEvent::IncomingNetworkMessage { peer_index: peer, buffer: m.serialize() }
}

pub fn incoming_raw(peer: u64, b: Vec<u8>) -> NetworkEvent {
    NetworkEvent::IncomingNetworkMessage { peer_index: peer, buffer: b }
}

pub fn core_version() -> Version {
    read_pkg_version()
}

/// messages the node sent to `peer` since the outbox was last taken, decoded
pub fn sent_to(out: &[Out], peer: u64) -> Vec<Message> {
    out.iter()
        .filter_map(|o| match o {
            Out::Send { peer: p, buffer } if *p == peer => Message::deserialize(buffer.clone()).ok(),
            _ => None,
        })
        .collect()
}

pub fn response(key: &Key, challenge_to_sign: &SaitoHash, my_challenge: SaitoHash, url: &str) -> HandshakeResponse {
    HandshakeResponse {
        public_key: key.public,
        signature: sign(challenge_to_sign, &key.private),
        is_lite: false,
        block_fetch_url: url.to_string(),
        challenge: my_challenge,
        services: vec![],
        wallet_version: Version::new(0, 0, 0),
        core_version: core_version(),
    }
}

/// incoming connection `peer` (the node is the acceptor and issues the challenge); the scripted
/// client answers with `key`.  Returns the challenge the node issued.
pub fn connect_and_handshake(n: &mut FullNode, peer: u64, key: &Key, url: &str) -> Result<SaitoHash, String> {
    n.io.take_outbox();
    match n.net(NetworkEvent::PeerConnectionResult { result: Ok((peer, None)) }) {
        Outcome::Done(()) => {}
        o => return Err(format!("connect: {}", o.label())),
    }
    let out = n.io.take_outbox();
    let ch = sent_to(&out, peer).into_iter().find_map(|m| match m {
        Message::HandshakeChallenge(HandshakeChallenge { challenge }) => Some(challenge),
        _ => None,
    });
    let Some(ch) = ch else { return Err("no challenge issued".into()) };
    let r = response(key, &ch, [9; 32], url);
    match n.net(incoming(peer, &Message::HandshakeResponse(r))) {
        Outcome::Done(()) => {}
        o => return Err(format!("response: {}", o.label())),
    }
    let st = n.peer_table().into_iter().find(|p| p.0 == peer).map(|p| p.1);
    if st.as_deref() != Some("Connected") {
        return Err(format!("peer {} not connected after handshake: {:?}", peer, st));
    }
    n.io.take_outbox();
    Ok(ch)
}
