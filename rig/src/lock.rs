//! The lock type the repository's shared objects use.  With hook H1 (cfg saito_verif) this is the
//! recording shim exported by saito-core; without it, tokio's.
pub use tokio::sync::RwLock;
