//! The lock type the repository's shared objects use: with hook H1 (cfg saito_verif, which the rig
//! always builds with) this is the recording shim exported by saito-core.
pub use saito_core::core::verif_lock::RwLock;
