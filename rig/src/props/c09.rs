//! C09 — wire and disk formats round-trip and preserve identity (small-scope exhaustive).

use saito_core::core::consensus::block::{Block, BlockType};
use saito_core::core::consensus::hop::Hop;
use saito_core::core::consensus::peers::peer_service::PeerService;
use saito_core::core::consensus::slip::Slip;
use saito_core::core::consensus::transaction::Transaction;
use saito_core::core::consensus::wallet::Wallet;
use saito_core::core::msg::ghost_chain_sync::GhostChainSync;
use saito_core::core::msg::handshake::HandshakeResponse;
use saito_core::core::msg::message::Message;
use saito_core::core::process::version::Version;
use saito_core::core::util::balance_snapshot::BalanceSnapshot;
use saito_core::core::util::serialize::Serialize;
use serde_json::json;

use crate::corpus::*;
use crate::exec::{catch, run, Outcome};
use crate::node::*;
use crate::report::{Report, Tier};
use crate::seams::key;

fn slip_eq(a: &Slip, b: &Slip) -> bool {
    a.public_key == b.public_key && a.amount == b.amount && a.slip_index == b.slip_index && a.block_id == b.block_id && a.tx_ordinal == b.tx_ordinal && a.slip_type == b.slip_type
}

fn bad(rep: &mut Report, fmt: &str, what: &str, detail: String) {
    rep.violate(&format!("roundtrip/{}/{}", fmt, what), detail.clone(), json!({"format": fmt, "what": what, "detail": detail}));
}

pub fn main(tier: Tier, _replay: Option<String>) -> i32 {
    let mut rep = Report::new("C09", tier.clone(), "exploration");
    rep.rule = "every value of the small-scope corpus (all enum variants, boundary counts 0/1/2/254/255, payload sizes, 0..3 hops, pairwise distinct non-zero fields): decode(encode v) = v, predicted size = real size, encode(decode b) = b; blocks/transactions from real chains keep hash, signature validity and acceptance verdict across wire and disk; distinct = distinct encodings checked".into();
    // slips
    for s in slips() {
        rep.evaluations += 1;
        let b = s.serialize_for_net();
        rep.distinct.insert(hex::encode(&b));
        match Slip::deserialize_from_net(&b) {
            Ok(d) => {
                if !slip_eq(&s, &d) {
                    bad(&mut rep, "slip", "decode(encode)", format!("{:?} -> {:?}", s, d));
                }
                if d.serialize_for_net() != b {
                    bad(&mut rep, "slip", "encode(decode)", format!("{:?}", s));
                }
                let mut k = s.clone();
                k.generate_utxoset_key();
                match Slip::parse_slip_from_utxokey(&k.utxoset_key) {
                    Ok(p) if slip_eq(&p, &s) => {}
                    o => bad(&mut rep, "slip", "utxokey", format!("{:?} -> {:?}", s, o.map(|x| x.amount))),
                }
            }
            Err(e) => bad(&mut rep, "slip", "decode-error", format!("{:?}: {:?}", s, e)),
        }
    }
    rep.outcome_n("slips", slips().len() as u64);
    // hops
    for i in 0..8u8 {
        rep.evaluations += 1;
        let h = hop(i * 17 + 1);
        let b = h.serialize_for_net();
        rep.distinct.insert(hex::encode(&b));
        match Hop::deserialize_from_net(&b) {
            Ok(d) => {
                if d != h || d.serialize_for_net() != b {
                    bad(&mut rep, "hop", "roundtrip", format!("{:?}", h));
                }
            }
            Err(e) => bad(&mut rep, "hop", "decode-error", format!("{:?}", e)),
        }
    }
    // transactions
    let tl = txs(tier.thorough);
    for t in tl.iter() {
        rep.evaluations += 1;
        let b = t.serialize_for_net();
        rep.distinct.insert(hex::encode(saito_core::core::util::crypto::hash(&b)));
        let cls = format!("{}-in{}-out{}-p{}-h{}", tx_type_name(t.transaction_type), t.from.len(), t.to.len(), t.data.len(), t.path.len());
        if t.get_serialized_size() != b.len() {
            bad(&mut rep, "transaction", "predicted-size", format!("{}: predicted {} real {}", cls, t.get_serialized_size(), b.len()));
        }
        match catch(|| Transaction::deserialize_from_net(&b)) {
            Ok(Ok(d)) => {
                if normalize_tx(&d) != normalize_tx(t) {
                    bad(&mut rep, "transaction", "decode(encode)", cls.clone());
                }
                if d.serialize_for_net() != b {
                    bad(&mut rep, "transaction", "encode(decode)", cls.clone());
                }
                let mut a = t.clone();
                let mut c = d.clone();
                a.generate_hash_for_signature();
                c.generate_hash_for_signature();
                if a.hash_for_signature != c.hash_for_signature {
                    bad(&mut rep, "transaction", "hash-changed", cls.clone());
                }
            }
            Ok(Err(e)) => bad(&mut rep, "transaction", "decode-error", format!("{}: {:?}", cls, e)),
            Err(p) => bad(&mut rep, "transaction", "decode-panic", format!("{}: {}", cls, p)),
        }
    }
    rep.outcome_n("transactions", tl.len() as u64);
    // blocks: synthetic headers with distinct fields
    for n in 0..4usize {
        for ty in [BlockType::Full, BlockType::Header] {
            rep.evaluations += 1;
            let blk = header_block(n as u64 + 1, n);
            let b = blk.serialize_for_net(ty);
            rep.distinct.insert(hex::encode(saito_core::core::util::crypto::hash(&b)));
            let cls = format!("{}-{}tx", block_type_name(ty), n);
            match catch(|| Block::deserialize_from_net(&b)) {
                Ok(Ok(d)) => {
                    let fa = header_fields(&blk);
                    let fb = header_fields(&d);
                    let diff: Vec<_> = fa.iter().zip(fb.iter()).filter(|(x, y)| x != y).map(|(x, y)| format!("{}: {} -> {}", x.0, x.1, y.1)).collect();
                    if !diff.is_empty() {
                        bad(&mut rep, "block", "header-field", format!("{}: {:?}", cls, diff));
                    }
                    let want_tx = if ty == BlockType::Full { n } else { 0 };
                    if d.transactions.len() != want_tx {
                        bad(&mut rep, "block", "tx-count", format!("{}: {} vs {}", cls, d.transactions.len(), want_tx));
                    }
                    if ty == BlockType::Full {
                        for (x, y) in blk.transactions.iter().zip(d.transactions.iter()) {
                            if normalize_tx(x) != normalize_tx(y) {
                                bad(&mut rep, "block", "transaction", cls.clone());
                            }
                        }
                        if d.serialize_for_net(BlockType::Full) != b {
                            bad(&mut rep, "block", "encode(decode)", cls.clone());
                        }
                    } else if d.serialize_for_net(BlockType::Header) != b {
                        bad(&mut rep, "block", "encode(decode)-header", cls.clone());
                    }
                    let mut x = blk.clone();
                    let mut y = d.clone();
                    if ty == BlockType::Full {
                        let _ = x.generate();
                        let _ = y.generate();
                        if x.hash != y.hash {
                            bad(&mut rep, "block", "hash-changed", cls.clone());
                        }
                    }
                }
                Ok(Err(e)) => bad(&mut rep, "block", "decode-error", format!("{}: {:?}", cls, e)),
                Err(p) => bad(&mut rep, "block", "decode-panic", format!("{}: {}", cls, p)),
            }
        }
    }
    // messages, every tag
    let ms = messages();
    let mut tags = std::collections::BTreeSet::new();
    for m in ms.iter() {
        rep.evaluations += 1;
        let b = m.serialize();
        tags.insert(m.get_type_value());
        rep.distinct.insert(hex::encode(saito_core::core::util::crypto::hash(&b)));
        let cls = format!("tag{}", m.get_type_value());
        match catch(|| Message::deserialize(b.clone())) {
            Ok(Ok(d)) => {
                if d.get_type_value() != m.get_type_value() {
                    bad(&mut rep, "message", "tag", format!("{} -> {}", cls, d.get_type_value()));
                }
                if d.serialize() != b {
                    bad(&mut rep, "message", "encode(decode)", cls.clone());
                }
                // field-level equality where the type exposes it
                match (m, &d) {
                    (Message::Block(_), Message::Block(_)) | (Message::Transaction(_), Message::Transaction(_)) => {}
                    _ => {
                        if format!("{:?}", m) != format!("{:?}", d) {
                            bad(&mut rep, "message", "decode(encode)", format!("{}: {:?} vs {:?}", cls, m, d));
                        }
                    }
                }
            }
            Ok(Err(e)) => bad(&mut rep, "message", "decode-error", format!("{}: {:?}", cls, e)),
            Err(p) => bad(&mut rep, "message", "decode-panic", format!("{}: {}", cls, p)),
        }
    }
    if tags.len() != 15 {
        rep.machinery(format!("message corpus covers {} of 15 tags", tags.len()));
    }
    rep.outcome_n("messages", ms.len() as u64);
    // handshake response, ghost chain, services, version (direct codecs)
    for r in handshake_responses() {
        rep.evaluations += 1;
        let b = r.serialize();
        match HandshakeResponse::deserialize(&b) {
            Ok(d) => {
                if format!("{:?}", d) != format!("{:?}", r) || d.serialize() != b {
                    bad(&mut rep, "handshake-response", "roundtrip", format!("url {} services {}", r.block_fetch_url.len(), r.services.len()));
                }
            }
            Err(e) => bad(&mut rep, "handshake-response", "decode-error", format!("{:?}", e)),
        }
    }
    for n in 0..4 {
        rep.evaluations += 1;
        let g = ghost_chain(n);
        let b = g.serialize();
        match catch(|| GhostChainSync::deserialize(b.clone())) {
            Ok(d) => {
                if format!("{:?}", d) != format!("{:?}", g) || d.serialize() != b {
                    bad(&mut rep, "ghost-chain", "roundtrip", format!("{} entries", n));
                }
            }
            Err(p) => bad(&mut rep, "ghost-chain", "decode-panic", p),
        }
    }
    for n in 0..4 {
        rep.evaluations += 1;
        let s = services(n);
        let b = PeerService::serialize_services(&s);
        match PeerService::deserialize_services(b.clone()) {
            Ok(d) => {
                if format!("{:?}", d) != format!("{:?}", s) || PeerService::serialize_services(&d) != b {
                    bad(&mut rep, "services", "roundtrip", format!("{}", n));
                }
            }
            Err(e) => bad(&mut rep, "services", "decode-error", format!("{:?}", e)),
        }
    }
    for v in [Version::new(1, 2, 0x0304), Version::new(255, 0, 65535), Version::new(0, 0, 0)] {
        rep.evaluations += 1;
        let b = v.serialize();
        match Version::deserialize(&b) {
            Ok(d) if d == v && d.serialize() == b => {}
            o => bad(&mut rep, "version", "roundtrip", format!("{:?} -> {:?}", v, o)),
        }
    }
    // balance snapshot rows
    {
        rep.evaluations += 1;
        let snap = BalanceSnapshot { latest_block_id: 77, latest_block_hash: bytes_n::<32>(9), timestamp: 123456789, slips: slips().into_iter().filter(|s| s.slip_type == saito_core::core::consensus::slip::SlipType::Normal).collect() };
        let (name, rows) = snap.get_data();
        match BalanceSnapshot::new(name.clone(), rows.clone()) {
            Ok(d) => {
                let (n2, r2) = d.get_data();
                if n2 != name || r2 != rows || d.slips.iter().zip(snap.slips.iter()).any(|(a, b)| !slip_eq(a, b)) {
                    bad(&mut rep, "balance-snapshot", "roundtrip", name);
                }
            }
            Err(e) => bad(&mut rep, "balance-snapshot", "decode-error", e),
        }
        let text = snap.to_string();
        match BalanceSnapshot::try_from(text.clone()) {
            Ok(d) => {
                if d.to_string() != text {
                    bad(&mut rep, "balance-snapshot", "text-roundtrip", "display/try_from".into());
                }
            }
            Err(e) => bad(&mut rep, "balance-snapshot", "text-decode-error", e),
        }
    }
    // wallet disk record
    {
        rep.evaluations += 1;
        let w = Wallet::new(key(3).private, key(3).public);
        let b = w.serialize_for_disk();
        let mut w2 = Wallet::new(key(4).private, key(4).public);
        w2.deserialize_from_disk(&b);
        if w2.private_key != w.private_key || w2.public_key != w.public_key || w2.serialize_for_disk() != b {
            bad(&mut rep, "wallet", "roundtrip", "keys".into());
        }
    }
    // real chain: blocks keep hash / signature validity / verdict across wire and disk
    {
        let w = match super::c01::positions(&tier) {
            Ok(p) => match p.into_iter().find(|x| x.name == "wrapped-g3-fees") {
                Some(x) => x.w,
                None => {
                    rep.machinery("chain corpus: position wrapped-g3-fees missing".into());
                    return rep.finish();
                }
            },
            Err(e) => {
                rep.machinery(format!("chain corpus: {}", e));
                return rep.finish();
            }
        };
        let n = w.blocks.len();
        let mut node = LedgerNode::new(key(9), w.cfg.clone());
        for (i, bi) in w.blocks.iter().enumerate().take(n) {
            rep.evaluations += 1;
            let d = decode_block(&bi.bytes);
            let re = block_bytes(&d);
            if re != bi.bytes {
                bad(&mut rep, "chain-block", "encode(decode)", bi.label.clone());
            }
            if d.hash != bi.hash {
                bad(&mut rep, "chain-block", "hash", bi.label.clone());
            }
            // the lite forms a full node serves to light clients (every transaction replaced by a
            // placeholder; only K1's / only K2's kept): the lite encoding decodes to a block with
            // the same pre-hash, hash and a signature that still verifies, and re-encodes to the
            // same bytes
            for (kn, kl) in [("none", vec![]), ("K1", vec![key(1).public]), ("K2", vec![key(2).public])] {
                rep.evaluations += 1;
                let mut full = decode_block(&bi.bytes);
                let _ = full.generate();
                let lite = full.generate_lite_block(kl);
                let lb = block_bytes(&lite);
                match Block::deserialize_from_net(&lb) {
                    Ok(mut back) => {
                        let _ = back.generate();
                        if back.hash != bi.hash || back.pre_hash != full.pre_hash {
                            bad(&mut rep, "lite-block", "hash-after-wire", format!("{} keys {}", bi.label, kn));
                        }
                        if !saito_core::core::util::crypto::verify_signature(&back.pre_hash, &back.signature, &back.creator) {
                            bad(&mut rep, "lite-block", "signature-after-wire", format!("{} keys {}", bi.label, kn));
                        }
                        if block_bytes(&back) != lb {
                            bad(&mut rep, "lite-block", "encode(decode)", format!("{} keys {}", bi.label, kn));
                        }
                        // every entry of the lite block (kept transaction or placeholder) keeps its
                        // hash across the wire: the receiver rebuilds the commitment from these
                        let ha: Vec<_> = lite.transactions.iter().map(|t| (t.transaction_type, t.txs_replacements, t.hash_for_signature)).collect();
                        let hb: Vec<_> = back.transactions.iter().map(|t| (t.transaction_type, t.txs_replacements, t.hash_for_signature)).collect();
                        if ha != hb {
                            bad(&mut rep, "lite-block", "entry-hashes-after-wire", format!("{} keys {}", bi.label, kn));
                        }
                    }
                    Err(e) => bad(&mut rep, "lite-block", "decode(encode)", format!("{} keys {}: {:?}", bi.label, kn, e)),
                }
            }
            // the node writes the block to disk while adding it; load it back through Storage
            match node.add_block_bytes(&re) {
                Outcome::Done(AddRes::AddedLongest) => {}
                o => bad(&mut rep, "chain-block", "verdict-after-wire", format!("{}: {:?}", bi.label, o)),
            }
            let path = node.storage.generate_block_filepath(&d);
            let st = &node.storage;
            match run(async { st.load_block_from_disk(&path).await }) {
                Outcome::Done(Ok(mut l)) => {
                    let _ = l.generate();
                    if l.hash != bi.hash || block_bytes(&l) != bi.bytes {
                        bad(&mut rep, "chain-block", "disk", bi.label.clone());
                    }
                    if !saito_core::core::util::crypto::verify_signature(&l.pre_hash, &l.signature, &l.creator) {
                        bad(&mut rep, "chain-block", "signature-after-disk", bi.label.clone());
                    }
                    for (x, y) in l.transactions.iter().zip(d.transactions.iter()) {
                        if x.hash_for_signature != y.hash_for_signature || x.signature != y.signature {
                            bad(&mut rep, "chain-tx", "hash-or-signature-after-disk", bi.label.clone());
                        }
                        if x.get_serialized_size() != x.serialize_for_net().len() {
                            bad(&mut rep, "chain-tx", "predicted-size", bi.label.clone());
                        }
                    }
                }
                o => bad(&mut rep, "chain-block", "disk-load", format!("{}: {:?}", bi.label, o.label())),
            }
            let _ = i;
        }
        // a twin fed from the first node's disk files reaches the same state
        let files = node.io.files();
        let mut twin = LedgerNode::new(key(8), w.cfg.clone());
        let mut names: Vec<_> = files.keys().filter(|k| k.ends_with(".sai")).cloned().collect();
        names.sort();
        for nme in names {
            let _ = twin.add_block_bytes(&files[&nme]);
        }
        if twin.obs().chain_part() != node.obs().chain_part() {
            bad(&mut rep, "chain", "state-from-disk-differs", "twin loaded from disk files".into());
        }
        rep.outcome_n("chain-blocks", n as u64);
    }
    rep.sample(json!({"transaction": "Normal in=255 out=255 payload=0 hops=0", "block": "Full with 3 transactions, 30 distinct header fields", "message_tags": tags.iter().collect::<Vec<_>>()}));
    rep.finish()
}
