//! C16 — the block-fetch scheduler is bounded, ordered and complete.  Driven through the routing
//! layer of a real FullNode (announce / fetched / failed / internal processing / timer), BFS
//! with digest from the cfg-guarded scheduler snapshot; monitors at the I/O boundary.

use std::collections::{BTreeMap, BTreeSet};

use saito_core::core::io::network_event::NetworkEvent;
use saito_core::core::msg::message::Message;
use serde_json::json;

use crate::exec::Outcome;
use crate::factory::World;
use crate::fullnode::FullNode;
use crate::netx::*;
use crate::node::*;
use crate::report::{par_map, workers, Report, Tier};
use crate::seams::{key, Cfg, ManualClock, MemIO, Out};

#[derive(Clone, Copy, Debug, PartialEq, Eq, PartialOrd, Ord)]
pub enum Ev {
    Announce(u8, u8),
    Fetched(u8, u8),
    Failed(u8, u8),
    Internal,
    Tick,
}

pub struct Uni {
    pub w: World,
    pub base: Vec<usize>,
    /// the four announced blocks: (world index)
    pub hs: Vec<usize>,
}

pub fn universe() -> Result<Uni, String> {
    let mut w = World::standard(10);
    let a = w.honest_child(0, 0, "B2")?;
    let b = w.honest_child(a, 0, "B3")?;
    let h4a = w.honest_child(b, 1, "H4a")?;
    let h4b = w.honest_child(b, 2, "H4b")?;
    let h5 = w.honest_child(h4a, 1, "H5")?;
    let h6 = w.honest_child(h5, 1, "H6")?;
    // a second block at height 5, on the other branch (only announced in the searches that say so)
    let h5b = w.honest_child(h4b, 3, "H5b")?;
    Ok(Uni { w, base: vec![0, a, b], hs: vec![h4a, h4b, h5, h6, h5b] })
}

pub struct Sim {
    pub n: FullNode,
    pub inflight: BTreeSet<(u8, u8)>,
    pub requested: BTreeMap<(u8, u8), u32>,
    pub announced: BTreeSet<u8>,
    pub batch: usize,
    pub peers: u8,
    pub lite3: bool,
    /// how many of the universe's blocks peers announce (4, or 5 with the second block at height 5)
    pub nblocks: u8,
}

/// `peers` = 2: two serving peers; 3: a third peer without fetch url; 13: three serving peers;
/// 22: two serving peers announcing all five blocks
pub fn start(u: &Uni, batch: u64, peers: u8) -> Result<Sim, String> {
    let lite3 = peers == 3;
    let nblocks = if peers == 22 { 5 } else { 4 };
    let peers = if peers == 13 { 3 } else if peers == 22 { 2 } else { peers };
    let mut cfg = Cfg::new(10, crate::factory::HEARTBEAT);
    cfg.server.as_mut().unwrap().block_fetch_batch_size = batch;
    let mut n = FullNode::new(key(9), cfg, MemIO::new(), ManualClock::new(10_000_000));
    if !n.init().is_done() {
        return Err("init".into());
    }
    for &i in u.base.iter() {
        let bc = n.blockchain.clone();
        let mp = n.mempool.clone();
        let cfg = n.cfg.clone();
        let blk = decode_block(&u.w.blocks[i].bytes);
        let storage = &mut n.consensus.storage;
        let r = crate::exec::run(async {
            let mut bc = bc.write().await;
            let mut mp = mp.write().await;
            bc.add_block(blk, storage, &mut mp, &cfg).await;
        });
        if !r.is_done() {
            return Err("base chain".into());
        }
    }
    n.pump();
    for p in 1..=peers {
        // peers 1 and 2 serve blocks; peer 3 (when present) has no fetch url (a lite client): it can
        // announce, but a fetch from it cannot be dispatched
        let url = if p == 3 && lite3 { String::new() } else { format!("http://peer{}", p) };
        connect_and_handshake(&mut n, p as u64, &key(10 + p), &url)?;
        // the node asks the new peer for its chain; scripted peers stay silent about that
    }
    n.io.take_outbox();
    Ok(Sim { n, inflight: BTreeSet::new(), requested: BTreeMap::new(), announced: BTreeSet::new(), batch: batch as usize, peers, lite3, nblocks })
}

fn hash_index(u: &Uni, h: &Hash) -> Option<u8> {
    u.hs.iter().position(|&i| &u.w.blocks[i].hash == h).map(|x| x as u8)
}

/// apply an event, then run the monitors on what reached the I/O boundary
pub fn apply(u: &Uni, s: &mut Sim, ev: Ev, rep: &mut Report, hist: &[Ev]) -> bool {
    let ctx = json!({"batch": s.batch, "history": hist.iter().map(|e| format!("{:?}", e)).collect::<Vec<_>>()});
    let r = match ev {
        Ev::Announce(p, h) => {
            let b = &u.w.blocks[u.hs[h as usize]];
            if !(p == 3 && s.lite3) {
                // (completeness is owed to announcements by a peer that can serve the block)
                s.announced.insert(h);
            }
            s.n.net(incoming(p as u64, &Message::BlockHeaderHash(b.hash, b.id)))
        }
        Ev::Fetched(p, h) => {
            if !s.inflight.remove(&(p, h)) {
                return false;
            }
            let b = &u.w.blocks[u.hs[h as usize]];
            s.n.net(NetworkEvent::BlockFetched { block_hash: b.hash, block_id: b.id, peer_index: p as u64, buffer: b.bytes.clone() })
        }
        Ev::Failed(p, h) => {
            if !s.inflight.remove(&(p, h)) {
                return false;
            }
            let b = &u.w.blocks[u.hs[h as usize]];
            s.n.net(NetworkEvent::BlockFetchFailed { block_hash: b.hash, peer_index: p as u64, block_id: b.id })
        }
        Ev::Internal => {
            if s.n.pending().is_empty() {
                return false;
            }
            s.n.settle()
        }
        Ev::Tick => s.n.tick_routing(2_000),
    };
    if !r.is_done() {
        rep.violate(&format!("handler-abort/{:?}", std::mem::discriminant(&ev)), format!("{:?}: {}", ev, r.label()), ctx.clone());
        return true;
    }
    // what reached the I/O boundary in this round
    let out = s.n.io.take_outbox();
    let mut per_peer: BTreeMap<u8, Vec<(u64, u8)>> = BTreeMap::new();
    for o in out.iter() {
        if let Out::Fetch { hash, peer, block_id, .. } = o {
            let Some(hi) = hash_index(u, hash) else {
                rep.violate("fetch-of-unknown-hash", format!("{:?}", hist), ctx.clone());
                continue;
            };
            let p = *peer as u8;
            if !s.inflight.insert((p, hi)) {
                rep.violate("same-block-in-flight-twice-for-one-peer", format!("peer {} block {} after {:?}", p, u.w.blocks[u.hs[hi as usize]].label, hist), ctx.clone());
            }
            *s.requested.entry((p, hi)).or_insert(0) += 1;
            per_peer.entry(p).or_default().push((*block_id, hi));
        }
    }
    for (p, v) in per_peer.iter() {
        if v.windows(2).any(|w| w[0].0 > w[1].0) {
            rep.violate("requests-not-in-height-order", format!("peer {} requested heights {:?} in one round after {:?}", p, v.iter().map(|x| x.0).collect::<Vec<_>>(), hist), ctx.clone());
        }
        // no queued lower entry skipped
        let snap = s.n.routing.blockchain_sync_state.verif_snapshot();
        if let Some((_, entries, _)) = snap.iter().find(|e| e.0 == *p as u64) {
            let min_req = v.iter().map(|x| x.0).min().unwrap();
            let max_req = v.iter().map(|x| x.0).max().unwrap();
            if entries.iter().any(|e| e.2 == 0 && e.0 < max_req && e.3 == 0) {
                let _ = min_req;
                rep.violate("queued-lower-block-skipped", format!("peer {}: a queued entry below height {} was skipped in a round after {:?}", p, max_req, hist), ctx.clone());
            }
        }
    }
    for p in 1..=s.peers {
        let c = s.inflight.iter().filter(|x| x.0 == p).count();
        if c > s.batch {
            rep.violate("in-flight-exceeds-batch-size", format!("peer {}: {} in flight, batch size {} after {:?}", p, c, s.batch, hist), ctx.clone());
        }
    }
    true
}

pub fn digest(s: &Sim) -> Hash {
    let snap = s.n.routing.blockchain_sync_state.verif_snapshot();
    let o = s.n.obs();
    // the contents of the internal channels, not just their lengths: two states that differ in
    // which block is waiting where have different futures
    let q = (
        s.n.q_verify
            .iter()
            .map(|r| match r {
                saito_core::core::verification_thread::VerifyRequest::Block(_, p, h, _) => format!("{}:{}", p, hx(&h[..4])),
                _ => "t".into(),
            })
            .collect::<Vec<_>>(),
        s.n.q_consensus
            .iter()
            .map(|r| match r {
                saito_core::core::consensus_thread::ConsensusEvent::BlockFetched { peer_index, block } => format!("{}:{}", peer_index, hx(&block.hash[..4])),
                _ => "t".into(),
            })
            .collect::<Vec<_>>(),
        s.n.q_routing
            .iter()
            .map(|r| match r {
                saito_core::core::routing_thread::RoutingEvent::BlockchainUpdated(h) => format!("u{}", hx(&h[..4])),
                saito_core::core::routing_thread::RoutingEvent::BlockFetchRequest(p, h, _) => format!("f{}:{}", p, hx(&h[..4])),
                saito_core::core::routing_thread::RoutingEvent::BlockchainRequest(p) => format!("r{}", p),
            })
            .collect::<Vec<_>>(),
    );
    // a block parked in the pool's queue remembers which peer it came from (that peer is asked for
    // the missing parent, and charged if the block turns out invalid)
    let parked: Vec<String> = s.n.mempool.try_read().map(|m| m.blocks_queue.iter().map(|b| format!("{}<-{:?}", hx(&b.hash[..4]), b.routed_from_peer)).collect()).unwrap_or_default();
    saito_core::core::util::crypto::hash(format!("{:?}|{:?}|{:?}|{:?}|{:?}|{:?}|{:?}", snap, o.tip_hash, o.blocks, o.pool_blocks, q, s.inflight, parked).as_bytes())
}

fn enabled(s: &Sim, _peers: u8) -> Vec<Ev> {
    let mut v = vec![];
    for p in 1..=s.peers {
        for h in 0..s.nblocks {
            v.push(Ev::Announce(p, h));
        }
    }
    for (p, h) in s.inflight.iter() {
        v.push(Ev::Fetched(*p, *h));
        v.push(Ev::Failed(*p, *h));
    }
    if !s.n.pending().is_empty() {
        v.push(Ev::Internal);
    }
    v.push(Ev::Tick);
    v
}

fn replay(u: &Uni, batch: u64, peers: u8, hist: &[Ev], rep: &mut Report) -> Option<Sim> {
    let mut s = match start(u, batch, peers) {
        Ok(s) => s,
        Err(e) => {
            rep.machinery(format!("start: {}", e));
            return None;
        }
    };
    for (i, ev) in hist.iter().enumerate() {
        let mut scratch = rep.child();
        let ok = if i + 1 == hist.len() { apply(u, &mut s, *ev, rep, hist) } else { apply(u, &mut s, *ev, &mut scratch, &hist[..=i]) };
        if !ok {
            return None;
        }
    }
    Some(s)
}

/// drive a state to quiescence: answer every fetch successfully, run internals, tick
fn completeness(u: &Uni, mut s: Sim, hist: &[Ev], rep: &mut Report) {
    let ctx = json!({"history": hist.iter().map(|e| format!("{:?}", e)).collect::<Vec<_>>()});
    let mut scratch = rep.child();
    for _ in 0..40 {
        let infl: Vec<(u8, u8)> = s.inflight.iter().cloned().collect();
        for (p, h) in infl {
            apply(u, &mut s, Ev::Fetched(p, h), &mut scratch, hist);
        }
        apply(u, &mut s, Ev::Internal, &mut scratch, hist);
        apply(u, &mut s, Ev::Tick, &mut scratch, hist);
        if s.inflight.is_empty() && s.n.pending().is_empty() {
            let snap = s.n.routing.blockchain_sync_state.verif_snapshot();
            if snap.iter().all(|e| e.1.iter().all(|b| b.2 != 0 && b.2 != 3) && e.2.is_empty()) {
                break;
            }
        }
    }
    let o = s.n.obs();
    for h in s.announced.iter() {
        let b = &u.w.blocks[u.hs[*h as usize]];
        let have = o.blocks.iter().any(|x| x.0 == b.hash);
        let asked = s.requested.keys().any(|k| k.1 == *h);
        if !have && !asked {
            rep.violate("announced-block-never-requested", format!("{} announced, not in the chain and never requested after {:?}", b.label, hist), ctx.clone());
        }
        if !have && asked {
            // requested and delivered but not added: only acceptable when its parent is missing
            let parent_known = u.w.blocks[u.hs[*h as usize]].parent.map(|p| o.blocks.iter().any(|x| x.0 == u.w.blocks[p].hash)).unwrap_or(true);
            if parent_known {
                rep.violate("fetched-block-not-added", format!("{} was fetched successfully, its parent is known, yet it is not stored after {:?}", b.label, hist), ctx.clone());
            } else {
                rep.outcome("quiescent:block-waiting-for-parent");
            }
        }
    }
    rep.outcome("quiescence-checked");
}

fn retry_bound(u: &Uni, rep: &mut Report) {
    let mut s = match start(u, 1, 1) {
        Ok(s) => s,
        Err(e) => {
            rep.machinery(e);
            return;
        }
    };
    let hist = vec![Ev::Announce(1, 0)];
    let mut scratch = rep.child();
    apply(u, &mut s, Ev::Announce(1, 0), &mut scratch, &hist);
    let mut rounds_without_request = 0;
    let mut steps = 0u64;
    for _ in 0..1400 {
        if s.inflight.contains(&(1, 0)) {
            apply(u, &mut s, Ev::Failed(1, 0), &mut scratch, &hist);
            rounds_without_request = 0;
        } else {
            rounds_without_request += 1;
        }
        apply(u, &mut s, Ev::Tick, &mut scratch, &hist);
        steps += 2;
        rep.transitions += 2;
        if rounds_without_request > 60 {
            break;
        }
    }
    let n = s.requested.get(&(1, 0)).cloned().unwrap_or(0);
    rep.extra.insert("retry_closure".into(), json!({"requests_for_always_failing_block": n, "steps": steps, "rounds_without_request_at_end": rounds_without_request}));
    if rounds_without_request <= 60 {
        rep.violate("failing-block-retried-without-bound", format!("still being requested after {} requests", n), json!({"requests": n}));
    } else if n > 502 {
        rep.violate("failing-block-retried-too-often", format!("{} requests (limit 500 retries + 1)", n), json!({"requests": n}));
    }
    rep.outcome("retry-closure-done");
    rep.merge(scratch);
}

pub fn main(tier: Tier, _replay: Option<String>) -> i32 {
    let mut rep = Report::new("C16", tier.clone(), "model_checking");
    let depth = if tier.thorough { 7 } else { 5 };
    rep.bounds = json!({"depth": depth, "peers": 2, "hashes": "4 at 3 heights (one forked)", "batch_sizes": [1, 2], "retry_closure": "1 peer, 1 hash, alternate failed/tick until no request for 60 rounds"});
    rep.rule = "breadth-first search over event sequences (announce(peer,hash), fetched, failed, internal processing, timer tick) through the routing layer; state digest from the scheduler snapshot hook + chain + queues + in-flight set; monitors on the fetch requests reaching the I/O boundary; every state is additionally driven to quiescence for the completeness clause".into();
    rep.assumptions = vec![
        "ordering is checked within one selection round and against queued lower entries (a lower block announced later is legitimately requested later)".into(),
        "fetched blocks are real bytes and go through verification and consensus (Internal event)".into(),
    ];
    let u = match universe() {
        Ok(u) => u,
        Err(e) => {
            rep.machinery(e);
            return rep.finish();
        }
    };
    if let Ok(hs) = std::env::var("VERIF_C16_HISTORY") {
        // developer aid: "batch;peers;Event;Event;..." with events in their Debug form
        let mut it = hs.split(';');
        let batch: u64 = it.next().and_then(|x| x.trim().parse().ok()).unwrap_or(1);
        let peers: u8 = it.next().and_then(|x| x.trim().parse().ok()).unwrap_or(2);
        let mut s = start(&u, batch, peers).expect("start");
        let mut hist = vec![];
        for name in it {
            let evs = enabled(&s, peers);
            let Some(ev) = evs.iter().find(|e| format!("{:?}", e) == name.trim()).cloned() else {
                println!("{} is not enabled; enabled: {:?}", name, evs);
                break;
            };
            hist.push(ev);
            let mut r = rep.child();
            let ok = apply(&u, &mut s, ev, &mut r, &hist);
            println!("{:?}: applied={} violations={:?}\n   in flight (harness) {:?}\n   sync state {:?}", ev, ok, r.violations.iter().map(|v| v.key.clone()).collect::<Vec<_>>(), s.inflight, s.n.routing.blockchain_sync_state.verif_snapshot());
        }
        return 0;
    }
    // searches from the initial state, and from states that take more steps to reach than the
    // quick bound allows: a block that is stored while a second request for it is still out
    // (H4a fetched from peer 1 and added, in flight with peer 2), the same with a further block
    // queued behind it, and a failed request waiting for its retry
    let configs: Vec<(u64, u8, Vec<Ev>, usize)> = vec![
        (1, 2, vec![], depth),
        (2, 2, vec![], depth),
        (2, 3, vec![], depth),
        (1, 3, vec![Ev::Announce(1, 0), Ev::Announce(2, 0), Ev::Fetched(1, 0), Ev::Internal], depth - 1),
        (1, 3, vec![Ev::Announce(1, 0), Ev::Announce(2, 0), Ev::Announce(2, 2), Ev::Fetched(1, 0), Ev::Internal], depth - 2),
        (2, 3, vec![Ev::Announce(1, 0), Ev::Failed(1, 0), Ev::Announce(2, 1)], depth - 1),
        // three serving peers, batch 1: H5 (its parent H4a is missing) arrives from peer 1 and is
        // parked in the pool's block queue while it is in flight with peer 2 and queued behind
        // H4a at peer 3
        (1, 13, vec![Ev::Announce(1, 2), Ev::Announce(2, 2), Ev::Announce(3, 0), Ev::Announce(3, 2), Ev::Fetched(1, 2), Ev::Internal], depth - 2),
        // two blocks exist at height 5: H5 arrives before its parent and is parked in the block
        // queue; its sibling H5b (and H5b's parent) are announced afterwards
        (2, 22, vec![Ev::Announce(1, 2), Ev::Fetched(1, 2), Ev::Internal], depth - 2),
    ];
    for (ci, (batch, peers, prefix, more)) in configs.into_iter().enumerate() {
        let mut seen: crate::audit::MergeAudit<Vec<Ev>> = crate::audit::MergeAudit::new();
        if !prefix.is_empty() {
            // the prefix must be executable as written
            let mut scratch = rep.child();
            let mut ok = start(&u, batch, peers).ok();
            if let Some(s) = ok.as_mut() {
                for (k, ev) in prefix.iter().enumerate() {
                    if !apply(&u, s, *ev, &mut scratch, &prefix[..=k]) {
                        rep.machinery(format!("search {}: prefix event {:?} is not enabled", ci, ev));
                    }
                }
            } else {
                rep.machinery(format!("search {}: start failed", ci));
            }
        }
        let depth = prefix.len() + more;
        let mut frontier: Vec<Vec<Ev>> = vec![prefix.clone()];
        let mut level = prefix.len();
        while level < depth && !frontier.is_empty() {
            level += 1;
            // expand: enabled events depend on the state, so compute them during replay
            let results = par_map(&frontier, workers(), |_, h| {
                let mut r = rep.child();
                let mut out: Vec<(Vec<Ev>, Hash)> = vec![];
                let Some(s0) = replay(&u, batch, peers, h, &mut r.child()) else { return (r, out) };
                let evs = enabled(&s0, peers);
                drop(s0);
                for ev in evs {
                    let mut hh = h.clone();
                    hh.push(ev);
                    r.evaluations += 1;
                    r.transitions += 1;
                    if let Some(s) = replay(&u, batch, peers, &hh, &mut r) {
                        let d = digest(&s);
                        if hh.len() <= 4 || matches!(ev, Ev::Failed(..) | Ev::Fetched(..)) {
                            completeness(&u, s, &hh, &mut r);
                        }
                        out.push((hh, d));
                    }
                }
                r.traces_validated += 1;
                (r, out)
            });
            let mut next = vec![];
            for (r, out) in results {
                rep.merge(r);
                for (h, d) in out {
                    if seen.see(d, &h) {
                        next.push(h);
                    }
                }
            }
            rep.outcome_n(&format!("search{}-batch{}-peers{}-level-{}-new-states", ci, batch, peers, level), next.len() as u64);
            if next.len() > 3000 {
                rep.exhaustive = false;
                rep.extra.insert(format!("frontier_cap_search{}_batch{}_peers{}", ci, batch, peers), json!({"level": level, "states": next.len(), "kept": 3000}));
                next.truncate(3000);
            }
            frontier = next;
        }
        rep.states += seen.len() as u64;
        for d in seen.rep_of.keys() {
            rep.distinct.insert(hex::encode(&d[0..8]));
        }
        // canonicalisation audit: merged histories agree with their representative one step on
        {
            let quiet = Report::new("C16", tier.clone(), "model_checking");
            seen.audit(if tier.thorough { 3000 } else { 300 }, &format!("scheduler-bfs-search{}-batch{}-peers{}", ci, batch, peers), |h: &Vec<Ev>| {
                let Some(s0) = replay(&u, batch, peers, h, &mut quiet.child()) else { return vec![("replay-failed".to_string(), None)] };
                let evs = enabled(&s0, peers);
                drop(s0);
                evs.into_iter()
                    .map(|ev| {
                        let mut hh = h.clone();
                        hh.push(ev);
                        (format!("{:?}", ev), replay(&u, batch, peers, &hh, &mut quiet.child()).map(|s| digest(&s)))
                    })
                    .collect()
            }, &mut rep);
        }
    }
    retry_bound(&u, &mut rep);
    rep.sample(json!({"history": ["Announce(1,2)", "Announce(1,0)", "Tick", "Failed(1,0)", "Tick", "Fetched(1,0)", "Internal"]}));
    rep.required_outcomes = vec!["quiescence-checked".into(), "retry-closure-done".into()];
    rep.finish()
}
