//! C15 — a node that syncs from a peer converges to the peer's chain.
//!
//! Part 1 (grid): a forest of real blocks — one trunk of N blocks and, for every fork point p,
//! a branch of N-p blocks — gives every chain "trunk[..p] + branch_p[..a]".  For every ordered
//! pair (requesting chain, serving chain) the real `generate_fork_id` (requester) and the real
//! `generate_last_shared_ancestor` (server, a live Blockchain holding that chain) are evaluated;
//! the estimate must not be later than the true fork point.
//!
//! Part 2 (schedules): two real FullNodes A (dials, syncs) and B (serves) with chains from the
//! forest; BFS over every delivery order of wire messages, block-fetch completions and internal
//! channel heads; at quiescence A is on B's tip.

use std::collections::{BTreeMap, BTreeSet, VecDeque};

use saito_core::core::consensus::block::Block;
use saito_core::core::io::network_event::NetworkEvent;
use saito_core::core::msg::message::Message;
use saito_core::core::util::configuration::PeerConfig;
use saito_core::core::util::crypto::hash;
use serde_json::json;

use crate::exec::{run, Outcome};
use crate::factory::World;
use crate::fullnode::{Chan, FullNode};
use crate::node::*;
use crate::report::{par_map, workers, Report, Tier};
use crate::seams::{key, Cfg, ManualClock, MemIO, Out};

pub const G: u64 = 100_000;
const WEIGHTS: [u64; 16] = [0, 10, 10, 10, 10, 10, 25, 25, 100, 300, 500, 4000, 10000, 20000, 50000, 100000];

fn cfg() -> Cfg {
    Cfg::new(G, crate::factory::HEARTBEAT)
}

/// build a child of the node's current tip with the real producer and add it
fn extend(n: &mut LedgerNode, salt: u64) -> Result<Vec<u8>, String> {
    let (tip_id, tip_hash) = n.tip();
    let bc = n.blockchain.clone();
    let cfg = n.cfg.clone();
    let storage = &n.storage;
    let creator = n.key;
    let r = run(async {
        let bc = bc.read().await;
        let parent = bc.get_block(&tip_hash).ok_or("no tip block")?;
        let ts = parent.timestamp + 10_000 + salt;
        let gt = if (tip_id + 1) % 2 == 0 {
            let mut t = golden_ticket_tx(tip_hash, parent.difficulty, &creator, 0);
            t.generate(&creator.public, 0, 0);
            Some(t)
        } else {
            None
        };
        let mut t = make_tx(&[], &[(key(5).public, 0)], &key(5), ts, format!("x{}", salt).as_bytes());
        t.generate(&creator.public, 0, 0);
        let mut map = txmap(vec![t]);
        Block::create(&mut map, tip_hash, &bc, ts, &creator.public, &creator.private, gt, &cfg, storage).await.map_err(|e| format!("{:?}", e))
    });
    let b = match r {
        Outcome::Done(Ok(b)) => b,
        Outcome::Done(Err(e)) => return Err(format!("create: {}", e)),
        o => return Err(format!("create: {}", o.label())),
    };
    let bytes = block_bytes(&b);
    match n.add_block_bytes(&bytes) {
        Outcome::Done(AddRes::AddedLongest) => Ok(bytes),
        Outcome::Done(r) => Err(format!("own block not added as tip: {:?}", r)),
        o => Err(format!("add: {}", o.label())),
    }
}

pub struct Forest {
    pub n: usize,
    /// trunk[i] = block with id i+1
    pub trunk: Vec<Vec<u8>>,
    pub trunk_hash: Vec<Hash>,
    /// branch[p][j] = block with id p+j+1 on the branch that leaves the trunk after block p
    pub branch: Vec<Vec<Vec<u8>>>,
    pub branch_hash: Vec<Vec<Hash>>,
}

fn genesis_bytes(ts: u64) -> Vec<u8> {
    let mut w = World::new(cfg());
    let k1 = key(1).public;
    w.genesis(&[(k1, 1_000_000), (key(2).public, 2_000_000)], ts);
    w.blocks[0].bytes.clone()
}

fn load(chain: &[&Vec<u8>]) -> Result<LedgerNode, String> {
    let mut n = LedgerNode::new(key(0), cfg());
    for b in chain {
        match n.add_block_bytes(b) {
            Outcome::Done(AddRes::AddedLongest) => {}
            Outcome::Done(r) => return Err(format!("replay: {:?}", r)),
            o => return Err(format!("replay: {}", o.label())),
        }
    }
    Ok(n)
}

impl Forest {
    pub fn build(n: usize) -> Result<Forest, String> {
        let all: Vec<usize> = (0..n).collect();
        Self::build_sparse(n, &all)
    }

    /// trunk of `n` blocks, branches only at the given fork points (other branches stay empty)
    pub fn build_sparse(n: usize, fork_points: &[usize]) -> Result<Forest, String> {
        let g = genesis_bytes(1_000_000);
        let mut node = load(&[&g])?;
        let mut trunk = vec![g];
        for _ in 1..n {
            trunk.push(extend(&mut node, 0)?);
        }
        let trunk_hash: Vec<Hash> = trunk.iter().map(|b| decode_block(b).hash).collect();
        let ps: Vec<usize> = (0..n).collect();
        let res = par_map(&ps, workers(), |_, &p| -> Result<Vec<Vec<u8>>, String> {
            let mut out = vec![];
            if !fork_points.contains(&p) {
                return Ok(out);
            }
            let mut node = if p == 0 {
                let g2 = genesis_bytes(1_000_777);
                let nd = load(&[&g2])?;
                out.push(g2);
                nd
            } else {
                let pre: Vec<&Vec<u8>> = trunk[..p].iter().collect();
                load(&pre)?
            };
            while p + out.len() < n {
                out.push(extend(&mut node, 1 + p as u64)?);
            }
            Ok(out)
        });
        let mut branch = vec![];
        for r in res {
            branch.push(r?);
        }
        let branch_hash: Vec<Vec<Hash>> = branch.iter().map(|v| v.iter().map(|b| decode_block(b).hash).collect()).collect();
        Ok(Forest { n, trunk, trunk_hash, branch, branch_hash })
    }

    /// blocks of chain (p, a)
    pub fn chain(&self, p: usize, a: usize) -> Vec<&Vec<u8>> {
        let mut v: Vec<&Vec<u8>> = self.trunk[..p].iter().collect();
        v.extend(self.branch[p][..a].iter());
        v
    }

    /// hash at height h (1-based id) of chain (p, a)
    pub fn hash_at(&self, p: usize, a: usize, h: u64) -> Option<Hash> {
        let h = h as usize;
        if h == 0 || h > p + a {
            None
        } else if h <= p {
            Some(self.trunk_hash[h - 1])
        } else {
            Some(self.branch_hash[p][h - p - 1])
        }
    }

    /// id of the last block two chains have in common
    pub fn common(&self, x: (usize, usize), y: (usize, usize)) -> u64 {
        // (p, 0) is a pure trunk prefix
        let (p, a) = x;
        let (q, b) = y;
        if p == q {
            (p + a.min(b)) as u64
        } else {
            p.min(q) as u64
        }
    }
}

#[derive(Clone)]
struct Req {
    p: usize,
    a: usize,
    latest: u64,
    fork_id: Hash,
}

fn grid(f: &Forest, rep: &mut Report) {
    let n = f.n;
    // requester side: (latest id, fork id) of every chain, from a live Blockchain
    let ps: Vec<usize> = (0..n).collect();
    let reqs_by_p = par_map(&ps, workers(), |_, &p| -> Result<Vec<Req>, String> {
        let mut out = vec![];
        let pre: Vec<&Vec<u8>> = f.trunk[..p].iter().collect();
        let mut node = load(&pre)?;
        for a in 0..=f.branch[p].len() {
            if a > 0 {
                match node.add_block_bytes(&f.branch[p][a - 1]) {
                    Outcome::Done(AddRes::AddedLongest) => {}
                    o => return Err(format!("branch replay p={} a={}: {}", p, a, o.label())),
                }
            }
            if p + a == 0 {
                continue;
            }
            let bc = node.blockchain.try_read().unwrap();
            let latest = bc.get_latest_block_id();
            if latest != (p + a) as u64 {
                return Err(format!("chain ({},{}) has tip id {}", p, a, latest));
            }
            let fork_id = bc.generate_fork_id(latest).unwrap_or([0; 32]);
            out.push(Req { p, a, latest, fork_id });
        }
        Ok(out)
    });
    let mut reqs: Vec<Req> = vec![];
    for r in reqs_by_p {
        match r {
            Ok(v) => reqs.extend(v),
            Err(e) => {
                rep.machinery(e);
                return;
            }
        }
    }
    // the trunk states (p, 0) for p >= 1 coincide with (p', a) only as chains, keep them all
    rep.outcome_n("grid:chains", reqs.len() as u64);
    // server side
    let results = par_map(&ps, workers(), |_, &q| {
        let mut r = rep.child();
        let pre: Vec<&Vec<u8>> = f.trunk[..q].iter().collect();
        let mut node = match load(&pre) {
            Ok(n) => n,
            Err(e) => {
                r.machinery(e);
                return r;
            }
        };
        for b in 0..=f.branch[q].len() {
            if b > 0 {
                if !matches!(node.add_block_bytes(&f.branch[q][b - 1]), Outcome::Done(AddRes::AddedLongest)) {
                    r.machinery(format!("server replay q={} b={}", q, b));
                    return r;
                }
            }
            if q + b == 0 {
                continue;
            }
            let bc = node.blockchain.try_read().unwrap();
            let my_latest = bc.get_latest_block_id();
            for rq in reqs.iter() {
                r.evaluations += 1;
                let est = bc.generate_last_shared_ancestor(rq.latest, rq.fork_id);
                let truth = f.common((rq.p, rq.a), (q, b));
                let branch = if rq.latest >= my_latest { "requester-ahead-or-level" } else { "requester-behind" };
                if est <= truth {
                    if est == truth {
                        r.outcome(&format!("grid:{}:exact", branch));
                    } else if est == 0 {
                        r.outcome(&format!("grid:{}:from-zero", branch));
                    } else {
                        r.outcome(&format!("grid:{}:earlier", branch));
                    }
                    continue;
                }
                // too late: which slot matched, and were the blocks really different?
                let server_hash = f.hash_at(q, b, est);
                let base_req = rq.latest - rq.latest % 10;
                let mut cum = 0u64;
                let mut collision = None;
                for (i, w) in WEIGHTS.iter().enumerate() {
                    cum += w;
                    if base_req < cum {
                        break;
                    }
                    let h_req = base_req - cum;
                    if let Some(sh) = server_hash {
                        if rq.fork_id[2 * i] == sh[2 * i] && rq.fork_id[2 * i + 1] == sh[2 * i + 1] {
                            let rh = f.hash_at(rq.p, rq.a, h_req);
                            if rh != Some(sh) {
                                collision = Some((i, h_req));
                                break;
                            }
                        }
                    }
                }
                let case = json!({"requester": {"fork_after": rq.p, "branch_len": rq.a, "latest": rq.latest}, "server": {"fork_after": q, "branch_len": b, "latest": my_latest}, "estimate": est, "true_fork_point": truth});
                match collision {
                    Some((slot, h_req)) => r.violate(
                        &format!("estimate-too-late/two-byte-collision/server-block-{}-of-branch-{}/slot-{}", est, if est as usize <= q { "trunk".to_string() } else { q.to_string() }, slot),
                        format!("estimate {} > true fork point {}: the server's block {} and the requester's block {} are different blocks that agree in bytes {}..{} of their hashes (slot {} of the fork id)", est, truth, est, h_req, 2 * slot, 2 * slot + 1, slot),
                        case,
                    ),
                    None => r.violate(
                        &format!("estimate-too-late/{}/requester-length-{}", branch, rq.latest),
                        format!("estimate {} > true fork point {} (requester latest {}, server latest {})", est, truth, rq.latest, my_latest),
                        case,
                    ),
                }
            }
        }
        r
    });
    for r in results {
        rep.merge(r);
    }
    // servers that have been through a reorganisation: they stored a branch first (its blocks are
    // the first ones stored at their heights) and then adopted the whole trunk; every requester,
    // in particular those still on the abandoned branch, against such a server
    let fps: Vec<usize> = (1..n).filter(|&q| !f.branch[q].is_empty()).collect();
    let mut servers: Vec<(usize, usize)> = vec![];
    for &q in fps.iter() {
        for b in [1usize, 5, 10, 15, 20, 30, 45] {
            if q + b + 1 < n && b <= f.branch[q].len() {
                servers.push((q, b));
            }
        }
    }
    let results = par_map(&servers, workers(), |_, &(q, b)| {
        let mut r = rep.child();
        let pre: Vec<&Vec<u8>> = f.trunk[..q].iter().collect();
        let mut node = match load(&pre) {
            Ok(n) => n,
            Err(e) => {
                r.machinery(e);
                return r;
            }
        };
        for blk in f.branch[q][..b].iter().chain(f.trunk[q..].iter()) {
            if !node.add_block_bytes(blk).is_done() {
                r.machinery(format!("reorged server q={} b={}: delivery aborted", q, b));
                return r;
            }
        }
        if node.tip().1 != f.trunk_hash[n - 1] {
            r.machinery(format!("reorged server q={} b={}: did not adopt the trunk (tip {})", q, b, node.tip().0));
            return r;
        }
        r.outcome("grid:server-after-reorganisation");
        let bc = node.blockchain.try_read().unwrap();
        for rq in reqs.iter() {
            r.evaluations += 1;
            let est = bc.generate_last_shared_ancestor(rq.latest, rq.fork_id);
            let truth = f.common((rq.p, rq.a), (n, 0));
            if est <= truth {
                r.outcome(if rq.p == q && rq.a > 0 { "grid:reorged-server:requester-on-the-abandoned-branch:ok" } else { "grid:reorged-server:ok" });
                continue;
            }
            // a two-byte collision with a trunk block is the known weakness of the fork id; here
            // only estimates that point into the abandoned branch's heights with the requester on
            // that branch are attributed to the reorganisation
            let on_abandoned = rq.p == q && rq.a > 0 && est as usize > q && est as usize <= q + b;
            let case = json!({"requester": {"fork_after": rq.p, "branch_len": rq.a, "latest": rq.latest}, "server": {"stored_first": {"fork_after": q, "branch_len": b}, "then_adopted": "trunk", "latest": n}, "estimate": est, "true_fork_point": truth});
            if on_abandoned && f.hash_at(q, b, est) == f.hash_at(rq.p, rq.a, est) {
                r.violate(&format!("estimate-too-late/server-matched-a-block-of-its-abandoned-branch/requester-length-{}", rq.latest), format!("estimate {} > true fork point {}: block {} of the branch the server abandoned (stored first at that height) matched the requester's fork id", est, truth, est), case);
            } else {
                r.violate_inst(&format!("estimate-too-late/two-byte-collision/reorged-server/estimate-{}", est), &format!("reorged|{}|{}|{}|{}|{}", q, b, rq.p, rq.a, est), format!("estimate {} > true fork point {} on a server that reorganised (requester ({},{}))", est, truth, rq.p, rq.a), case);
            }
        }
        r
    });
    for r in results {
        rep.merge(r);
    }
}

// ------------------------------------------------------------------------------------------
// part 2: two nodes, every delivery order
// ------------------------------------------------------------------------------------------

#[derive(Clone, Copy, Debug, PartialEq, Eq, PartialOrd, Ord)]
pub enum Ev {
    /// head of the wire queue towards A / B
    ToA,
    ToB,
    /// completion of A's k-th outstanding block fetch (in request order)
    FetchA(u8),
    IntA(Chan),
    IntB(Chan),
    TickA,
    /// the most recently queued message towards A overtakes the older ones when it is a block
    /// announcement (announcements travelling by different routes); otherwise the head
    ToANewest,
}

pub struct Net {
    pub a: FullNode,
    pub b: FullNode,
    pub to_a: VecDeque<Vec<u8>>,
    pub to_b: VecDeque<Vec<u8>>,
    pub fetch_a: Vec<(Hash, u64)>,
    pub requested: BTreeSet<Hash>,
    pub ticks: u8,
}

const A_AT_B: u64 = 1;
const B_AT_A: u64 = 1;

fn preload(n: &mut FullNode, chain: &[&Vec<u8>]) -> Result<(), String> {
    for bytes in chain {
        let bc = n.blockchain.clone();
        let mp = n.mempool.clone();
        let cfg = n.cfg.clone();
        let blk = decode_block(bytes);
        let storage = &mut n.consensus.storage;
        let r = run(async {
            let mut bc = bc.write().await;
            let mut mp = mp.write().await;
            bc.add_block(blk, storage, &mut mp, &cfg).await;
        });
        if !r.is_done() {
            return Err("preload".into());
        }
    }
    n.pump();
    n.q_routing.clear();
    n.q_consensus.clear();
    n.io.take_outbox();
    Ok(())
}

fn collect(net: &mut Net, block_of: &BTreeMap<Hash, Vec<u8>>) {
    let _ = block_of;
    for o in net.a.io.take_outbox() {
        match o {
            Out::Send { buffer, .. } => net.to_b.push_back(buffer),
            Out::SendAll { buffer, .. } => net.to_b.push_back(buffer),
            Out::Fetch { hash, block_id, .. } => {
                net.requested.insert(hash);
                net.fetch_a.push((hash, block_id));
            }
            _ => {}
        }
    }
    for o in net.b.io.take_outbox() {
        match o {
            Out::Send { buffer, .. } => net.to_a.push_back(buffer),
            Out::SendAll { buffer, .. } => net.to_a.push_back(buffer),
            _ => {}
        }
    }
}

/// when set, the serving node B has itself followed A's branch before it adopted its own chain
/// (it holds A's blocks, off its longest chain)
pub static B_SAW_A: std::sync::atomic::AtomicBool = std::sync::atomic::AtomicBool::new(false);

/// mode: the syncing node A has completed its initial loading (a block whose parent is missing is
/// re-queued and its parent fetched, instead of being stored)
pub static A_LOADED: std::sync::atomic::AtomicBool = std::sync::atomic::AtomicBool::new(false);
/// 0 = the default fetch batch (2 concurrent fetches per peer); otherwise A's block_fetch_batch_size
pub static A_BATCH: std::sync::atomic::AtomicUsize = std::sync::atomic::AtomicUsize::new(0);

pub fn start(f: &Forest, ca: (usize, usize), cb: (usize, usize), block_of: &BTreeMap<Hash, Vec<u8>>) -> Result<Net, String> {
    let mut cfg_a = cfg();
    if A_LOADED.load(std::sync::atomic::Ordering::SeqCst) {
        cfg_a.blockchain.initial_loading_completed = true;
    }
    let ab = A_BATCH.load(std::sync::atomic::Ordering::SeqCst);
    if ab != 0 {
        if let Some(sv) = cfg_a.server.as_mut() {
            sv.block_fetch_batch_size = ab as u64;
        }
    }
    cfg_a.peers = vec![PeerConfig { host: "b".into(), port: 1, protocol: "http".into(), synctype: "full".into() }];
    cfg_a.fetch_url = "http://a".into();
    let mut cfg_b = cfg();
    cfg_b.fetch_url = "http://b".into();
    let mut a = FullNode::new(key(8), cfg_a, MemIO::new(), ManualClock::new(50_000_000));
    let mut b = FullNode::new(key(9), cfg_b, MemIO::new(), ManualClock::new(50_000_000));
    if !a.init().is_done() || !b.init().is_done() {
        return Err("init".into());
    }
    preload(&mut a, &f.chain(ca.0, ca.1))?;
    if B_SAW_A.load(std::sync::atomic::Ordering::SeqCst) && ca.1 > 0 {
        preload(&mut b, &f.chain(ca.0, ca.1))?;
    }
    preload(&mut b, &f.chain(cb.0, cb.1))?;
    if b.tip().1 != decode_block(f.chain(cb.0, cb.1).last().unwrap()).hash {
        return Err("B is not on its own chain after preloading".into());
    }
    a.tick_routing(2_000);
    if !a.io.take_outbox().into_iter().any(|o| matches!(o, Out::Connect { .. })) {
        return Err("A did not dial".into());
    }
    let mut net = Net { a, b, to_a: VecDeque::new(), to_b: VecDeque::new(), fetch_a: vec![], requested: BTreeSet::new(), ticks: 0 };
    if !net.a.net(NetworkEvent::PeerConnectionResult { result: Ok((B_AT_A, None)) }).is_done() {
        return Err("A connect".into());
    }
    if !net.b.net(NetworkEvent::PeerConnectionResult { result: Ok((A_AT_B, None)) }).is_done() {
        return Err("B accept".into());
    }
    collect(&mut net, block_of);
    Ok(net)
}

pub fn enabled(net: &Net, max_ticks: u8) -> Vec<Ev> {
    let mut v = vec![];
    if !net.to_a.is_empty() {
        v.push(Ev::ToA);
    }
    if !net.to_b.is_empty() {
        v.push(Ev::ToB);
    }
    for k in 0..net.fetch_a.len().min(4) {
        v.push(Ev::FetchA(k as u8));
    }
    for c in net.a.pending() {
        v.push(Ev::IntA(c));
    }
    for c in net.b.pending() {
        v.push(Ev::IntB(c));
    }
    if v.is_empty() && net.ticks < max_ticks {
        v.push(Ev::TickA);
    }
    v
}

pub fn apply(net: &mut Net, ev: Ev, block_of: &BTreeMap<Hash, Vec<u8>>, rep: &mut Report, hist: &[Ev], case: &serde_json::Value) -> bool {
    let o = match ev {
        Ev::ToA => {
            let Some(m) = net.to_a.pop_front() else { return false };
            net.a.net(NetworkEvent::IncomingNetworkMessage { peer_index: B_AT_A, buffer: m })
        }
        Ev::ToANewest => {
            let is_header = net.to_a.back().map(|m| matches!(Message::deserialize(m.clone()), Ok(Message::BlockHeaderHash(_, _)))).unwrap_or(false);
            let m = if is_header { net.to_a.pop_back() } else { net.to_a.pop_front() };
            let Some(m) = m else { return false };
            net.a.net(NetworkEvent::IncomingNetworkMessage { peer_index: B_AT_A, buffer: m })
        }
        Ev::ToB => {
            let Some(m) = net.to_b.pop_front() else { return false };
            net.b.net(NetworkEvent::IncomingNetworkMessage { peer_index: A_AT_B, buffer: m })
        }
        Ev::FetchA(k) => {
            if (k as usize) >= net.fetch_a.len() {
                return false;
            }
            let (h, id) = net.fetch_a.remove(k as usize);
            match block_of.get(&h) {
                Some(bytes) => net.a.net(NetworkEvent::BlockFetched { block_hash: h, block_id: id, peer_index: B_AT_A, buffer: bytes.clone() }),
                None => net.a.net(NetworkEvent::BlockFetchFailed { block_hash: h, peer_index: B_AT_A, block_id: id }),
            }
        }
        Ev::IntA(c) => match net.a.step(c) {
            Some(o) => o,
            None => return false,
        },
        Ev::IntB(c) => match net.b.step(c) {
            Some(o) => o,
            None => return false,
        },
        Ev::TickA => {
            net.ticks += 1;
            net.a.tick_routing(2_000)
        }
    };
    if !o.is_done() {
        let mut c = case.clone();
        c["history"] = json!(hist.iter().map(|e| format!("{:?}", e)).collect::<Vec<_>>());
        rep.violate(&format!("sync-handler-abort/{:?}", std::mem::discriminant(&ev)), format!("{:?}: {}", ev, o.label()), c);
        return false;
    }
    collect(net, block_of);
    true
}

fn node_digest(n: &FullNode) -> String {
    let mut o = n.obs();
    o.files.clear();
    let snap = n.routing.blockchain_sync_state.verif_snapshot();
    let q = (
        n.q_verify.iter().map(|r| match r {
            saito_core::core::verification_thread::VerifyRequest::Block(_, _, h, _) => hx(&h[..4]),
            _ => "t".into(),
        }).collect::<Vec<_>>(),
        n.q_consensus.iter().map(|r| match r {
            saito_core::core::consensus_thread::ConsensusEvent::BlockFetched { block, .. } => hx(&block.hash[..4]),
            _ => "t".into(),
        }).collect::<Vec<_>>(),
        n.q_routing.iter().map(|r| match r {
            saito_core::core::routing_thread::RoutingEvent::BlockchainUpdated(h) => format!("u{}", hx(&h[..4])),
            saito_core::core::routing_thread::RoutingEvent::BlockFetchRequest(_, h, _) => format!("f{}", hx(&h[..4])),
            saito_core::core::routing_thread::RoutingEvent::BlockchainRequest(p) => format!("r{}", p),
        }).collect::<Vec<_>>(),
    );
    format!("{}|{:?}|{:?}|{:?}", hx(&o.digest()), snap, q, n.peer_table())
}

pub fn digest(net: &Net) -> Hash {
    let wa: Vec<String> = net.to_a.iter().map(|m| hx(&hash(m)[..6])).collect();
    let wb: Vec<String> = net.to_b.iter().map(|m| hx(&hash(m)[..6])).collect();
    hash(format!("{}#{}#{:?}#{:?}#{:?}#{}", node_digest(&net.a), node_digest(&net.b), wa, wb, net.fetch_a, net.ticks).as_bytes())
}

fn replay(f: &Forest, ca: (usize, usize), cb: (usize, usize), block_of: &BTreeMap<Hash, Vec<u8>>, hist: &[Ev], rep: &mut Report, case: &serde_json::Value) -> Option<Net> {
    let mut net = match start(f, ca, cb, block_of) {
        Ok(n) => n,
        Err(e) => {
            rep.machinery(format!("start: {}", e));
            return None;
        }
    };
    for (i, ev) in hist.iter().enumerate() {
        let mut scratch = rep.child();
        let ok = if i + 1 == hist.len() { apply(&mut net, *ev, block_of, rep, hist, case) } else { apply(&mut net, *ev, block_of, &mut scratch, &hist[..=i], case) };
        if !ok {
            return None;
        }
    }
    Some(net)
}

fn check_quiescent(f: &Forest, net: &Net, ca: (usize, usize), cb: (usize, usize), hist: &[Ev], rep: &mut Report, case: &serde_json::Value, mode: &str) {
    let ta = net.a.tip();
    let tb = net.b.tip();
    let mut c = case.clone();
    c["history"] = json!(hist.iter().map(|e| format!("{:?}", e)).collect::<Vec<_>>());
    if ta != tb {
        rep.violate(
            &format!("not-converged/{}/a({},{})/b({},{})", mode, ca.0, ca.1, cb.0, cb.1),
            format!("at quiescence A is at {}:{} and B at {}:{}; A requested {} block(s)", ta.0, hx(&ta.1[..6]), tb.0, hx(&tb.1[..6]), net.requested.len()),
            c,
        );
        return;
    }
    // every block A lacked was requested
    let common = f.common(ca, cb);
    for h in (common + 1)..=((cb.0 + cb.1) as u64) {
        let bh = f.hash_at(cb.0, cb.1, h).unwrap();
        if !net.requested.contains(&bh) {
            rep.violate(&format!("needed-block-never-requested/{}/a({},{})/b({},{})", mode, ca.0, ca.1, cb.0, cb.1), format!("block {} of B's chain was never requested by A", h), c.clone());
        }
    }
    rep.outcome(&format!("converged/{}", mode));
    // informational: entries the sync state still counts as being fetched although no fetch is outstanding
    if net.fetch_a.is_empty() {
        let stale: usize = net.a.routing.blockchain_sync_state.verif_snapshot().iter().map(|(_, q, _)| q.iter().filter(|e| e.2 == 1).count()).sum();
        if stale > 0 {
            rep.outcome(&format!("quiescent:fetching-entries-without-a-fetch/{}", mode));
        }
    }
}

/// default schedule: wire FIFO first, then fetches in order, then internals, then ticks
fn run_fifo(f: &Forest, ca: (usize, usize), cb: (usize, usize), block_of: &BTreeMap<Hash, Vec<u8>>, rep: &mut Report) {
    run_sched(f, ca, cb, block_of, rep, false)
}

/// `newest_first`: messages and internal steps run first (every announced block gets requested),
/// fetches complete only when nothing else can happen, the most recently requested one first
fn run_sched(f: &Forest, ca: (usize, usize), cb: (usize, usize), block_of: &BTreeMap<Hash, Vec<u8>>, rep: &mut Report, newest_first: bool) {
    run_sched_mode(f, ca, cb, block_of, rep, if newest_first { 1 } else { 0 })
}

/// mode 0: first enabled event; 1: fetches complete last and newest first; 2: announcements reach A
/// newest first, every outstanding fetch is served before the next announcement is delivered
fn run_sched_mode(f: &Forest, ca: (usize, usize), cb: (usize, usize), block_of: &BTreeMap<Hash, Vec<u8>>, rep: &mut Report, mode: u8) {
    let newest_first = mode == 1;
    let case = json!({"a": {"fork_after": ca.0, "branch_len": ca.1}, "b": {"fork_after": cb.0, "branch_len": cb.1}, "fetches_complete": if newest_first { "newest first" } else { "in request order" }, "announcements": if mode == 4 { "newest first, one after every two fetch completions" } else if mode == 2 { "newest first, fetches served in between" } else if mode == 3 { "newest first, alternating with single fetch completions" } else { "in order" }});
    let mut net = match start(f, ca, cb, block_of) {
        Ok(n) => n,
        Err(e) => {
            rep.machinery(format!("start {:?} {:?}: {}", ca, cb, e));
            return;
        }
    };
    let mut hist = vec![];
    let mut grown = 0usize;
    let mut cb_now = cb;
    loop {
    for _ in 0..20_000 {
        let en = enabled(&net, 6);
        let pick = if mode == 3 {
            // strict alternation: one announcement (newest first), one fetch completion, ...
            let last_was_fetch = matches!(hist.iter().rev().find(|e| matches!(e, Ev::FetchA(_) | Ev::ToANewest)), Some(Ev::FetchA(_)) | None);
            let internal = en.iter().find(|e| matches!(e, Ev::IntA(_) | Ev::IntB(_) | Ev::ToB)).cloned();
            let fetch = en.iter().find(|e| matches!(e, Ev::FetchA(_))).cloned();
            let ann = if net.to_a.is_empty() { None } else { Some(Ev::ToANewest) };
            internal.or_else(|| if last_was_fetch { ann.or(fetch) } else { fetch.or(ann) }).or_else(|| en.first().cloned())
        } else if mode == 4 {
            // one announcement (newest first) after every two fetch completions: a header reaches the
            // node when its block has already come in through the parent walk and is parked
            let since: usize = hist.iter().rev().take_while(|e| !matches!(e, Ev::ToANewest)).filter(|e| matches!(e, Ev::FetchA(_))).count();
            let announced = hist.iter().any(|e| matches!(e, Ev::ToANewest));
            let internal = en.iter().find(|e| matches!(e, Ev::IntA(_) | Ev::IntB(_) | Ev::ToB)).cloned();
            let fetch = en.iter().find(|e| matches!(e, Ev::FetchA(_))).cloned();
            let ann = if net.to_a.is_empty() { None } else { Some(Ev::ToANewest) };
            internal.or_else(|| if !announced || since >= 2 { ann.or(fetch) } else { fetch.or(ann) }).or_else(|| en.first().cloned())
        } else if mode == 2 {
            en.iter().find(|e| matches!(e, Ev::IntA(_) | Ev::IntB(_) | Ev::ToB)).cloned().or_else(|| en.iter().find(|e| matches!(e, Ev::FetchA(_))).cloned()).or_else(|| if net.to_a.is_empty() { None } else { Some(Ev::ToANewest) }).or_else(|| en.first().cloned())
        } else if newest_first { en.iter().find(|e| !matches!(e, Ev::FetchA(_) | Ev::TickA)).or_else(|| en.iter().rev().find(|e| matches!(e, Ev::FetchA(_)))).or_else(|| en.first()).cloned() } else { en.first().cloned() };
        let Some(ev) = pick else { break };
        hist.push(ev);
        rep.transitions += 1;
        if !apply(&mut net, ev, block_of, rep, &hist, &case) {
            return;
        }
    }
    let mode_name = if mode == 4 { "announcement-after-two-fetches" } else if mode == 2 { "newest-announcement-first" } else if mode == 3 { "announcements-and-fetches-alternate" } else if newest_first { "newest-fetch-first" } else { "fifo" };
    if grown == 0 {
        rep.evaluations += 1;
        rep.traces_validated += 1;
        let short: Vec<Ev> = hist.iter().rev().take(12).rev().cloned().collect();
        check_quiescent(f, &net, ca, cb, &short, rep, &case, mode_name);
    } else {
        // from a non-initial state: the peer's chain grew after the sync was over
        rep.evaluations += 1;
        let (ta, tb) = (net.a.tip(), net.b.tip());
        if ta != tb {
            let mut c = case.clone();
            c["peer_grew_by"] = json!(grown);
            c["history_tail"] = json!(hist.iter().rev().take(12).rev().map(|e| format!("{:?}", e)).collect::<Vec<_>>());
            rep.violate(&format!("not-converged-after-the-peer-grew/{}/a({},{})/b({},{})", mode_name, ca.0, ca.1, cb.0, cb.1), format!("the sync ended with both on B's tip; B then adopted {} more block(s) and announced them: at quiescence A is at {}:{} and B at {}:{}", grown, ta.0, hx(&ta.1[..6]), tb.0, hx(&tb.1[..6])), c);
        } else {
            rep.outcome(&format!("converged-after-the-peer-grew/{}", mode_name));
        }
    }
    if A_BATCH.load(std::sync::atomic::Ordering::SeqCst) == 0 || grown == 2 || net.a.tip() != net.b.tip() {
        break;
    }
    // B adopts the next block of its own chain (it reaches B's consensus handler like a block
    // fetched from some other peer) and announces it
    let next: Option<&Vec<u8>> = if cb_now.1 == 0 { f.trunk.get(cb_now.0) } else { f.branch[cb_now.0].get(cb_now.1) };
    let Some(bytes) = next else { break };
    cb_now = if cb_now.1 == 0 { (cb_now.0 + 1, 0) } else { (cb_now.0, cb_now.1 + 1) };
    let block = decode_block(bytes);
    let want = block.hash;
    net.b.q_consensus.push_back(saito_core::core::consensus_thread::ConsensusEvent::BlockFetched { peer_index: 77, block });
    grown += 1;
    // B's own handlers first, so that the growth is a fact before A hears of it
    for _ in 0..50 {
        if net.b.tip().1 == want {
            break;
        }
        let Some(ev) = enabled(&net, 6).into_iter().find(|e| matches!(e, Ev::IntB(_))) else { break };
        hist.push(ev);
        if !apply(&mut net, ev, block_of, rep, &hist, &case) {
            return;
        }
    }
    if net.b.tip().1 != want {
        rep.outcome("growth:peer-did-not-adopt-its-next-block");
        break;
    }
    }
}

/// continuation from a quiescent state of the exhaustive search: the peer adopts and announces up
/// to two more blocks of its chain, one at a time (default schedule); the syncing node must follow
#[allow(clippy::too_many_arguments)]
fn follow_growth(f: &Forest, mut net: Net, ca: (usize, usize), cb: (usize, usize), block_of: &BTreeMap<Hash, Vec<u8>>, rep: &mut Report, case: &serde_json::Value, h: &[Ev]) {
    let mut cb_now = cb;
    let mut hist: Vec<Ev> = h.to_vec();
    for grown in 1..=2usize {
        let next: Option<&Vec<u8>> = if cb_now.1 == 0 { f.trunk.get(cb_now.0) } else { f.branch[cb_now.0].get(cb_now.1) };
        let Some(bytes) = next else { return };
        cb_now = if cb_now.1 == 0 { (cb_now.0 + 1, 0) } else { (cb_now.0, cb_now.1 + 1) };
        let block = decode_block(bytes);
        let want = block.hash;
        net.b.q_consensus.push_back(saito_core::core::consensus_thread::ConsensusEvent::BlockFetched { peer_index: 77, block });
        for _ in 0..2_000 {
            let en = enabled(&net, 6);
            let pick = if net.b.tip().1 != want { en.iter().find(|e| matches!(e, Ev::IntB(_))).cloned().or_else(|| en.first().cloned()) } else { en.first().cloned() };
            let Some(ev) = pick else { break };
            hist.push(ev);
            rep.transitions += 1;
            if !apply(&mut net, ev, block_of, rep, &hist, case) {
                return;
            }
        }
        if net.b.tip().1 != want {
            rep.outcome("growth:peer-did-not-adopt-its-next-block");
            return;
        }
        rep.evaluations += 1;
        let (ta, tb) = (net.a.tip(), net.b.tip());
        if ta != tb {
            let mut c = case.clone();
            c["peer_grew_by"] = json!(grown);
            c["history"] = json!(hist.iter().map(|e| format!("{:?}", e)).collect::<Vec<_>>());
            rep.violate(&format!("not-converged-after-the-peer-grew/all-orders/a({},{})/b({},{})", ca.0, ca.1, cb.0, cb.1), format!("the sync ended with both on B's tip; B then adopted {} more block(s) and announced them: at quiescence A is at {}:{} and B at {}:{}", grown, ta.0, hx(&ta.1[..6]), tb.0, hx(&tb.1[..6])), c);
            return;
        }
        rep.outcome("converged-after-the-peer-grew/all-orders");
    }
}

fn explore(f: &Forest, ca: (usize, usize), cb: (usize, usize), block_of: &BTreeMap<Hash, Vec<u8>>, rep: &mut Report, cap: usize) {
    let case = json!({"a": {"fork_after": ca.0, "branch_len": ca.1}, "b": {"fork_after": cb.0, "branch_len": cb.1}});
    let mut seen: crate::audit::MergeAudit<Vec<Ev>> = crate::audit::MergeAudit::new();
    let mut frontier: Vec<Vec<Ev>> = vec![vec![]];
    let mut quiescent = 0u64;
    while !frontier.is_empty() {
        let results = par_map(&frontier, workers(), |_, h| {
            let mut r = rep.child();
            let Some(net) = replay(f, ca, cb, block_of, h, &mut r, &case) else { return (r, vec![]) };
            let evs = enabled(&net, 2);
            if evs.is_empty() {
                r.evaluations += 1;
                check_quiescent(f, &net, ca, cb, h, &mut r, &case, "all-orders");
                if A_BATCH.load(std::sync::atomic::Ordering::SeqCst) != 0 && net.a.tip() == net.b.tip() {
                    follow_growth(f, net, ca, cb, block_of, &mut r, &case, h);
                }
                return (r, vec![]);
            }
            let mut out = vec![];
            for ev in evs {
                let mut hh = h.clone();
                hh.push(ev);
                r.transitions += 1;
                let Some(n2) = replay(f, ca, cb, block_of, &hh, &mut r, &case) else { continue };
                r.traces_validated += 1;
                out.push((hh, digest(&n2)));
            }
            (r, out)
        });
        let mut next = vec![];
        for (r, outs) in results {
            quiescent += r.evaluations;
            rep.merge(r);
            for (h, d) in outs {
                if seen.see(d, &h) {
                    next.push(h);
                }
            }
        }
        if seen.len() > cap {
            rep.exhaustive = false;
            rep.extra.insert(format!("state_cap_hit a{:?} b{:?}", ca, cb), json!(seen.len()));
            break;
        }
        frontier = next;
    }
    rep.states += seen.len() as u64;
    rep.outcome_n("schedules:quiescent-states", quiescent);
    for d in seen.rep_of.keys() {
        rep.distinct.insert(hex::encode(&d[0..8]));
    }
    // canonicalisation audit: merged histories agree with their representative one step on
    {
        let quiet = Report::new("C15", Tier { thorough: false, seed: 0 }, "model_checking");
        seen.audit(40, &format!("sync-bfs-a{}-{}-b{}-{}", ca.0, ca.1, cb.0, cb.1), |h: &Vec<Ev>| {
            let Some(net) = replay(f, ca, cb, block_of, h, &mut quiet.child(), &case) else { return vec![("replay-failed".to_string(), None)] };
            let evs = enabled(&net, 2);
            drop(net);
            evs.into_iter()
                .map(|ev| {
                    let mut hh = h.clone();
                    hh.push(ev);
                    (format!("{:?}", ev), replay(f, ca, cb, block_of, &hh, &mut quiet.child(), &case).map(|n2| digest(&n2)))
                })
                .collect()
        }, rep);
    }
}

pub fn main(tier: Tier, replay_file: Option<String>) -> i32 {
    let mut rep = Report::new("C15", tier.clone(), "model_checking");
    let n = if replay_file.is_some() { 12 } else { 120 };
    // quick: every chain length up to 120 (all fork-id checkpoints up to 100), forks at a
    // selection of points around them; thorough: every fork point
    let quick_forks: Vec<usize> = vec![0, 1, 2, 3, 4, 5, 6, 7, 8, 9, 10, 11, 12, 15, 17, 18, 19, 20, 21, 25, 27, 29, 30, 31, 39, 40, 41, 49, 50, 51, 60, 74, 75, 76, 99, 100, 101, 110];
    rep.bounds = json!({
        "grid_trunk_length": n,
        "grid_fork_points": if tier.thorough { json!("all") } else { json!(quick_forks) },
        "grid": "every ordered pair of chains trunk[..p]+branch_p[..a], p+a<=N",
        "schedule_worlds": "prefix 0..2, A suffix 0..2, B suffix longer by 1..2; every order of wire deliveries, fetch completions, internal channel heads, <=2 timer ticks",
        "fifo_worlds": "chain lengths around the fork-id checkpoints (10..25 quick; also 60..110 thorough)",
    });
    rep.rule = "part 1: exhaustive evaluation of the real generate_fork_id / generate_last_shared_ancestor over all ordered chain pairs of a forest of real blocks; part 2: explicit-state BFS over delivery orders between two real FullNodes, state = history deduplicated by digest of both nodes, wires and fetches".into();
    rep.assumptions = vec!["block fetches complete independently and in any order; wire messages per direction are FIFO".into(), "keys and timestamps are fixed, so block hashes (and chance agreements of hash bytes) are the same on every run".into()];
    let built = if tier.thorough || replay_file.is_some() { Forest::build(n) } else { Forest::build_sparse(n, &quick_forks) };
    let f = match built {
        Ok(f) => f,
        Err(e) => {
            rep.machinery(format!("forest: {}", e));
            return rep.finish();
        }
    };
    if replay_file.is_none() {
        grid(&f, &mut rep);
    }
    // block store served to A
    let mut block_of: BTreeMap<Hash, Vec<u8>> = BTreeMap::new();
    for (i, b) in f.trunk.iter().enumerate() {
        block_of.insert(f.trunk_hash[i], b.clone());
    }
    for (p, v) in f.branch.iter().enumerate() {
        for (j, b) in v.iter().enumerate() {
            block_of.insert(f.branch_hash[p][j], b.clone());
        }
    }
    if let Some(file) = replay_file {
        let txt = std::fs::read_to_string(&file).unwrap_or_default();
        let v: serde_json::Value = serde_json::from_str(&txt).unwrap_or_default();
        let c = &v["case"];
        let g = |x: &serde_json::Value| (x["fork_after"].as_u64().unwrap_or(0) as usize, x["branch_len"].as_u64().unwrap_or(0) as usize);
        let (ca, cb) = (g(&c["a"]), g(&c["b"]));
        let mut all = vec![Ev::ToA, Ev::ToB, Ev::TickA];
        for k in 0..4 {
            all.push(Ev::FetchA(k));
        }
        for ch in [Chan::Verify, Chan::Consensus, Chan::Routing] {
            all.push(Ev::IntA(ch));
            all.push(Ev::IntB(ch));
        }
        let hist: Vec<Ev> = c["history"].as_array().map(|a| a.iter().filter_map(|x| all.iter().find(|e| Some(format!("{:?}", e).as_str()) == x.as_str()).cloned()).collect()).unwrap_or_default();
        println!("replaying a{:?} b{:?} {:?}", ca, cb, hist);
        let case = json!({"a": c["a"], "b": c["b"]});
        if let Some(net) = replay(&f, ca, cb, &block_of, &hist, &mut rep, &case) {
            println!("A tip {:?} B tip {:?} enabled {:?}", net.a.tip().0, net.b.tip().0, enabled(&net, 2));
            if enabled(&net, 2).is_empty() {
                check_quiescent(&f, &net, ca, cb, &hist, &mut rep, &case, "all-orders");
            }
        }
        return rep.finish();
    }
    // part 2a: all orders, tiny worlds
    let mut worlds = vec![];
    for p in 0..=2usize {
        for a in 0..=(if tier.thorough { 2 } else { 1 }) {
            for extra in 1..=2usize {
                if p + a == 0 && false {
                    continue;
                }
                // B on the trunk (longer), A on branch p with a blocks
                let b_len = p + a + extra;
                if b_len <= f.n {
                    worlds.push(((p, a), (b_len, 0usize)));
                }
            }
        }
    }
    let cap = if tier.thorough { 150_000 } else { 25_000 };
    for (ca, cb) in worlds.iter() {
        explore(&f, *ca, *cb, &block_of, &mut rep, cap);
    }
    // the same worlds with a serving node that followed A's branch before its own chain won
    B_SAW_A.store(true, std::sync::atomic::Ordering::SeqCst);
    for (ca, cb) in worlds.iter().filter(|(ca, _)| ca.1 > 0).take(if tier.thorough { usize::MAX } else { 2 }) {
        explore(&f, *ca, *cb, &block_of, &mut rep, cap);
        rep.outcome("schedules:world-with-a-server-that-saw-the-requesters-branch");
    }
    B_SAW_A.store(false, std::sync::atomic::Ordering::SeqCst);
    // forked worlds once more with a syncing node that has completed its initial loading
    A_LOADED.store(true, std::sync::atomic::Ordering::SeqCst);
    // (with a two-block branch at A also in the quick tier: then two of B's blocks lie at or below
    // A's tip and can arrive child first)
    let mut loaded_worlds: Vec<((usize, usize), (usize, usize))> = worlds.iter().filter(|(ca, _)| ca.1 > 0).take(if tier.thorough { usize::MAX } else { 2 }).cloned().collect();
    if !loaded_worlds.contains(&((1, 2), (4, 0))) {
        loaded_worlds.push(((1, 2), (4, 0)));
    }
    for (ca, cb) in loaded_worlds.iter() {
        explore(&f, *ca, *cb, &block_of, &mut rep, cap);
        rep.outcome("schedules:world-with-a-syncing-node-that-completed-loading");
    }
    // the loaded worlds once more with a single fetch slot; from every quiescent state the peer then
    // grows by two blocks and the syncing node must follow
    A_BATCH.store(1, std::sync::atomic::Ordering::SeqCst);
    for (ca, cb) in loaded_worlds.iter() {
        explore(&f, *ca, *cb, &block_of, &mut rep, cap);
        rep.outcome("schedules:world-with-a-single-fetch-slot-and-a-growing-peer");
    }
    A_BATCH.store(0, std::sync::atomic::Ordering::SeqCst);
    A_LOADED.store(false, std::sync::atomic::Ordering::SeqCst);
    rep.outcome_n("schedules:worlds", worlds.len() as u64);
    // part 2b: default order, long chains
    let mut fifo = vec![];
    let lens: Vec<usize> = if tier.thorough { vec![9, 10, 11, 19, 20, 21, 25, 35, 60, 61, 99, 100, 110] } else { vec![9, 10, 11, 20, 21, 30] };
    for &la in lens.iter() {
        for &lb in lens.iter() {
            if lb <= la || lb > f.n {
                continue;
            }
            // A a trunk prefix
            fifo.push(((la, 0usize), (lb, 0usize)));
            // A forked off 3 and 12 blocks before its tip
            for back in [3usize, 12] {
                if la > back {
                    fifo.push(((la - back, back), (lb, 0)));
                }
            }
        }
    }
    // empty A
    for &lb in lens.iter() {
        if lb <= f.n {
            fifo.push(((0, 0), (lb, 0)));
        }
    }
    let res = par_map(&fifo, workers(), |_, (ca, cb)| {
        let mut r = rep.child();
        run_fifo(&f, *ca, *cb, &block_of, &mut r);
        r
    });
    for r in res {
        rep.merge(r);
    }
    B_SAW_A.store(true, std::sync::atomic::Ordering::SeqCst);
    let forked: Vec<_> = fifo.iter().filter(|(ca, _)| ca.1 > 0).cloned().collect();
    let res = par_map(&forked, workers(), |_, (ca, cb)| {
        let mut r = rep.child();
        run_fifo(&f, *ca, *cb, &block_of, &mut r);
        r.outcome("fifo:world-with-a-server-that-saw-the-requesters-branch");
        r
    });
    B_SAW_A.store(false, std::sync::atomic::Ordering::SeqCst);
    for r in res {
        rep.merge(r);
    }
    // every long world once more with the fetches completing newest first
    let res = par_map(&fifo, workers(), |_, (ca, cb)| {
        let mut r = rep.child();
        run_sched(&f, *ca, *cb, &block_of, &mut r, true);
        r.outcome("newest-fetch-first:world");
        r
    });
    for r in res {
        rep.merge(r);
    }
    A_LOADED.store(true, std::sync::atomic::Ordering::SeqCst);
    let res = par_map(&forked, workers(), |_, (ca, cb)| {
        let mut r = rep.child();
        run_fifo(&f, *ca, *cb, &block_of, &mut r);
        run_sched(&f, *ca, *cb, &block_of, &mut r, true);
        run_sched_mode(&f, *ca, *cb, &block_of, &mut r, 2);
        r.outcome("fifo:world-with-a-syncing-node-that-completed-loading");
        r
    });
    for r in res {
        rep.merge(r);
    }
    // every long world (shorter, empty and forked A) with announcements arriving newest first
    // (not for an empty A: it adopts the first block it is given, here the peer's tip, and by design
    // never asks for what lies below it)
    let nonempty: Vec<_> = fifo.iter().filter(|(ca, _)| ca.0 + ca.1 > 0).cloned().collect();
    let res = par_map(&nonempty, workers(), |_, (ca, cb)| {
        let mut r = rep.child();
        run_sched_mode(&f, *ca, *cb, &block_of, &mut r, 2);
        run_sched_mode(&f, *ca, *cb, &block_of, &mut r, 4);
        if tier.thorough {
            run_sched_mode(&f, *ca, *cb, &block_of, &mut r, 3);
        }
        r.outcome("newest-announcement-first:world");
        r
    });
    A_LOADED.store(false, std::sync::atomic::Ordering::SeqCst);
    for r in res {
        rep.merge(r);
    }
    // one fetch at a time: a syncing node configured with block_fetch_batch_size 1 has a single
    // slot per peer, so anything that keeps a slot occupied after its fetch is over (a refused
    // dispatch, a completion that is not accounted) stops the sync at once; every long world under
    // the four fixed schedules, with a loading and with a loaded syncing node
    A_BATCH.store(1, std::sync::atomic::Ordering::SeqCst);
    for loaded in [false, true] {
        A_LOADED.store(loaded, std::sync::atomic::Ordering::SeqCst);
        let worlds: &Vec<_> = if loaded { &nonempty } else { &fifo };
        let res = par_map(worlds, workers(), |_, (ca, cb)| {
            let mut r = rep.child();
            run_fifo(&f, *ca, *cb, &block_of, &mut r);
            run_sched(&f, *ca, *cb, &block_of, &mut r, true);
            if loaded {
                run_sched_mode(&f, *ca, *cb, &block_of, &mut r, 2);
                run_sched_mode(&f, *ca, *cb, &block_of, &mut r, 3);
                run_sched_mode(&f, *ca, *cb, &block_of, &mut r, 4);
            }
            r.outcome(if loaded { "single-fetch-slot:loaded-world" } else { "single-fetch-slot:loading-world" });
            r
        });
        for r in res {
            rep.merge(r);
        }
    }
    A_LOADED.store(false, std::sync::atomic::Ordering::SeqCst);
    A_BATCH.store(0, std::sync::atomic::Ordering::SeqCst);
    rep.outcome_n("fifo:worlds", (fifo.len() + 2 * forked.len()) as u64);
    rep.sample(json!({"a": {"fork_after": 2, "branch_len": 1}, "b": {"fork_after": 5, "branch_len": 0}}));
    rep.required_outcomes = vec!["grid:chains".into(), "converged/fifo".into(), "converged/all-orders".into()];
    rep.finish()
}
