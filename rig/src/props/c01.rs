//! C01 — only authorised, existing, unspent outputs are ever spent.
//! positions (chain states) x catalogue of adversarial edits x placements x four gates.

use std::collections::BTreeSet;

use saito_core::core::consensus::peers::peer_collection::PeerCollection;
use saito_core::core::consensus::slip::{Slip, SlipType};
use saito_core::core::consensus::transaction::{Transaction, TransactionType};
use saito_core::core::consensus_thread::ConsensusEvent;
use saito_core::core::defs::StatVariable;
use saito_core::core::util::crypto::verify_signature;
use saito_core::core::verification_thread::VerificationThread;
use serde_json::{json, Value};
use std::sync::Arc;

use crate::exec::{run, Outcome};
use crate::factory::{World, HEARTBEAT};
use crate::lock::RwLock;
use crate::node::*;
use crate::report::{par_map, workers, Report, Tier};
use crate::seams::{key, Cfg, Key};

pub const ATTACKER: u8 = 3;
pub const VICTIM: u8 = 2;

#[derive(Clone, Debug)]
pub struct Candidate {
    pub edit: String,
    pub tx: Transaction,
    /// second adversarial transaction for edits that need two (same input in two txs)
    pub tx2: Option<Transaction>,
    /// true = the edited transaction is in fact legitimate (control): must be accepted
    pub control: bool,
}

/// the property's authorisation predicate, from the reference ledger at the parent
pub fn authorised(tx: &Transaction, l: &RefLedger, h: u64, g: u64) -> Result<(), String> {
    let user = matches!(
        tx.transaction_type,
        TransactionType::Normal | TransactionType::Bound | TransactionType::BlockStake | TransactionType::GoldenTicket | TransactionType::Vip
    );
    let mut t = tx.clone();
    t.generate_hash_for_signature();
    let value_inputs: Vec<&Slip> = tx.from.iter().filter(|s| s.amount > 0).collect();
    if value_inputs.is_empty() {
        // nothing is spent; outputs may not create value
        let out: u128 = tx.to.iter().filter(|s| s.slip_type != SlipType::Bound).map(|s| s.amount as u128).sum();
        if out > 0 {
            return Err("creates value from no input".into());
        }
        return Ok(());
    }
    if !user {
        return Err(format!("{} transaction carries value inputs from a user", tx_type_name(tx.transaction_type)));
    }
    if tx.from.is_empty() {
        return Err("no sender".into());
    }
    let signer = tx.from[0].public_key;
    if !verify_signature(&t.hash_for_signature.unwrap(), &tx.signature, &signer) {
        return Err("signature does not verify under from[0]".into());
    }
    let mut seen = BTreeSet::new();
    let mut tin: u128 = 0;
    for s in value_inputs.iter() {
        let k = s.get_utxoset_key();
        if !seen.insert(k) {
            return Err("same output referenced twice".into());
        }
        if !l.utxo.contains(&k) {
            return Err(format!("input {}-{}-{} amt {} not an unspent output of this chain", s.block_id, s.tx_ordinal, s.slip_index, s.amount));
        }
        if s.public_key != signer {
            return Err("input owned by a key that did not sign".into());
        }
        if s.block_id + g + 1 <= h {
            return Err(format!("input created at {} is outside the window at height {}", s.block_id, h));
        }
        if s.slip_type != SlipType::Bound {
            tin += s.amount as u128;
        }
    }
    let tout: u128 = tx.to.iter().filter(|s| s.slip_type != SlipType::Bound).map(|s| s.amount as u128).sum();
    if tout > tin {
        return Err(format!("outputs {} exceed inputs {}", tout, tin));
    }
    Ok(())
}


pub struct Position {
    pub name: String,
    pub w: World,
    pub tip: usize,
    /// for side-chain placement: (old tip to deliver first, side parent) — the adversarial block completes the side chain
    pub side: Option<(usize, usize)>,
    pub spent_elsewhere: Option<Slip>,
    pub expired_present: Option<Slip>,
    /// blocks delivered to the node under test after the path to `tip` (a fork whose adoption
    /// fails part-way): the tip stays where it was
    pub prelude: Vec<Vec<u8>>,
    /// an output coordinate that only a rejected block of the prelude named as its input
    pub phantom: Option<Slip>,
    /// when set: the node under test is not fed the path to `tip` but these blocks in this order
    /// (it witnessed a fork and reorganised), with this prune_after_blocks setting
    pub witnessed: Option<(Vec<usize>, u64)>,
    /// an output that exists only on a fork the node abandoned
    pub abandoned_output: Option<Slip>,
}

fn world(g: u64) -> World {
    let mut w = World::new(Cfg::new(g, HEARTBEAT));
    let k = |i: u8| key(i).public;
    w.genesis(
        &[
            (k(1), 1_000_000),
            (k(1), 2_000_000),
            (k(1), 3_000_000),
            (k(1), 4_000_000),
            (k(2), 5_000_000),
            (k(2), 6_000_000),
            (k(0), 7_000_000),
            (k(3), 8_000_000),
            (k(3), 8_500_000),
            (k(3), 8_700_000),
        ],
        1_000_000,
    );
    w
}

pub fn positions(tier: &Tier) -> Result<Vec<Position>, String> {
    let mut out = vec![];
    // fresh chain
    {
        let mut w = world(10);
        let a = w.honest_child(0, 0, "F2")?;
        let b = w.honest_child(a, 0, "F3")?;
        out.push(Position { name: "fresh".into(), w, tip: b, side: None, spent_elsewhere: None, expired_present: None, prelude: vec![], phantom: None, witnessed: None, abandoned_output: None });
    }
    // after a reorganisation: X1 loses against Y1,Y2; an output spent only on X is spendable again
    {
        let mut w = world(10);
        let s = w.honest_child(0, 0, "R2")?;
        // X1 spends K3's first output
        let ts = w.child_ts(s, 1);
        let k3 = key(ATTACKER);
        let sl = w.ledgers[s].unspent_of(&k3.public)[0].clone();
        let tx = w.spend(&sl, &k3, &key(1).public, 10, 0, ts);
        let x1 = w.build(s, ts, None, vec![tx], "X1")?;
        let y1 = w.honest_child(s, 2, "Y1")?;
        let y2 = w.honest_child(y1, 2, "Y2")?;
        let _ = x1;
        out.push(Position { name: "after-reorg".into(), w, tip: y2, side: Some((x1, y1)), spent_elsewhere: Some(sl), expired_present: None, prelude: vec![], phantom: None, witnessed: None, abandoned_output: None });
    }
    // window wrapped (g=3), zero fees: expired outputs were rebroadcast
    {
        let mut w = world(3);
        let mut t = 0;
        for i in 0..8 {
            t = w.honest_child(t, 0, &format!("W{}", i + 2))?;
        }
        out.push(Position { name: "wrapped-g3".into(), w, tip: t, side: None, spent_elsewhere: None, expired_present: None, prelude: vec![], phantom: None, witnessed: None, abandoned_output: None });
    }
    // a node that joined mid-chain: its first block is block 3 of a chain at genesis period 3; by
    // design it cannot check the inputs of blocks 4..6 (they may come from blocks it never had),
    // but every input admissible in block 7 was created in blocks 4..6, which it wound itself:
    // from block 7 on its checks are those of every other node
    {
        let mut w = world(3);
        let mut t = 0;
        for i in 0..5 {
            t = w.honest_child(t, 0, &format!("J{}", i + 2))?;
        }
        let order: Vec<usize> = w.path(t).into_iter().filter(|&i| w.blocks[i].id >= 3).collect();
        let prune = w.cfg.consensus.prune_after_blocks;
        out.push(Position { name: "node-joined-at-block-3-now-at-3+g".into(), w, tip: t, side: None, spent_elsewhere: None, expired_present: None, prelude: vec![], phantom: None, witnessed: Some((order, prune)), abandoned_output: None });
    }
    // window wrapped four times (g=3): the tip, block 18, sits in slot 0 of the six-slot ring and block 1
    // has been purged; a reorganisation away from it rolls the ring back across its start
    {
        let mut w = world(3);
        let mut t = 0;
        for i in 0..17 {
            t = w.honest_child(t, 0, &format!("Z{}", i + 2))?;
        }
        out.push(Position { name: "wrapped-g3-tip-in-ring-slot-0".into(), w, tip: t, side: None, spent_elsewhere: None, expired_present: None, prelude: vec![], phantom: None, witnessed: None, abandoned_output: None });
    }
    // window wrapped with a fee level >= 1 nolan/byte: a dust output is not rebroadcast but
    // stays in the map until the 2g purge
    if true {
        let mut w = world(3);
        let k1 = key(1);
        let k3 = key(ATTACKER);
        let mut t = 0usize;
        // every block pays a fee (keeps avg_fee_per_byte >= 1); block 5 creates a dust output for
        // the attacker, which is due at block 9 and too small to pay the rebroadcast fee
        let mut dust: Option<Slip> = None;
        for i in 0..8 {
            let ts = w.child_ts(t, 0);
            let id = w.blocks[t].id + 1;
            let sl = w.ledgers[t].unspent_of(&k1.public).into_iter().filter(|s| s.block_id + 3 > id).max_by_key(|s| s.amount).ok_or("k1 empty")?;
            let fee = 5_000;
            if sl.amount <= fee + 100 {
                return Err(format!("k1 ran dry at block {}", id));
            }
            let tx = if id == 5 {
                make_tx(&[sl.clone()], &[(k3.public, 25), (k1.public, sl.amount - fee - 25)], &k1, ts, b"dust")
            } else {
                make_tx(&[sl.clone()], &[(k1.public, sl.amount - fee)], &k1, ts, b"fee")
            };
            t = w.build(t, ts, if id % 2 == 0 { Some(key(0)) } else { None }, vec![tx], &format!("D{}", i + 2))?;
            if id == 5 {
                dust = w.ledgers[t].unspent_of(&k3.public).into_iter().find(|s| s.amount == 25);
            }
        }
        let dust = dust.ok_or("no dust")?;
        let present = w.ledgers[t].utxo.contains(&dust.get_utxoset_key());
        out.push(Position { name: "wrapped-g3-fees".into(), w, tip: t, side: None, spent_elsewhere: None, expired_present: if present { Some(dust) } else { None }, prelude: vec![], phantom: None, witnessed: None, abandoned_output: None });
    }
    // after a reorganisation attempt that failed part-way: R3 is the tip, X3 (sibling of R3) is
    // valid, X4 on top of it spends an output that never existed; the attempt winds X3, fails at
    // X4 and restores R3
    {
        let mut w = world(10);
        let a = w.honest_child(0, 0, "R2")?;
        let b = w.honest_child(a, 0, "R3")?;
        let x3 = w.honest_child(a, 3, "X3")?;
        let att = key(ATTACKER);
        let mut ph = w.ledgers[x3].unspent_of(&att.public).into_iter().next().ok_or("attacker has no output")?;
        ph.tx_ordinal += 40;
        let ts = w.child_ts(x3, 5);
        let tx = make_tx(&[ph.clone()], &[(att.public, ph.amount)], &att, ts, b"phantom");
        let x4 = attacker_block(&w, x3, &Candidate { edit: String::new(), tx, tx2: None, control: false }, false)?;
        let x3_bytes = w.blocks[x3].bytes.clone();
        out.push(Position { name: "after-failed-reorg".into(), w, tip: b, side: None, spent_elsewhere: None, expired_present: None, prelude: vec![x3_bytes, x4], phantom: Some(ph), witnessed: None, abandoned_output: None });
    }
    // a node that keeps only the tip's transactions in memory (prune_after_blocks = 1) followed a
    // two-block fork X1, X2 (X1 carries a payment by the attacker) and then reorganised to Y1..Y3:
    // X1 had already dropped its transactions when it was unwound. Its outputs exist on no chain.
    {
        let mut w = world(10);
        let s = w.honest_child(0, 0, "P2")?;
        let ts = w.child_ts(s, 1);
        let k3 = key(ATTACKER);
        let sl = w.ledgers[s].unspent_of(&k3.public)[0].clone();
        let tx = w.spend(&sl, &k3, &key(1).public, 10, 0, ts);
        let x1 = w.build(s, ts, None, vec![tx], "PX1")?;
        let x2 = w.honest_child(x1, 0, "PX2")?;
        let y1 = w.honest_child(s, 2, "PY1")?;
        let y2 = w.honest_child(y1, 2, "PY2")?;
        let y3 = w.honest_child(y2, 2, "PY3")?;
        let gone = w.ledgers[x1].unspent_of(&k3.public).into_iter().find(|o| o.block_id == w.blocks[x1].id);
        let mut order = w.path(s);
        order.extend([x1, x2, y1, y2, y3]);
        out.push(Position { name: "after-reorg-with-pruned-memory".into(), w, tip: y3, side: None, spent_elsewhere: Some(sl), expired_present: None, prelude: vec![], phantom: None, witnessed: Some((order, 1)), abandoned_output: gone });
    }
    let _ = tier;
    Ok(out)
}

fn retype(mut tx: Transaction, ty: TransactionType, signer: &Key) -> Transaction {
    tx.transaction_type = ty;
    tx.sign(&signer.private);
    tx
}

/// the catalogue, instantiated at a position
pub fn candidates(p: &Position) -> Vec<Candidate> {
    let w = &p.w;
    let l = &w.ledgers[p.tip];
    let g = w.cfg.consensus.genesis_period;
    let h = w.blocks[p.tip].id + 1;
    let ts = w.blocks[p.tip].ts + 77;
    let att = key(ATTACKER);
    let vic = key(VICTIM);
    let in_win = |s: &Slip| s.block_id + g > h;
    let own: Vec<Slip> = l.unspent_of(&att.public).into_iter().filter(|s| in_win(s) && s.amount > 1000).collect();
    let theirs: Vec<Slip> = l.unspent_of(&vic.public).into_iter().filter(|s| in_win(s)).collect();
    let mut v = vec![];
    let (Some(o), Some(t)) = (own.first().cloned(), theirs.first().cloned()) else {
        return v;
    };
    let pay = |s: &Slip| make_tx(&[s.clone()], &[(att.public, s.amount)], &att, ts, b"x");
    // controls
    v.push(Candidate { edit: "control:unedited".into(), tx: pay(&o), tx2: None, control: true });
    if let Some(se) = &p.spent_elsewhere {
        v.push(Candidate { edit: "control:spent-only-on-other-fork".into(), tx: pay(se), tx2: None, control: true });
    }
    // signatures
    let mut x = pay(&o);
    x.signature[3] ^= 0x40;
    v.push(Candidate { edit: "forged-signature".into(), tx: x, tx2: None, control: false });
    let mut x = pay(&o);
    x.signature = [0; 64];
    v.push(Candidate { edit: "zero-signature".into(), tx: x, tx2: None, control: false });
    // victim's output signed by the attacker
    v.push(Candidate { edit: "wrong-key".into(), tx: make_tx(&[t.clone()], &[(att.public, t.amount)], &att, ts, b"x"), tx2: None, control: false });
    // own input first, victim's second
    v.push(Candidate { edit: "foreign-extra-input".into(), tx: make_tx(&[o.clone(), t.clone()], &[(att.public, o.amount + t.amount)], &att, ts, b"x"), tx2: None, control: false });
    // non-existent output
    let mut ne = o.clone();
    ne.tx_ordinal += 40;
    v.push(Candidate { edit: "non-existent-input".into(), tx: pay(&ne), tx2: None, control: false });
    // inflated amount
    let mut inf = o.clone();
    inf.amount += 1_000_000;
    v.push(Candidate { edit: "inflated-amount".into(), tx: pay(&inf), tx2: None, control: false });
    // every position of a bad input in lists of two and three inputs, mixed with the signer's own
    // valued (O) and zero-amount (Z) inputs: a check that stops early or looks at one position only
    {
        let z = out_slip(&att.public, 0);
        let o2 = own.get(1).cloned();
        let mut inf2 = o.clone();
        inf2.amount += 5;
        for (bname, bad) in [("foreign", t.clone()), ("non-existent", ne.clone()), ("inflated", inf2)] {
            let mut lists: Vec<(&str, Vec<Slip>)> = vec![
                ("bad,O", vec![bad.clone(), o.clone()]),
                ("Z,bad", vec![z.clone(), bad.clone()]),
                ("bad,Z", vec![bad.clone(), z.clone()]),
                ("O,Z,bad", vec![o.clone(), z.clone(), bad.clone()]),
                ("Z,O,bad", vec![z.clone(), o.clone(), bad.clone()]),
                ("O,bad,Z", vec![o.clone(), bad.clone(), z.clone()]),
                ("bad,Z,O", vec![bad.clone(), z.clone(), o.clone()]),
                ("Z,Z,bad", vec![z.clone(), z.clone(), bad.clone()]),
            ];
            if bname != "inflated" {
                lists.push(("O,bad", vec![o.clone(), bad.clone()]));
                if let Some(o2) = &o2 {
                    lists.push(("O,O2,bad", vec![o.clone(), o2.clone(), bad.clone()]));
                }
            }
            for (pat, ins) in lists {
                let total: u64 = ins.iter().map(|s| s.amount).sum();
                v.push(Candidate { edit: format!("input-list[{}]:{}", pat, bname), tx: make_tx(&ins, &[(att.public, total)], &att, ts, b"x"), tx2: None, control: false });
            }
        }
        if let Some(o2) = &o2 {
            v.push(Candidate { edit: "control:input-list[O,Z,O2]".into(), tx: make_tx(&[o.clone(), z.clone(), o2.clone()], &[(att.public, o.amount + o2.amount)], &att, ts, b"x"), tx2: None, control: true });
        }
    }
    // already spent on this chain (a genesis output of K1 spent by block 2)
    {
        let first = decode_block(&w.blocks[w.path(p.tip)[1]].bytes);
        if let Some(stx) = first.transactions.iter().find(|t| t.transaction_type == TransactionType::Normal && t.from.iter().any(|s| s.amount > 0)) {
            let sp = stx.from.iter().find(|s| s.amount > 0).unwrap().clone();
            let k1 = key(1);
            let own1 = if sp.public_key == k1.public { k1 } else { key(2) };
            v.push(Candidate { edit: "already-spent-input".into(), tx: make_tx(&[sp.clone()], &[(att.public, sp.amount)], &own1, ts, b"x"), tx2: None, control: false });
            // replay of the very transaction that spent it
            v.push(Candidate { edit: "replayed-transaction".into(), tx: stx.clone(), tx2: None, control: false });
        }
    }
    // created AND spent inside the window (a node that joined mid-chain saw both happen)
    {
        let path = w.path(p.tip);
        'find: for &bi in path.iter().rev().take(2) {
            let blk = decode_block(&w.blocks[bi].bytes);
            for stx in blk.transactions.iter().filter(|t| t.transaction_type == TransactionType::Normal) {
                if let Some(sp) = stx.from.iter().find(|s| s.amount > 0 && in_win(s)) {
                    if let Some(owner) = (0..10u8).map(key).find(|k| k.public == sp.public_key) {
                        v.push(Candidate { edit: "already-spent-recent-input".into(), tx: make_tx(&[sp.clone()], &[(att.public, sp.amount)], &owner, ts, b"x"), tx2: None, control: false });
                        v.push(Candidate { edit: "replayed-recent-transaction".into(), tx: stx.clone(), tx2: None, control: false });
                        break 'find;
                    }
                }
            }
        }
    }
    // created only on a fork the node followed and then abandoned
    if let Some(a) = &p.abandoned_output {
        v.push(Candidate { edit: "output-created-only-on-an-abandoned-fork".into(), tx: pay(a), tx2: None, control: false });
    }
    // named as an input only by a block the node rejected
    if let Some(ph) = &p.phantom {
        v.push(Candidate { edit: "input-named-only-by-a-rejected-block".into(), tx: pay(ph), tx2: None, control: false });
    }
    // expired but still present
    if let Some(e) = &p.expired_present {
        v.push(Candidate { edit: "expired-input".into(), tx: pay(e), tx2: None, control: false });
    }
    // duplicate input inside one transaction
    v.push(Candidate { edit: "duplicate-input-in-tx".into(), tx: make_tx(&[o.clone(), o.clone()], &[(att.public, 2 * o.amount)], &att, ts, b"x"), tx2: None, control: false });
    // same input in two transactions of one block
    // (both fee-less, so that the block's totals stay right and only the double spend can be the reason)
    v.push(Candidate { edit: "same-input-in-two-txs".into(), tx: pay(&o), tx2: Some(make_tx(&[o.clone()], &[(att.public, o.amount - 1), (key(2).public, 1)], &att, ts + 1, b"y")), control: false });
    // ... and for one own output of every other slip kind the attacker holds here (payout,
    // rebroadcast outputs): the in-block double-spend rule must not depend on the kind
    {
        let mut kinds: BTreeSet<String> = BTreeSet::new();
        kinds.insert(format!("{:?}", o.slip_type));
        for s in own.iter() {
            if s.slip_type != SlipType::Bound && kinds.insert(format!("{:?}", s.slip_type)) {
                v.push(Candidate { edit: format!("same-input-in-two-txs:{:?}", s.slip_type), tx: pay(s), tx2: Some(make_tx(&[s.clone()], &[(att.public, s.amount - 1), (key(2).public, 1)], &att, ts + 1, b"y")), control: false });
            }
        }
    }
    // retagged Bound
    let mut bo = o.clone();
    bo.slip_type = SlipType::Bound;
    v.push(Candidate { edit: "input-retagged-bound".into(), tx: make_tx(&[bo], &[(att.public, o.amount)], &att, ts, b"x"), tx2: None, control: false });
    // outputs exceeding inputs
    v.push(Candidate { edit: "outputs-exceed-inputs".into(), tx: make_tx(&[o.clone()], &[(att.public, o.amount + 1)], &att, ts, b"x"), tx2: None, control: false });
    // wrap-around: two outputs summing to a small number modulo 2^64
    v.push(Candidate { edit: "outputs-wrap-u64".into(), tx: make_tx(&[o.clone()], &[(att.public, u64::MAX), (att.public, o.amount + 1)], &att, ts, b"x"), tx2: None, control: false });
    // look-up dependent edits under every user-signable type (properly signed by the owner)
    for ty in [TransactionType::GoldenTicket, TransactionType::Vip, TransactionType::BlockStake] {
        let mk = |s: &Slip, signer: &Key| {
            let mut x = make_tx(&[s.clone()], &[(signer.public, s.amount)], signer, ts, b"x");
            x.transaction_type = ty;
            if ty == TransactionType::GoldenTicket {
                x.data = vec![7u8; 97];
            }
            x.sign(&signer.private);
            x
        };
        v.push(Candidate { edit: format!("non-existent-input-typed-{}", tx_type_name(ty)), tx: mk(&ne, &att), tx2: None, control: false });
        v.push(Candidate { edit: format!("inflated-amount-typed-{}", tx_type_name(ty)), tx: mk(&inf, &att), tx2: None, control: false });
        if let Some(e) = &p.expired_present {
            v.push(Candidate { edit: format!("expired-input-typed-{}", tx_type_name(ty)), tx: mk(e, &att), tx2: None, control: false });
        }
        let first = decode_block(&w.blocks[w.path(p.tip)[1]].bytes);
        if let Some(stx) = first.transactions.iter().find(|t| t.transaction_type == TransactionType::Normal && t.from.iter().any(|s| s.amount > 0)) {
            let sp = stx.from.iter().find(|s| s.amount > 0).unwrap().clone();
            let owner = if sp.public_key == key(1).public { key(1) } else { key(2) };
            v.push(Candidate { edit: format!("already-spent-input-typed-{}", tx_type_name(ty)), tx: mk(&sp, &owner), tx2: None, control: false });
        }
    }
    // privileged types used as bypass: theft of the victim's output, signed by the attacker
    for ty in [
        TransactionType::ATR,
        TransactionType::Issuance,
        TransactionType::Fee,
        TransactionType::SPV,
        TransactionType::Vip,
        TransactionType::BlockStake,
        TransactionType::GoldenTicket,
        TransactionType::Bound,
    ] {
        let base = make_tx(&[t.clone()], &[(att.public, t.amount)], &att, ts, b"x");
        let mut x = retype(base, ty, &att);
        if ty == TransactionType::GoldenTicket {
            // well-formed golden ticket payload so that decoding it cannot be the reason for rejection
            x.data = vec![7u8; 97];
            x.sign(&att.private);
        }
        v.push(Candidate { edit: format!("theft-typed-{}", tx_type_name(ty)), tx: x, tx2: None, control: false });
        // value from nothing under a privileged type
        let mut y = make_tx(&[], &[(att.public, 123_456)], &att, ts, b"x");
        y.transaction_type = ty;
        if ty == TransactionType::GoldenTicket {
            y.data = vec![7u8; 97];
        }
        y.sign(&att.private);
        v.push(Candidate { edit: format!("mint-typed-{}", tx_type_name(ty)), tx: y, tx2: None, control: false });
    }
    v
}

/// For C13 ("no other output is rebroadcast"): at every chain position (rebroadcasts due or not)
/// an attacker-produced block carries a rebroadcast-typed transaction that moves the victim's
/// output, or creates value, with Normal- or ATR-typed outputs. None may be accepted.
pub fn forged_rebroadcasts(rep: &mut Report, tier: &Tier) {
    let ps = match positions(tier) {
        Ok(p) => p,
        Err(e) => {
            rep.machinery(format!("forged rebroadcasts: {}", e));
            return;
        }
    };
    for p in ps.iter() {
        let due = p.w.blocks[p.tip].id + 1 > p.w.cfg.consensus.genesis_period + 1;
        for c in candidates(p).into_iter().filter(|c| c.edit.ends_with("typed-ATR")) {
            for atr_outputs in [false, true] {
                let mut c2 = Candidate { edit: format!("{}{}", c.edit, if atr_outputs { "/atr-typed-outputs" } else { "" }), tx: c.tx.clone(), tx2: None, control: false };
                if atr_outputs {
                    for s in c2.tx.to.iter_mut() {
                        s.slip_type = SlipType::ATR;
                    }
                    c2.tx.sign(&key(ATTACKER).private);
                }
                for (first, side) in [(false, false), (true, false), (false, true)] {
                    if side && p.side.is_none() {
                        continue;
                    }
                    rep.evaluations += 1;
                    let (v, d) = gate_block(&p.w, p, p.tip, &c2, first, side);
                    let gate = if side { "side-chain" } else if first { "tip-first" } else { "tip" };
                    match v {
                        Verdict::Accepted => rep.violate(&format!("forged-rebroadcast-accepted/{}/{}", c2.edit, if due { "rebroadcasts-due" } else { "no-rebroadcast-due" }), format!("{} at {} through block:{}", c2.edit, p.name, gate), json!({"position": p.name, "edit": c2.edit, "gate": gate})),
                        Verdict::Abort(m) => rep.violate(&format!("abort/forged-rebroadcast/{}", c2.edit), format!("{} at {} through block:{}: {}", c2.edit, p.name, gate, m), json!({"position": p.name, "edit": c2.edit, "gate": gate})),
                        Verdict::Rejected => {
                            let _ = d;
                            rep.outcome(if due { "forged-rebroadcast-refused:rebroadcasts-due" } else { "forged-rebroadcast-refused:no-rebroadcast-due" });
                        }
                    }
                }
            }
        }
    }
}

pub fn verifier(n: &LedgerNode) -> (VerificationThread, tokio::sync::mpsc::Receiver<ConsensusEvent>, tokio::sync::mpsc::Receiver<String>) {
    let (s, r) = tokio::sync::mpsc::channel(1000);
    let (ss, sr) = tokio::sync::mpsc::channel(1000);
    let st = |n: &str| StatVariable::new(n.to_string(), 3, ss.clone());
    (
        VerificationThread {
            sender_to_consensus: s,
            blockchain_lock: n.blockchain.clone(),
            peer_lock: Arc::new(RwLock::new(PeerCollection::default())),
            wallet_lock: n.wallet.clone(),
            processed_txs: st("a"),
            processed_blocks: st("b"),
            processed_msgs: st("c"),
            invalid_txs: st("d"),
            stat_sender: ss.clone(),
        },
        r,
        sr,
    )
}

#[derive(Debug, Clone, PartialEq)]
enum Verdict {
    Accepted,
    Rejected,
    Abort(String),
}

fn gate_pool(n: &LedgerNode, tx: &Transaction) -> Verdict {
    let bc = n.blockchain.clone();
    let mp = n.mempool.clone();
    let t = tx.clone();
    let sig = tx.signature;
    match run(async move {
        let bc = bc.read().await;
        let mut mp = mp.write().await;
        mp.add_transaction_if_validates(t, &bc).await;
        mp.transactions.contains_key(&sig)
    }) {
        Outcome::Done(true) => Verdict::Accepted,
        Outcome::Done(false) => Verdict::Rejected,
        o => Verdict::Abort(o.label()),
    }
}

/// Gate: the transaction comes back into the node's pool out of a refused block. A block that names
/// the node itself as creator (signed by somebody else, so it is refused) has its transactions put
/// back into the pool; what the pool takes that way is subject to the same rules as its front door.
/// None when the block is not refused or cannot be built.
fn gate_returned_to_pool(w: &World, p: &Position, tip: usize, c: &Candidate) -> Option<Verdict> {
    let bytes = attacker_block(w, tip, c, false).ok()?;
    let mut b = decode_block(&bytes);
    let mut n = node_with_prelude(p, tip).ok()?;
    b.creator = n.key.public;
    let forged = crate::node::block_bytes(&b);
    let before = n.tip();
    match n.add_block_bytes(&forged) {
        Outcome::Done(_) => {}
        o => return Some(Verdict::Abort(o.label())),
    }
    if n.tip() != before {
        return None;
    }
    let sig = c.tx.signature;
    let pooled = n.mempool.try_read().map(|m| m.transactions.contains_key(&sig)).unwrap_or(false);
    Some(if pooled { Verdict::Accepted } else { Verdict::Rejected })
}

fn gate_verify(n: &LedgerNode, tx: &Transaction) -> Verdict {
    let (mut v, mut r, _sr) = verifier(n);
    let t = tx.clone();
    match run(async move {
        v.verify_tx(t).await;
    }) {
        Outcome::Done(()) => {
            if r.try_recv().is_ok() {
                Verdict::Accepted
            } else {
                Verdict::Rejected
            }
        }
        o => Verdict::Abort(o.label()),
    }
}

/// block gates: the attacker produces a block carrying the candidate on `parent`
pub fn attacker_block(w: &World, parent: usize, c: &Candidate, first: bool) -> Result<Vec<u8>, String> {
    let att = key(ATTACKER);
    let node = w.node_at(parent, att)?;
    let ts = w.child_ts(parent, 500);
    let id = w.blocks[parent].id + 1;
    let mut txs = vec![];
    // the honest by-stander must not collide with the candidate's own inputs
    let honest = w.payment(parent, &key(1), &key(2).public, 321, 0, ts).filter(|h| !h.from.iter().any(|a| c.tx.from.iter().any(|b| a.get_utxoset_key() == b.get_utxoset_key())));
    if !first {
        if let Some(h) = honest.clone() {
            txs.push(h);
        }
    }
    txs.push(c.tx.clone());
    // the second transaction of a pair is inserted by hand below: an honest producer refuses to
    // assemble two spenders of one output, an attacker signs whatever it likes
    if first {
        if let Some(h) = honest {
            txs.push(h);
        }
    }
    // golden ticket by the attacker on even ids keeps the density rule out of the picture
    let gt = if id % 2 == 0 { Some(att) } else { None };
    let desired: Vec<Transaction> = txs
        .iter()
        .map(|t| {
            let mut t = t.clone();
            t.generate(&att.public, 0, 0);
            t
        })
        .collect();
    let mut b = w.produce_on(&node, parent, ts, gt, txs)?;
    // Block::create orders pooled transactions by hash-map order: put ours in the wanted order
    let sigs: Vec<_> = desired.iter().map(|t| t.signature).collect();
    let slots: Vec<usize> = b.transactions.iter().enumerate().filter(|(_, t)| sigs.contains(&t.signature) && t.transaction_type != TransactionType::Fee).map(|(i, _)| i).collect();
    if slots.len() == desired.len() {
        for (k, idx) in slots.iter().enumerate() {
            b.transactions[*idx] = desired[k].clone();
        }
    }
    if let Some(t2) = &c.tx2 {
        let mut t2 = t2.clone();
        t2.generate(&att.public, 0, 0);
        let at = b.transactions.iter().position(|t| t.signature == c.tx.signature).map(|i| i + 1).unwrap_or(b.transactions.len());
        b.transactions.insert(at, t2);
    }
    b.created_hashmap_of_slips_spent_this_block = true;
    b.merkle_root = b.generate_merkle_root(false, false);
    b.sign(&att.private);
    if b.generate().is_err() {
        return Err("generate failed".into());
    }
    Ok(block_bytes(&b))
}

/// the node under test for the pool / verification gates: genesis..tip, then the position's prelude
/// genesis..tip in order, or (at the position's own tip) the deliveries the position prescribes
fn base_node(p: &Position, tip: usize) -> Result<LedgerNode, String> {
    match &p.witnessed {
        Some((order, prune)) if tip == p.tip => {
            let mut cfg = p.w.cfg.clone();
            cfg.consensus.prune_after_blocks = *prune;
            let mut n = LedgerNode::new(key(9), cfg);
            for &i in order.iter() {
                if !n.add_block_bytes(&p.w.blocks[i].bytes).is_done() {
                    return Err(format!("witnessed delivery of {} aborted", p.w.blocks[i].label));
                }
            }
            if n.tip().1 != p.w.blocks[tip].hash {
                return Err("the witnessed deliveries do not end on the position's tip".into());
            }
            Ok(n)
        }
        _ => p.w.node_at(tip, key(9)),
    }
}

fn node_with_prelude(p: &Position, tip: usize) -> Result<LedgerNode, String> {
    let mut n = base_node(p, tip)?;
    if tip == p.tip {
        for b in p.prelude.iter() {
            let _ = n.add_block_bytes(b);
        }
        if n.tip().1 != p.w.blocks[tip].hash {
            return Err("prelude moved the tip".into());
        }
    }
    Ok(n)
}

fn gate_block(w: &World, p: &Position, tip: usize, c: &Candidate, first: bool, side: bool) -> (Verdict, String) {
    let (parent, pre): (usize, Vec<usize>) = if side {
        let (old_tip, side_parent) = p.side.unwrap();
        (side_parent, vec![old_tip])
    } else {
        (tip, vec![])
    };
    let bytes = match attacker_block(w, parent, c, first) {
        Ok(b) => b,
        Err(e) => return (Verdict::Rejected, format!("unproducible: {}", e)),
    };
    // node under test: the path to the parent, plus (side placement) the competing tip first
    let mut n = LedgerNode::new(key(9), w.cfg.clone());
    if side {
        // deliver genesis..old_tip, then the side parent as an off-chain block
        for i in w.path(pre[0]) {
            let _ = n.add_block_bytes(&w.blocks[i].bytes);
        }
        let _ = n.add_block_bytes(&w.blocks[parent].bytes);
    } else {
        match base_node(p, parent) {
            Ok(b) => n = b,
            Err(e) => return (Verdict::Rejected, format!("no node: {}", e)),
        }
        if tip == p.tip {
            for b in p.prelude.iter() {
                let _ = n.add_block_bytes(b);
            }
        }
    }
    let before = n.tip();
    match n.add_block_bytes(&bytes) {
        Outcome::Done(AddRes::AddedLongest) => (Verdict::Accepted, String::new()),
        Outcome::Done(r) => {
            let after = n.tip();
            if after != before {
                (Verdict::Accepted, format!("{:?} but tip moved", r))
            } else {
                (Verdict::Rejected, format!("{:?}", r))
            }
        }
        o => (Verdict::Abort(o.label()), String::new()),
    }
}

/// Gate: the adversarial block is the FIRST block of a competing chain. X is a sibling of the
/// node's tip (stored unexamined as a side block), an honest block Y on top of it makes that chain
/// strictly longer, and the reorganisation winds X first. Y is assembled by the attacker's own
/// full node on the unedited twin of X and re-parented onto X. None when the unedited twin does
/// not get adopted this way at this position (gate not applicable).
fn gate_first_of_side_chain(w: &World, p: &Position, tip: usize, c: &Candidate) -> Option<(Verdict, String)> {
    gate_first_of_side_chain_mode(w, p, tip, c, false)
}

/// `via_restart`: the node is a full node writing block files; after the sibling has been stored it
/// is shut down and started again from its own files (the sibling is read back by the start-up
/// loader without ever having been examined), and only then the follower arrives
fn gate_first_of_side_chain_mode(w: &World, p: &Position, tip: usize, c: &Candidate, via_restart: bool) -> Option<(Verdict, String)> {
    use crate::node::{block_bytes, golden_ticket_tx, txmap};
    let pp = w.blocks[tip].parent?;
    let att = key(ATTACKER);
    let g = w.cfg.consensus.genesis_period;
    let l = &w.ledgers[pp];
    let h = w.blocks[pp].id + 1;
    let own = l.unspent_of(&att.public).into_iter().find(|s| s.block_id + g > h && s.amount > 1000)?;
    let control = Candidate { edit: "control".into(), tx: make_tx(&[own.clone()], &[(att.public, own.amount)], &att, w.blocks[pp].ts + 77, b"x"), tx2: None, control: true };
    let x0 = attacker_block(w, pp, &control, false).ok()?;
    let x0b = decode_block(&x0);
    // Y on X0, by the attacker's node
    let mut an = w.node_at(pp, att).ok()?;
    if !matches!(an.add_block_bytes(&x0), Outcome::Done(AddRes::AddedLongest)) {
        return None;
    }
    let yid = x0b.id + 1;
    let yts = x0b.timestamp + crate::factory::SPACING + 9;
    let y = {
        let bc = an.blockchain.clone();
        let cfg = an.cfg.clone();
        let storage = &an.storage;
        let phash = x0b.hash;
        let made = crate::exec::run(async {
            let bc = bc.read().await;
            let difficulty = bc.get_block(&phash).map(|b| b.difficulty).unwrap_or(0);
            let gt = if yid % 2 == 0 {
                let mut t = golden_ticket_tx(phash, difficulty, &att, 0);
                t.generate(&att.public, 0, 0);
                Some(t)
            } else {
                None
            };
            let mut f = make_tx(&[], &[(key(5).public, 0)], &key(5), yts, b"follower");
            f.generate(&att.public, 0, 0);
            let mut map = txmap(vec![f]);
            saito_core::core::consensus::block::Block::create(&mut map, phash, &bc, yts, &att.public, &att.private, gt, &cfg, storage).await
        });
        match made {
            Outcome::Done(Ok(b)) => b,
            _ => return None,
        }
    };
    let reparent = |y: &saito_core::core::consensus::block::Block, new_parent: Hash| {
        let mut c = y.clone();
        c.previous_block_hash = new_parent;
        for i in 0..c.transactions.len() {
            if c.transactions[i].transaction_type == TransactionType::GoldenTicket {
                let mut t = golden_ticket_tx(new_parent, 0, &att, 0);
                t.generate(&att.public, 0, 0);
                c.transactions[i] = t;
            }
        }
        c.created_hashmap_of_slips_spent_this_block = false;
        c.slips_spent_this_block.clear();
        c.merkle_root = [0; 32];
        c.merkle_root = c.generate_merkle_root(false, false);
        c.sign(&att.private);
        let _ = c.generate();
        c
    };
    let run_with = |xbytes: &[u8]| -> Option<Verdict> {
        let xb = decode_block(xbytes);
        let yb = if xb.hash == x0b.hash { y.clone() } else { reparent(&y, xb.hash) };
        if via_restart {
            use crate::props::c12::{deliver, node_cfg, restart};
            if !p.prelude.is_empty() || p.witnessed.is_some() {
                return None;
            }
            let io = crate::seams::MemIO::new();
            let mut fnode = crate::fullnode::FullNode::new(key(9), node_cfg(w), io.clone(), crate::seams::ManualClock::new(5_000_000));
            if !fnode.init().is_done() {
                return None;
            }
            for i in w.path(tip) {
                if !deliver(&mut fnode, &w.blocks[i].bytes).is_done() {
                    return None;
                }
            }
            if fnode.tip().1 != w.blocks[tip].hash {
                return None;
            }
            match deliver(&mut fnode, xbytes) {
                Outcome::Done(()) => {}
                o => return Some(Verdict::Abort(o.label())),
            }
            if fnode.tip().1 != w.blocks[tip].hash {
                return None;
            }
            let mut r = match restart(w, fnode.io.files(), false) {
                Ok(r) => r,
                Err(e) => return Some(Verdict::Abort(format!("restart: {}", e))),
            };
            match deliver(&mut r.n, &block_bytes(&yb)) {
                Outcome::Done(()) => {}
                o => return Some(Verdict::Abort(o.label())),
            }
            return Some(if r.n.tip().1 == yb.hash { Verdict::Accepted } else { Verdict::Rejected });
        }
        let mut n = node_with_prelude(p, tip).ok()?;
        let before = n.tip();
        match n.add_block_bytes(xbytes) {
            Outcome::Done(_) => {}
            o => return Some(Verdict::Abort(o.label())),
        }
        if n.tip() != before {
            return None; // the sibling alone already displaced the tip: not this gate
        }
        match n.add_block_bytes(&block_bytes(&yb)) {
            Outcome::Done(_) => {}
            o => return Some(Verdict::Abort(o.label())),
        }
        Some(if n.tip().1 == yb.hash { Verdict::Accepted } else { Verdict::Rejected })
    };
    if run_with(&x0) != Some(Verdict::Accepted) {
        return None;
    }
    if c.control && c.tx2.is_none() && c.tx.from.iter().filter(|s| s.amount > 0).all(|s| l.utxo.contains(&s.get_utxoset_key())) {
        // the position's own control, where its inputs already exist below the tip
    }
    let x = attacker_block(w, pp, c, false).ok()?;
    run_with(&x).map(|v| (v, String::new()))
}

pub fn main(tier: Tier, _replay: Option<String>) -> i32 {
    let mut rep = Report::new("C01", tier.clone(), "model_checking");
    let ps = match positions(&tier) {
        Ok(p) => p,
        Err(e) => {
            rep.machinery(format!("cannot build positions: {}", e));
            return rep.finish();
        }
    };
    rep.bounds = json!({"positions": ps.iter().map(|p| p.name.clone()).collect::<Vec<_>>(), "gates": ["pool", "verify_tx", "block:tip", "block:tip(first-in-block)", "block:side-chain-completion"], "edits": "catalogue of ~35 (see outcomes)"});
    rep.rule = "position x edit x gate; distinct = (position, edit, gate) triples evaluated with a definite verdict; a triple is non-trivial when its unedited twin is accepted at the same position and gate".into();
    rep.assumptions = vec![
        "the attacker can sign with its own key and the block-creator key it owns, and replay but not forge others' signatures".into(),
        "the window edge is exact: at block h an input created at h-g is inside the window, one created at h-g-1 (the block being rebroadcast by h) is not".into(),
        "reference ledger: set of output coordinates replayed from the harness's own block bytes".into(),
    ];
    // a prelude must really be a part-way failure: blocks wound, then unwound, tip unchanged
    for p in ps.iter().filter(|p| !p.prelude.is_empty()) {
        match p.w.node_at(p.tip, key(9)) {
            Ok(mut n) => {
                let mut last = Outcome::Stalled;
                for b in p.prelude.iter() {
                    last = n.add_block_bytes(b);
                }
                let steps = crate::exec::steps_used();
                if !matches!(last, Outcome::Done(AddRes::Invalid)) || steps < 3 || n.tip().1 != p.w.blocks[p.tip].hash {
                    rep.machinery(format!("position {}: the prelude is not a reorganisation that fails part-way (last result {:?}, {} wind/unwind steps)", p.name, last, steps));
                } else {
                    rep.extra.insert(format!("prelude:{}", p.name), json!({"wind_unwind_steps_of_the_failed_attempt": steps}));
                }
            }
            Err(e) => rep.machinery(format!("position {}: {}", p.name, e)),
        }
    }
    let mut jobs: Vec<(usize, usize, Candidate)> = vec![];
    // the window edge, swept: at every height of the two wrapped chains, every unspent output of
    // every key and every age up to g+3 is spent by its owner; the reference decides which are
    // still inside the window (age <= g) and which are not (age g+1 is the block being rebroadcast)
    for (pi, p) in ps.iter().enumerate() {
        if !p.name.starts_with("wrapped") {
            continue;
        }
        let g = p.w.cfg.consensus.genesis_period;
        let mut n_age = 0;
        for tip in p.w.path(p.tip) {
            let h = p.w.blocks[tip].id + 1;
            if h <= 2 {
                continue;
            }
            let ts = p.w.blocks[tip].ts + 77;
            for ki in 0..6u8 {
                let kk = key(ki);
                for s in p.w.ledgers[tip].unspent_of(&kk.public) {
                    let age = h - s.block_id;
                    if s.amount == 0 || age > g + 3 || s.slip_type == SlipType::Bound {
                        continue;
                    }
                    let tx = make_tx(&[s.clone()], &[(kk.public, s.amount)], &kk, ts, b"age");
                    let rel = age as i64 - g as i64;
                    jobs.push((pi, tip, Candidate { edit: format!("owner-spend-at-age-g{:+}", rel), tx, tx2: None, control: age <= g }));
                    n_age += 1;
                }
            }
        }
        rep.extra.insert(format!("age-sweep:{}", p.name), json!({"spends": n_age}));
    }
    for (pi, p) in ps.iter().enumerate() {
        let cs = candidates(p);
        if cs.len() < 20 {
            rep.machinery(format!("position {} yields only {} candidates (attacker or victim has no in-window output)", p.name, cs.len()));
        }
        rep.extra.insert(format!("position:{}", p.name), json!({"height": p.w.blocks[p.tip].id, "candidates": cs.len(), "expired_but_present_output": p.expired_present.is_some()}));
        for c in cs {
            jobs.push((pi, p.tip, c));
        }
    }
    let results = par_map(&jobs, workers(), |_, (pi, tip, c)| {
        let p = &ps[*pi];
        let tip = *tip;
        let w = &p.w;
        let mut r = rep.child();
        let g = w.cfg.consensus.genesis_period;
        let h = w.blocks[tip].id + 1;
        let l = &w.ledgers[tip];
        let mut auth = authorised(&c.tx, l, h, g);
        if auth.is_ok() {
            if let Some(t2) = &c.tx2 {
                // the pair is authorised only if it touches disjoint outputs
                let a: BTreeSet<_> = c.tx.from.iter().filter(|s| s.amount > 0).map(|s| s.get_utxoset_key()).collect();
                if t2.from.iter().any(|s| s.amount > 0 && a.contains(&s.get_utxoset_key())) {
                    auth = Err("two transactions of one block spend the same output".into());
                }
            }
        }
        let dont_care = false;
        if c.control && auth.is_err() {
            r.machinery(format!("control {} at {} is not authorised per the oracle: {:?}", c.edit, p.name, auth));
            return r;
        }
        if !c.control && auth.is_ok() && c.tx2.is_none() {
            // an edit that happens to be legitimate here (e.g. a zero-value mint): judged as such
            r.outcome(&format!("edit-is-legitimate-here:{}", c.edit));
        }
        let mut verdicts: Vec<(String, Verdict, String)> = vec![];
        let is_gt = c.tx.transaction_type == TransactionType::GoldenTicket;
        if c.tx2.is_none() {
            if let Ok(n) = node_with_prelude(p, tip) {
                if !is_gt {
                    verdicts.push(("pool".into(), gate_pool(&n, &c.tx), String::new()));
                }
                verdicts.push(("verify_tx".into(), gate_verify(&n, &c.tx), String::new()));
            }
        } else if let Ok(n) = node_with_prelude(p, tip) {
            // pool gate for the pair: both admitted?
            let a = gate_pool(&n, &c.tx);
            let b = gate_pool(&n, c.tx2.as_ref().unwrap());
            let v = if a == Verdict::Accepted && b == Verdict::Accepted { Verdict::Accepted } else { Verdict::Rejected };
            verdicts.push(("pool".into(), v, String::new()));
        }
        if c.tx2.is_none() && !is_gt && !c.control {
            match gate_returned_to_pool(w, p, tip, c) {
                Some(v) => verdicts.push(("pool:returned-by-a-refused-block".into(), v, String::new())),
                None => r.outcome("gate-not-applicable:returned-by-a-refused-block"),
            }
        }
        let (v, d) = gate_block(w, p, tip, c, false, false);
        verdicts.push(("block:tip".into(), v, d));
        let (v, d) = gate_block(w, p, tip, c, true, false);
        verdicts.push(("block:tip-first".into(), v, d));
        if p.side.is_some() && tip == p.tip {
            let (v, d) = gate_block(w, p, tip, c, false, true);
            verdicts.push(("block:side-chain".into(), v, d));
        }
        let mut first_of_side = false;
        // (not at the joined-mid-chain position: a sibling of its tip is at height J+g, which such a
        // node winds unchecked by design)
        if tip == p.tip && !c.control && !p.name.starts_with("node-joined") {
            match gate_first_of_side_chain(w, p, tip, c) {
                Some((v, d)) => {
                    first_of_side = true;
                    r.outcome(&format!("first-of-side-chain@{}:{}", p.name, match &v { Verdict::Accepted => "adopted", Verdict::Rejected => "refused", Verdict::Abort(_) => "abort" }));
                    verdicts.push(("block:first-of-a-longer-side-chain".into(), v, d));
                }
                None => r.outcome("gate-not-applicable:first-of-a-longer-side-chain"),
            }
        }
        let _ = first_of_side;
        if tip == p.tip && !c.control && p.prelude.is_empty() && p.witnessed.is_none() {
            match gate_first_of_side_chain_mode(w, p, tip, c, true) {
                Some((v, d)) => {
                    r.outcome(&format!("side-block-read-back-at-start-up@{}:{}", p.name, match &v { Verdict::Accepted => "adopted", Verdict::Rejected => "refused", Verdict::Abort(_) => "abort" }));
                    verdicts.push(("block:side-block-read-back-at-start-up".into(), v, d));
                }
                None => r.outcome("gate-not-applicable:side-block-read-back-at-start-up"),
            }
        }
        for (gate, v, d) in verdicts {
            r.evaluations += 1;
            r.transitions += 1;
            let case = json!({"position": p.name, "height": h, "edit": c.edit, "gate": gate, "tx": hex::encode(c.tx.serialize_for_net()), "oracle": format!("{:?}", auth), "detail": d});
            if r.samples.is_empty() && c.edit == "foreign-extra-input" {
                r.sample(case.clone());
            }
            // side-chain gate sees a different ledger (the side parent's); the oracle for it:
            let auth_here = if gate == "block:side-chain" {
                let (_, sp) = p.side.unwrap();
                authorised(&c.tx, &w.ledgers[sp], w.blocks[sp].id + 1, g)
            } else if gate == "block:first-of-a-longer-side-chain" || gate == "block:side-block-read-back-at-start-up" {
                let pp = w.blocks[tip].parent.unwrap();
                let mut a = authorised(&c.tx, &w.ledgers[pp], w.blocks[pp].id + 1, g);
                if a.is_ok() {
                    if let Some(t2) = &c.tx2 {
                        let x: BTreeSet<_> = c.tx.from.iter().filter(|s| s.amount > 0).map(|s| s.get_utxoset_key()).collect();
                        if t2.from.iter().any(|s| s.amount > 0 && x.contains(&s.get_utxoset_key())) {
                            a = Err("two transactions of one block spend the same output".into());
                        }
                    }
                }
                a
            } else {
                auth.clone()
            };
            match v {
                Verdict::Abort(m) => {
                    r.violate(&format!("abort/{}/{}", c.edit, gate), format!("{} at {} through {}: {}", c.edit, p.name, gate, m), case);
                }
                Verdict::Accepted => {
                    if auth_here.is_err() && !dont_care {
                        r.violate(&format!("accepted/{}/{}", c.edit, gate), format!("{} at {} accepted by {} although {}", c.edit, p.name, gate, auth_here.clone().unwrap_err()), case);
                        r.outcome(&format!("ACCEPTED-UNAUTHORISED:{}:{}", c.edit, gate));
                    } else {
                        r.outcome(&format!("accepted-ok:{}", gate));
                        if c.control {
                            r.distinct.insert(format!("{}|{}|{}", p.name, c.edit, gate));
                        }
                    }
                }
                Verdict::Rejected => {
                    if c.control {
                        r.machinery(format!("control {} at {} rejected by {} ({})", c.edit, p.name, gate, d));
                    } else {
                        r.outcome(&format!("rejected:{}", c.edit));
                        r.distinct.insert(format!("{}|{}|{}", p.name, c.edit, gate));
                    }
                }
            }
        }
        r.traces_validated += 1;
        r
    });
    for r in results {
        rep.merge(r);
    }
    rep.states = ps.len() as u64;
    for p in ps.iter() {
        if p.name == "wrapped-g3-fees" && p.expired_present.is_none() {
            rep.outcome("note:no-expired-but-present-output-at-this-position");
        }
    }
    let _: Option<Value> = None;
    rep.finish()
}
