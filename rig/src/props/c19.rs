//! C19 — wallet accounting matches the ledger.  BFS over wallet-relevant operation sequences
//! on the real Wallet / Blockchain (state = history, digest dedup).

use std::collections::BTreeSet;

use saito_core::core::consensus::block::Block;
use saito_core::core::consensus::slip::{Slip, SlipType};
use saito_core::core::consensus::transaction::Transaction;
use saito_core::core::defs::SaitoUTXOSetKey;
use serde_json::json;

use crate::exec::{run, Outcome};
use crate::node::*;
use crate::prod::*;
use crate::report::{par_map, workers, Report, Tier};
use crate::seams::key;

#[derive(Clone, Copy, Debug, PartialEq, Eq)]
pub enum Op {
    In1,
    In2,
    OutSmall,
    OutSmallFee,
    OutAll,
    OutTooMuch,
    /// a payment from the wallet's key built elsewhere (another device) and relayed through this
    /// node: registered as pending like every own-key transaction the node sends out
    OutExternal,
    Block,
    ReorgAway1,
    ReorgAway2,
    ReorgBack,
    /// the wallet mints an NFT from one of its outputs; the payload (a deposit) goes to another key,
    /// the rest comes back as change. Not part of the breadth-first alphabet (part 4 only)
    MintNft,
    /// the same with the whole output deposited (no change)
    MintNftNoChange,
}
pub const OPS: [Op; 11] = [Op::Block, Op::In1, Op::OutSmall, Op::In2, Op::OutSmallFee, Op::OutAll, Op::OutTooMuch, Op::OutExternal, Op::ReorgAway1, Op::ReorgAway2, Op::ReorgBack];

struct W {
    p: Prod,
    g: u64,
    /// inputs of transactions the wallet built that are not yet confirmed on the chain
    committed: BTreeSet<SaitoUTXOSetKey>,
    reorged: bool,
    /// built transactions are registered as pending in the wallet (the node's send path)
    pending_registered: bool,
    /// abandoned chain (to re-wind to)
    abandoned: Option<Vec<Vec<u8>>>,
    ctr: u64,
}

/// world code 7 = genesis period 6 with a staking requirement the wallet cannot fund (every
/// attempt to produce a block fails in the wallet's staking path and must leave it untouched)
fn init(g: u64) -> Result<W, String> {
    let (g, staking) = if g == 7 { (6, 10_000_000_000u64) } else { (g, 0) };
    let p = Prod::new(g, 5000, staking)?;
    Ok(W { p, g, committed: BTreeSet::new(), reorged: false, pending_registered: g != 3, abandoned: None, ctr: 0 })
}

fn peer_block_on(w: &mut W, chain: &[Vec<u8>], salt: u64) -> Result<Vec<u8>, String> {
    let mut n = LedgerNode::new(key(7), w.p.cfg.clone());
    for b in chain.iter() {
        let _ = n.add_block_bytes(b);
    }
    let parent = decode_block(chain.last().unwrap());
    let ts = parent.timestamp + 10_000 + salt;
    let gt = if (parent.id + 1) % 2 == 0 {
        let mut t = golden_ticket_tx(parent.hash, parent.difficulty, &key(7), 0);
        t.generate(&key(7).public, 0, 0);
        Some(t)
    } else {
        None
    };
    let mut t = make_tx(&[], &[(key(5).public, 0)], &key(5), ts, format!("pe{}", salt).as_bytes());
    t.generate(&key(7).public, 0, 0);
    let bc = n.blockchain.clone();
    let cfg = n.cfg.clone();
    let storage = &n.storage;
    match run(async {
        let bc = bc.read().await;
        let mut map = txmap(vec![t]);
        Block::create(&mut map, parent.hash, &bc, ts, &key(7).public, &key(7).private, gt, &cfg, storage).await
    }) {
        Outcome::Done(Ok(b)) => Ok(block_bytes(&b)),
        o => Err(format!("peer block: {}", o.label())),
    }
}

fn set_chain(w: &mut W, chain: Vec<Vec<u8>>) {
    let mut l = RefLedger::default();
    for b in chain.iter() {
        l.apply(&decode_block(b));
    }
    l.missing_inputs.clear();
    let blk = decode_block(chain.last().unwrap());
    w.p.ledger = l;
    w.p.tip_ts = blk.timestamp;
    w.p.tip_hash = blk.hash;
    w.p.tip_id = blk.id;
    w.p.tip_difficulty = blk.difficulty;
    w.p.chain = chain;
}

fn wallet_tx(w: &mut W, amount: u64, fee: u64, rep: &mut Report, ctx: &serde_json::Value) -> Option<Transaction> {
    let wl = w.p.node.wallet.clone();
    let me = w.p.node.key;
    let tip = w.p.tip_id;
    let g = w.g;
    let r = run(async move {
        let mut wal = wl.write().await;
        Transaction::create(&mut wal, key(2).public, amount, fee, false, None, tip, g)
    });
    match r {
        Outcome::Done(Ok(mut t)) => {
            t.sign(&me.private);
            Some(t)
        }
        Outcome::Done(Err(_)) => None,
        o => {
            rep.violate("abort/create", o.label(), ctx.clone());
            None
        }
    }
}

/// (balance, unspent list, spent flags) of the wallet
fn wallet_fingerprint(w: &W) -> (u64, Vec<String>, Vec<String>) {
    let wal = w.p.node.wallet.try_read().unwrap();
    let show = |k: &SaitoUTXOSetKey| Slip::parse_slip_from_utxokey(k).map(|s| format!("{}-{}-{}:{}", s.block_id, s.tx_ordinal, s.slip_index, s.amount)).unwrap_or_default();
    let mut u: Vec<String> = wal.unspent_slips.iter().map(show).collect();
    u.sort();
    let mut sp: Vec<String> = wal.slips.iter().filter(|(_, s)| s.spent).map(|(k, _)| show(k)).collect();
    sp.sort();
    (wal.get_available_balance(), u, sp)
}

fn balance(w: &W) -> u64 {
    w.p.node.wallet.try_read().unwrap().get_available_balance()
}

fn apply(w: &mut W, op: Op, rep: &mut Report, hist: &[Op]) -> bool {
    let ctx = json!({"g": w.g, "history": hist.iter().map(|o| format!("{:?}", o)).collect::<Vec<_>>()});
    let hb = 5000u64;
    match op {
        Op::In1 | Op::In2 => {
            let k1 = key(1);
            let me = w.p.node.key.public;
            let g = w.g;
            let h = w.p.tip_id + 1;
            let pooled: BTreeSet<SaitoUTXOSetKey> = w.p.node.obs().pool_utxo_map.into_iter().collect();
            let Some(s) = w.p.ledger.unspent_of(&k1.public).into_iter().filter(|s| s.block_id + g > h + 1 && s.amount > 100_000 && !pooled.contains(&s.get_utxoset_key())).max_by_key(|s| s.amount) else { return false };
            w.ctr += 1;
            let outs = if op == Op::In1 { vec![(me, 30_000 + w.ctr), (k1.public, s.amount - 30_000 - w.ctr)] } else { vec![(me, 11_000 + w.ctr), (me, 12_000 + w.ctr), (k1.public, s.amount - 23_000 - 2 * w.ctr)] };
            let t = make_tx(&[s], &outs, &k1, w.p.tip_ts + 5, b"in");
            matches!(w.p.submit(t), Outcome::Done(true))
        }
        Op::MintNft | Op::MintNftNoChange => {
            let pooled: BTreeSet<SaitoUTXOSetKey> = w.p.node.obs().pool_utxo_map.into_iter().collect();
            let pick = {
                let wal = w.p.node.wallet.try_read().unwrap();
                let mut v: Vec<Slip> = wal.unspent_slips.iter().filter(|k| !pooled.contains(*k)).filter_map(|k| Slip::parse_slip_from_utxokey(k).ok()).filter(|s| s.amount > 10_000 && s.slip_type == SlipType::Normal).collect();
                v.sort_by_key(|s| (s.block_id, s.tx_ordinal, s.slip_index));
                v.into_iter().next()
            };
            let Some(s) = pick else { return false };
            let deposit = if op == Op::MintNftNoChange { s.amount } else { 4_000 };
            let wl = w.p.node.wallet.clone();
            let (tip, g) = (w.p.tip_id, w.g);
            let to = key(2).public;
            let sc = s.clone();
            let r = run(async move {
                let mut wal = wl.write().await;
                wal.create_bound_transaction(sc.amount, sc.block_id, sc.tx_ordinal, sc.slip_index as u64, deposit, vec![1, 2, 3], &to, None, tip, g, "art".to_string()).await
            });
            match r {
                Outcome::Done(Ok(t)) => {
                    rep.outcome("wallet-minted-nft");
                    matches!(w.p.submit(t), Outcome::Done(true))
                }
                Outcome::Done(Err(_)) => false,
                o => {
                    rep.violate("abort/create_bound_transaction", o.label(), ctx.clone());
                    false
                }
            }
        }
        Op::OutSmall | Op::OutSmallFee | Op::OutAll | Op::OutTooMuch => {
            let bal = balance(w);
            let (amount, fee) = match op {
                Op::OutSmall => (1000, 0),
                Op::OutSmallFee => (1000, 500),
                Op::OutAll => (bal, 0),
                _ => (bal + 1, 0),
            };
            if bal == 0 && op != Op::OutTooMuch {
                return false;
            }
            let before = wallet_fingerprint(w);
            let Some(t) = wallet_tx(w, amount, fee, rep, &ctx) else {
                rep.outcome(if op == Op::OutTooMuch { "create-refused:too-much" } else { "create-refused" });
                // a refused request builds nothing, so it commits nothing: the wallet is unchanged
                let after = wallet_fingerprint(w);
                if before != after {
                    rep.violate(&format!("refused-request-changed-wallet/{:?}", op), format!("before {:?} after {:?} history {:?}", before, after, hist), ctx.clone());
                }
                return true;
            };
            if op == Op::OutTooMuch {
                rep.violate("wallet-built-tx-spending-more-than-balance", format!("balance {} amount {}", bal, amount), ctx.clone());
            }
            // properties of the built transaction
            let ins: Vec<SaitoUTXOSetKey> = t.from.iter().filter(|s| s.amount > 0).map(|s| s.get_utxoset_key()).collect();
            let uniq: BTreeSet<_> = ins.iter().cloned().collect();
            if uniq.len() != ins.len() {
                rep.violate("wallet-tx-references-output-twice", format!("{:?}", hist), ctx.clone());
            }
            let tin: u128 = t.from.iter().map(|s| s.amount as u128).sum();
            let tout: u128 = t.to.iter().map(|s| s.amount as u128).sum();
            if tout + fee as u128 > tin {
                rep.violate("wallet-tx-spends-more-than-it-consumes", format!("in {} out {} fee {}", tin, tout, fee), ctx.clone());
            }
            {
                let bc = w.p.node.blockchain.try_read().unwrap();
                let mut c = t.clone();
                c.generate(&w.p.node.key.public, 0, 0);
                if !c.validate(&bc.utxoset, &bc, true) {
                    let kind = if w.reorged { "after-reorg" } else { "linear" };
                    let ins: Vec<String> = c.from.iter().map(|s| format!("{}-{}-{}:{}:{:?}:onledger={}", s.block_id, s.tx_ordinal, s.slip_index, s.amount, s.slip_type, w.p.ledger.utxo.contains(&s.get_utxoset_key()))).collect();
                    rep.violate(&format!("wallet-tx-invalid-on-its-ledger/{}/{:?}", kind, op), format!("{:?} tip {} inputs {:?}", hist, w.p.tip_id, ins), ctx.clone());
                }
            }
            for k in ins {
                w.committed.insert(k);
            }
            rep.outcome("wallet-tx-built");
            // as the node does when it sends its own transaction out (Network::propagate_transaction):
            // the wallet keeps it as pending until a block carries it
            if w.pending_registered {
                let wl = w.p.node.wallet.clone();
                let mut tt = t.clone();
                tt.generate(&w.p.node.key.public, 0, 0);
                let _ = run(async move {
                    let mut wal = wl.write().await;
                    wal.add_to_pending(tt);
                });
            }
            let _ = w.p.submit(t);
            true
        }
        Op::OutExternal => {
            let me = w.p.node.key;
            let g = w.g;
            let h = w.p.tip_id + 1;
            let pooled: BTreeSet<SaitoUTXOSetKey> = w.p.node.obs().pool_utxo_map.into_iter().collect();
            let Some(sl) = w.p.ledger.unspent_of(&me.public).into_iter().filter(|s| s.block_id + g > h + 1 && s.amount > 10_000 && !pooled.contains(&s.get_utxoset_key()) && !w.committed.contains(&s.get_utxoset_key())).min_by_key(|s| s.amount) else { return false };
            w.ctr += 1;
            let mut t = make_tx(&[sl.clone()], &[(key(2).public, 4_000 + w.ctr), (me.public, sl.amount - 4_000 - w.ctr)], &me, w.p.tip_ts + 7, b"external");
            t.generate(&me.public, 0, 0);
            let wl = w.p.node.wallet.clone();
            let tt = t.clone();
            let _ = run(async move {
                let mut wal = wl.write().await;
                wal.add_to_pending(tt);
            });
            rep.outcome("external-own-key-payment-relayed");
            matches!(w.p.submit(t), Outcome::Done(true))
        }
        Op::Block => {
            let ts = w.p.tip_ts + 2 * hb;
            if w.p.node.obs().pool_txs.is_empty() {
                w.ctr += 1;
                let t = make_tx(&[], &[(key(5).public, 0)], &key(5), ts, format!("e{}", w.ctr).as_bytes());
                let _ = w.p.submit(t);
            }
            match w.p.bundle(ts, (w.p.tip_id + 1) % 2 == 0) {
                Produced::Block(b) => {
                    let (a, _) = w.p.commit(&b);
                    if !matches!(a, Outcome::Done(AddRes::AddedLongest)) {
                        rep.outcome("block-refused(C07)");
                        return false;
                    }
                    let blk = decode_block(&b);
                    for t in blk.transactions.iter() {
                        for s in t.from.iter() {
                            w.committed.remove(&s.get_utxoset_key());
                        }
                    }
                    true
                }
                Produced::NoBlock => {
                    // the producer gave up (for instance: the wallet cannot fund the stake). The
                    // attempt is a step of its own: the wallet must come out of it unchanged
                    rep.outcome("block-attempt-produced-nothing");
                    true
                }
                _ => false,
            }
        }
        Op::ReorgAway1 | Op::ReorgAway2 => {
            let k = if op == Op::ReorgAway1 { 1 } else { 2 };
            let n = w.p.chain.len();
            if n < k + 2 || w.abandoned.is_some() {
                return false;
            }
            let old = w.p.chain.clone();
            let mut chain: Vec<Vec<u8>> = old[..n - k].to_vec();
            for i in 0..k + 1 {
                w.ctr += 1;
                let salt = 100 + w.ctr + i as u64;
                let b = match peer_block_on(w, &chain, salt) {
                    Ok(b) => b,
                    Err(_) => return false,
                };
                let r = w.p.node.add_block_bytes(&b);
                let _ = w.p.twin.add_block_bytes(&b);
                if matches!(r, Outcome::Panicked(_) | Outcome::Stalled) {
                    rep.violate("abort/reorg", r.label(), ctx.clone());
                    return false;
                }
                chain.push(b);
            }
            if w.p.node.tip().1 != decode_block(chain.last().unwrap()).hash {
                return false;
            }
            set_chain(w, chain);
            w.abandoned = Some(old);
            w.reorged = true;
            rep.outcome("reorg-away");
            true
        }
        Op::ReorgBack => {
            let Some(old) = w.abandoned.clone() else { return false };
            // extend the abandoned chain until it is longer again
            let mut chain = old;
            let target = w.p.chain.len() + 1;
            while chain.len() < target {
                w.ctr += 1;
                let salt = 500 + w.ctr;
                let b = match peer_block_on(w, &chain, salt) {
                    Ok(b) => b,
                    Err(_) => return false,
                };
                let _ = w.p.node.add_block_bytes(&b);
                let _ = w.p.twin.add_block_bytes(&b);
                chain.push(b);
            }
            if w.p.node.tip().1 != decode_block(chain.last().unwrap()).hash {
                return false;
            }
            set_chain(w, chain);
            w.abandoned = None;
            rep.outcome("reorg-back");
            true
        }
    }
}

fn invariants(w: &W, rep: &mut Report, hist: &[Op]) {
    invariants_tagged(w, rep, hist, "")
}

/// Every output of the wallet's key that the ledger holds unspent is announced to the wallet once
/// more, the way a host application restores or re-syncs saved slips (WasmWallet::add_slip ->
/// Wallet::add_slip). The wallet knows all of them: nothing may change, in particular outputs it
/// committed to a pending transaction stay committed.
fn announce_again(w: &mut W, rep: &mut Report, hist: &[Op]) {
    let me = w.p.node.key.public;
    let tip = w.p.tip_id;
    let outs: Vec<Slip> = w.p.ledger.unspent_of(&me).into_iter().filter(|s| s.slip_type != SlipType::BlockStake && s.block_id + w.g > tip).collect();
    {
        let mut wal = w.p.node.wallet.try_write().unwrap();
        for s in outs.iter() {
            wal.add_slip(s.block_id, s.tx_ordinal, s, true, None);
        }
    }
    rep.evaluations += 1;
    invariants_tagged(w, rep, hist, "/outputs-announced-again");
}

fn invariants_tagged(w: &W, rep: &mut Report, hist: &[Op], tag: &str) {
    let ctx = json!({"g": w.g, "history": hist.iter().map(|o| format!("{:?}", o)).collect::<Vec<_>>(), "probe": tag});
    let last = format!("{}{}", hist.last().map(|o| format!("{:?}", o)).unwrap_or_default(), tag);
    let wal = w.p.node.wallet.try_read().unwrap();
    let sum: u128 = wal.unspent_slips.iter().map(|k| wal.slips.get(k).map(|s| s.amount as u128).unwrap_or(0)).sum();
    let missing = wal.unspent_slips.iter().filter(|k| !wal.slips.contains_key(*k)).count();
    if sum != wal.get_available_balance() as u128 || missing > 0 {
        let kind = if w.reorged { "after-reorg" } else { "linear" };
        rep.violate(&format!("balance-differs-from-unspent-sum/{}/after-{}", kind, last), format!("balance {} sum of unspent {} (dangling {}) after {:?}", wal.get_available_balance(), sum, missing, hist), ctx.clone());
    }
    if !w.reorged {
        let tip = w.p.tip_id;
        let me = w.p.node.key.public;
        let ledger: BTreeSet<SaitoUTXOSetKey> = w
            .p
            .ledger
            .unspent_of(&me)
            .into_iter()
            .filter(|s| s.slip_type != SlipType::BlockStake && s.block_id + w.g > tip && !w.committed.contains(&s.get_utxoset_key()))
            .map(|s| s.get_utxoset_key())
            .collect();
        let edge = |k: &SaitoUTXOSetKey| Slip::parse_slip_from_utxokey(k).map(|s| s.block_id + w.g == tip).unwrap_or(false);
        let mine: BTreeSet<SaitoUTXOSetKey> = wal.unspent_slips.iter().cloned().collect();
        for k in ledger.iter() {
            if !mine.contains(k) {
                let s = Slip::parse_slip_from_utxokey(k).unwrap();
                rep.violate(&format!("wallet-misses-spendable-output/after-{}", last), format!("ledger output {}-{}-{} amount {} ({:?}) is spendable but not in the wallet's unspent list after {:?}", s.block_id, s.tx_ordinal, s.slip_index, s.amount, s.slip_type, hist), ctx.clone());
            }
        }
        for k in mine.iter() {
            if !ledger.contains(k) && !edge(k) {
                let s = Slip::parse_slip_from_utxokey(k).unwrap();
                let why = if w.committed.contains(k) { "committed-to-pending" } else if !w.p.ledger.utxo.contains(k) { "not-on-ledger" } else { "expired" };
                rep.violate(&format!("wallet-lists-unspendable-output/{}/after-{}", why, last), format!("wallet lists {}-{}-{} amount {} as unspent after {:?}", s.block_id, s.tx_ordinal, s.slip_index, s.amount, hist), ctx.clone());
            }
        }
    }
}

fn replay(g: u64, hist: &[Op], rep: &mut Report) -> Option<(W, bool)> {
    let mut w = match init(g) {
        Ok(w) => w,
        Err(e) => {
            rep.machinery(e);
            return None;
        }
    };
    for (i, op) in hist.iter().enumerate() {
        let mut scratch = rep.child();
        let ok = if i + 1 == hist.len() { apply(&mut w, *op, rep, hist) } else { apply(&mut w, *op, &mut scratch, &hist[..=i]) };
        if !ok {
            return Some((w, false));
        }
    }
    Some((w, true))
}

/// Part 2 — a light client's wallet. The blocks of the C18 sweep (n payments to distinct keys,
/// with and without golden ticket and fee transaction) are served as lite blocks for each single
/// payee key (real generate_lite_block, wire round trip) to an SPV node whose wallet owns that
/// key. The wallet must then record each of its outputs under the coordinates they have in the
/// full block, hold the right balance, and build a transaction that validates on a full node.
fn lite_wallets(rep: &mut Report, tier: &Tier) {
    use saito_core::core::consensus::block::{Block, BlockType};
    let nmax = if tier.thorough { 9 } else { 6 };
    let mut jobs: Vec<(usize, bool)> = vec![];
    for n in 1..=nmax {
        jobs.push((n, false));
        jobs.push((n, true));
    }
    let results = par_map(&jobs, workers(), |_, (n, with_gt)| {
        let mut r = rep.child();
        let (w, bi) = match super::c18::base_block(*n, *with_gt) {
            Ok(x) => x,
            Err(e) => {
                r.machinery(format!("lite wallets: base block n={} gt={}: {}", n, with_gt, e));
                return r;
            }
        };
        let mut full = Block::deserialize_from_net(&w.blocks[bi].bytes).unwrap();
        full.generate().unwrap();
        let g = w.cfg.consensus.genesis_period;
        for i in 0..*n {
            let owner = key(10 + i as u8);
            r.evaluations += 1;
            let ctx = json!({"n": n, "golden_ticket": with_gt, "payee": i, "tx_order": full.transactions.iter().map(|t| t.to.first().map(|s| crate::seams::key_name(&s.public_key)).unwrap_or_default()).collect::<Vec<_>>()});
            // where the owner's outputs really are
            let mut expect: Vec<String> = vec![];
            for (ti, t) in full.transactions.iter().enumerate() {
                for (si, sl) in t.to.iter().enumerate() {
                    if sl.public_key == owner.public && sl.amount > 0 {
                        expect.push(format!("{}-{}-{}:{}", full.id, ti, si, sl.amount));
                    }
                }
            }
            expect.sort();
            let lite = full.generate_lite_block(vec![owner.public]);
            let folded = lite.transactions.iter().filter(|t| t.transaction_type == saito_core::core::consensus::transaction::TransactionType::SPV).map(|t| t.txs_replacements).max().unwrap_or(0);
            let bytes = lite.serialize_for_net(BlockType::Full);
            let mut cfg = w.cfg.clone();
            cfg.spv = true;
            let mut node = LedgerNode::new(owner, cfg);
            match node.add_block_bytes(&bytes) {
                Outcome::Done(AddRes::AddedLongest) => {}
                o => {
                    r.violate("lite-wallet/lite-block-refused-by-the-light-client", format!("n={} payee {}: {:?}", n, i, o), ctx);
                    continue;
                }
            }
            let o = node.obs();
            let mut got: Vec<String> = o.wallet_slip_records.iter().filter(|x| x.contains("spent=false")).map(|x| x.split(":spent").next().unwrap().to_string()).collect();
            got.sort();
            r.outcome(&format!("lite-wallet:placeholders-folded-up-to-{}", folded.min(3)));
            if got != expect {
                r.violate("lite-wallet/output-recorded-under-wrong-coordinates", format!("n={} payee {}: the full block has {:?}, the light client's wallet recorded {:?}", n, i, expect, got), ctx.clone());
                continue;
            }
            let want: u64 = full.transactions.iter().flat_map(|t| t.to.iter()).filter(|s| s.public_key == owner.public).map(|s| s.amount).sum();
            if o.wallet_balance != want {
                r.violate("lite-wallet/balance", format!("balance {} but {} was paid to the key", o.wallet_balance, want), ctx.clone());
            }
            // a transaction the light client builds must validate on a full node holding the chain
            let wl = node.wallet.clone();
            let tip = full.id;
            let built = run(async move {
                let mut wal = wl.write().await;
                Transaction::create(&mut wal, key(2).public, 1, 0, false, None, tip, g)
            });
            match built {
                Outcome::Done(Ok(mut t)) => {
                    t.sign(&owner.private);
                    t.generate(&owner.public, 0, 0);
                    if let Ok(fulln) = w.node_at(bi, key(9)) {
                        let bc = fulln.blockchain.try_read().unwrap();
                        if !t.validate(&bc.utxoset, &bc, true) {
                            r.violate("lite-wallet/built-transaction-invalid-on-the-full-ledger", format!("n={} payee {}: inputs {:?}", n, i, t.from.iter().map(|s| format!("{}-{}-{}:{}", s.block_id, s.tx_ordinal, s.slip_index, s.amount)).collect::<Vec<_>>()), ctx.clone());
                        } else {
                            r.outcome("lite-wallet:built-transaction-valid-on-the-full-ledger");
                        }
                    }
                }
                Outcome::Done(Err(_)) => r.violate("lite-wallet/cannot-build", format!("n={} payee {}: the wallet holds {} but refuses to pay 1", n, i, o.wallet_balance), ctx.clone()),
                ob => r.violate("lite-wallet/abort", ob.label(), ctx.clone()),
            }
            r.distinct.insert(format!("lite|{}|{}|{}", n, with_gt, i));
        }
        r
    });
    for r in results {
        rep.merge(r);
    }
}

/// Part 3 — a wallet that only watches. The C13 producer histories at genesis period 3 with a fee
/// level (payments, two-output payments, dust outputs that are later collected instead of being
/// rebroadcast, spends of the oldest output) are replayed block by block into a node whose wallet
/// owns the payee key K2 and never builds anything: after every block the balance equals the sum
/// of the listed outputs and those are the ledger's spendable in-window outputs of K2.
fn passive_wallets(rep: &mut Report, tier: &Tier) {
    use super::c13::{run_history_observed, Act, Step};
    let g = 3u64;
    let n = (2 * g + 5) as usize;
    let mut hs: Vec<Vec<Step>> = vec![];
    for fee in [6_000u64, 0] {
        let base: Vec<Step> = (0..n).map(|i| Step { act: Act::Pay(fee), gt: i % 2 == 1, fork_before: false }).collect();
        hs.push(base.clone());
        for pos in 0..n {
            for a in [Act::Dust(30, 6_000), Act::Dust(30, 0), Act::PayTwo(fee), Act::SpendOldest, Act::Empty] {
                let mut s = base.clone();
                s[pos].act = a.clone();
                hs.push(s.clone());
                if tier.thorough {
                    for pos2 in (pos + 1)..n {
                        let mut s2 = s.clone();
                        s2[pos2].act = Act::SpendOldest;
                        hs.push(s2);
                    }
                }
            }
        }
    }
    let results = par_map(&hs, workers(), |_, steps| {
        let mut r = rep.child();
        r.evaluations += 1;
        let mut chain: Vec<Vec<u8>> = vec![];
        {
            let mut scratch = rep.child();
            run_history_observed(g, steps, 8, false, &mut scratch, &mut |b: &[u8]| chain.push(b.to_vec()));
        }
        let p0 = match Prod::new(g, 5000, 0) {
            Ok(p) => p,
            Err(e) => {
                r.machinery(e);
                return r;
            }
        };
        let k2 = key(2);
        let mut node = LedgerNode::new(k2, p0.cfg.clone());
        let mut ledger = RefLedger::default();
        let ctx = json!({"g": g, "steps": steps.iter().map(|s| format!("{:?}", s.act)).collect::<Vec<_>>()});
        let mut on_chain: Vec<Vec<u8>> = vec![p0.chain[0].clone()];
        on_chain.extend(chain.into_iter());
        for b in on_chain.iter() {
            let blk = decode_block(b);
            match node.add_block_bytes(b) {
                Outcome::Done(_) => {}
                o => {
                    r.violate("passive-wallet/abort", o.label(), ctx.clone());
                    return r;
                }
            }
            if node.tip().1 != blk.hash {
                // a competitor that lost: not part of the chain the ledger follows
                continue;
            }
            // the reference follows the node's longest chain: rebuild when the block is not a child of the last applied one
            ledger = {
                let mut l = RefLedger::default();
                let mut path: Vec<Block> = vec![];
                let mut h = blk.hash;
                while let Some(x) = on_chain.iter().map(|y| decode_block(y)).find(|y| y.hash == h) {
                    h = x.previous_block_hash;
                    path.push(x);
                }
                for x in path.iter().rev() {
                    l.apply(x);
                }
                l.missing_inputs.clear();
                l
            };
            let tip = blk.id;
            let wal = node.wallet.try_read().unwrap();
            let sum: u128 = wal.unspent_slips.iter().map(|k| wal.slips.get(k).map(|s| s.amount as u128).unwrap_or(0)).sum();
            if sum != wal.get_available_balance() as u128 {
                r.violate("passive-wallet/balance-differs-from-unspent-sum", format!("block {}: balance {} sum {}", tip, wal.get_available_balance(), sum), ctx.clone());
                return r;
            }
            let want: BTreeSet<SaitoUTXOSetKey> = ledger.unspent_of(&k2.public).into_iter().filter(|s| s.block_id + g > tip).map(|s| s.get_utxoset_key()).collect();
            let edge = |k: &SaitoUTXOSetKey| Slip::parse_slip_from_utxokey(k).map(|s| s.block_id + g == tip).unwrap_or(false);
            let mine: BTreeSet<SaitoUTXOSetKey> = wal.unspent_slips.iter().cloned().collect();
            for k in want.iter() {
                if !mine.contains(k) {
                    let s = Slip::parse_slip_from_utxokey(k).unwrap();
                    r.violate("passive-wallet/misses-spendable-output", format!("block {}: ledger output {}-{}-{} amount {} is not in the watching wallet", tip, s.block_id, s.tx_ordinal, s.slip_index, s.amount), ctx.clone());
                    return r;
                }
            }
            for k in mine.iter() {
                if !want.contains(k) && !edge(k) {
                    let s = Slip::parse_slip_from_utxokey(k).unwrap();
                    r.violate(&format!("passive-wallet/lists-unspendable-output/{}", if ledger.utxo.contains(k) { "expired" } else { "not-on-ledger" }), format!("block {}: the watching wallet lists {}-{}-{} amount {} as unspent", tip, s.block_id, s.tx_ordinal, s.slip_index, s.amount), ctx.clone());
                    return r;
                }
            }
            r.outcome("passive-wallet:agrees-with-ledger-after-block");
        }
        r
    });
    for r in results {
        rep.merge(r);
    }
}

/// digest of a wallet-world state: the observable state plus the pool's iteration order (the
/// order in which the next block will carry the pooled transactions decides the coordinates
/// of the outputs the wallet is going to own)
/// Part 4 -- the wallet mints an NFT. After an incoming payment is confirmed the wallet mints an
/// NFT from it (deposit to another key with change, or the whole output deposited), the mint is
/// confirmed, and every sequence of up to two further operations follows; the invariants are
/// evaluated after every step (the consumed output leaves the wallet with the mint's block).
fn minting_wallets(rep: &mut Report) {
    let tails = [Op::Block, Op::OutSmall, Op::OutAll, Op::In1, Op::ReorgAway1, Op::ReorgBack];
    let mut hs: Vec<Vec<Op>> = vec![];
    for mint in [Op::MintNft, Op::MintNftNoChange] {
        for pre in [vec![Op::In1, Op::Block], vec![Op::In2, Op::Block], vec![Op::In1, Op::Block, Op::In1, Op::Block]] {
            let mut base = pre.clone();
            base.push(mint);
            base.push(Op::Block);
            hs.push(base.clone());
            for a in tails {
                let mut h1 = base.clone();
                h1.push(a);
                hs.push(h1.clone());
                for b in tails {
                    let mut h2 = h1.clone();
                    h2.push(b);
                    hs.push(h2);
                }
            }
        }
    }
    let results = par_map(&hs, workers(), |_, h| {
        let mut r = rep.child();
        for i in 3..=h.len() {
            let hh = &h[..i];
            r.evaluations += 1;
            r.transitions += 1;
            let Some((w, ok)) = replay(6, hh, &mut r) else { return r };
            if !ok {
                r.outcome("minting-wallet:op-not-applicable");
                return r;
            }
            invariants_tagged(&w, &mut r, hh, "/minting-wallet");
        }
        r.outcome("minting-wallet:history-checked");
        r
    });
    for r in results {
        rep.merge(r);
    }
}

fn state_digest(w: &W) -> Hash {
    let mut o = w.p.node.obs();
    o.files.clear();
    let mut bytes = o.digest().to_vec();
    if let Ok(mp) = w.p.node.mempool.try_read() {
        for k in mp.transactions.keys() {
            bytes.extend_from_slice(&k[..8]);
        }
        // where the next insertion (the producer's own staking / fee transaction) lands among them
        // depends on the table's size as well
        bytes.extend_from_slice(&(mp.transactions.capacity() as u64).to_be_bytes());
    }
    // the wallet picks inputs in the iteration order of its hash containers, which depends on
    // how they were filled and emptied, not only on what they hold
    if let Ok(wal) = w.p.node.wallet.try_read() {
        for k in wal.unspent_slips.iter() {
            bytes.extend_from_slice(&k[..]);
        }
        bytes.push(0xfe);
        for k in wal.slips.keys() {
            bytes.extend_from_slice(&k[..]);
        }
    }
    // the harness's own counter (it makes the amounts of the next payments unique)
    bytes.extend_from_slice(&w.ctr.to_be_bytes());
    bytes.push(w.reorged as u8);
    // ... and the rest of what the harness itself remembers: the chain it can return to, and the
    // inputs it knows to be committed to pending transactions
    match &w.abandoned {
        Some(chain) => {
            for b in chain.iter() {
                bytes.extend_from_slice(&saito_core::core::util::crypto::hash(b)[..8]);
            }
        }
        None => bytes.push(0xfd),
    }
    for k in w.committed.iter() {
        bytes.extend_from_slice(&k[..]);
    }
    saito_core::core::util::crypto::hash(&bytes)
}

/// What the audit compares one step after two merged histories: the state without the parts that
/// depend on the order of transactions inside a block (block hashes, output coordinates). That
/// order is decided by the layout of the pool's hash table (tombstones left by removed
/// transactions), which no interface exposes and the state digest therefore cannot hold; two
/// merged histories may differ in it, and their next blocks then carry the same transactions in
/// a different order. Everything else must agree.
fn order_free_digest(w: &W) -> Hash {
    let o = w.p.node.obs();
    let amt = |k: &SaitoUTXOSetKey| Slip::parse_slip_from_utxokey(k).map(|s| (s.public_key.to_vec(), s.amount, s.block_id, format!("{:?}", s.slip_type))).unwrap_or_default();
    let mut utxo: Vec<_> = o.utxo.iter().map(|(k, v)| (amt(k), *v)).collect();
    utxo.sort();
    let mut unspent: Vec<_> = o.wallet_unspent.iter().map(amt).collect();
    unspent.sort();
    let mut slips: Vec<_> = o.wallet_slips.iter().map(amt).collect();
    slips.sort();
    let mut committed: Vec<_> = w.committed.iter().map(amt).collect();
    committed.sort();
    let mut pool: Vec<Vec<_>> = w.p.node.mempool.try_read().map(|m| m.transactions.values().map(|t| t.from.iter().map(|s| (s.amount, s.block_id)).chain(t.to.iter().map(|s| (s.amount, 0))).collect()).collect()).unwrap_or_default();
    pool.sort();
    saito_core::core::util::crypto::hash(format!("{}|{}|{:?}|{:?}|{:?}|{:?}|{:?}|{:?}|{}|{}|{:?}", o.tip_id, o.wallet_balance, utxo, unspent, slips, committed, pool, o.reservoirs, w.ctr, w.reorged, w.abandoned.as_ref().map(|c| c.len())).as_bytes())
}

pub fn main(tier: Tier, _replay: Option<String>) -> i32 {
    let mut rep = Report::new("C19", tier.clone(), "model_checking");
    let depth = if tier.thorough { 8 } else { 6 };
    rep.bounds = json!({"depth": depth, "genesis_periods": [3, 6], "alphabet": OPS.iter().map(|o| format!("{:?}", o)).collect::<Vec<_>>()});
    rep.rule = "breadth-first search over operation sequences on the producer node's real wallet at genesis period 3 (outputs expire inside the bound) and 6 (nothing expires: what a reorganisation returns can be spent again); state = history, deduplicated by the observable digest (chain, utxo, wallet slips / unspent / balance, pool)".into();
    rep.assumptions = vec!["an output created exactly genesis_period blocks before the tip is a don't-care for the ledger comparison (window edge)".into(), "ledger comparison only on histories without reorganisation, balance = sum(unspent) always".into()];
    let g: u64 = std::env::var("VERIF_C19_G").ok().and_then(|x| x.parse().ok()).unwrap_or(3);
    if let Ok(hs) = std::env::var("VERIF_C19_DIFF") {
        // developer aid: VERIF_C19_DIFF="In1,Block|In2,Block" prints what differs between the two states
        let parse = |x: &str| -> Vec<Op> { x.split(',').filter_map(|n| OPS.iter().find(|o| format!("{:?}", o) == n.trim()).cloned()).collect() };
        let mut it = hs.split('|');
        let (a, b) = (parse(it.next().unwrap_or("")), parse(it.next().unwrap_or("")));
        let mut r = rep.child();
        if let (Some((wa, _)), Some((wb, _))) = (replay(g, &a, &mut r), replay(g, &b, &mut r)) {
            println!("digest equal: {}", state_digest(&wa) == state_digest(&wb));
            for d in wa.p.node.obs().diff(&wb.p.node.obs()) {
                println!("  {}", d.chars().take(400).collect::<String>());
            }
            for w in [&wa, &wb] {
                let mp = w.p.node.mempool.try_read().unwrap();
                let wal = w.p.node.wallet.try_read().unwrap();
                println!("pool txs {:?} utxo_map {} work {} new_tx_added {} queue {} gts {} | wallet pending {} | ledger(ref) utxo {} tip {} log {:?}", mp.transactions.values().map(|t| format!("{}>{}", t.from.iter().map(|s| format!("{}-{}-{}", s.block_id, s.tx_ordinal, s.slip_index)).collect::<Vec<_>>().join("+"), t.to.iter().map(|s| s.amount.to_string()).collect::<Vec<_>>().join("+"))).collect::<Vec<_>>(), mp.utxo_map.len(), mp.get_routing_work_available(), mp.new_tx_added, mp.blocks_queue.len(), mp.golden_tickets.len(), wal.pending_txs.len(), w.p.ledger.utxo.len(), w.p.tip_id, w.p.log.len());
            }
            for w in [&wa, &wb] {
                if let Some(last) = w.p.chain.last() {
                    let b = decode_block(last);
                    println!("tip block {} txs: {:?}", b.id, b.transactions.iter().map(|t| format!("{:?}:{}>{}", t.transaction_type, t.from.len(), t.to.iter().map(|s| s.amount.to_string()).collect::<Vec<_>>().join("+"))).collect::<Vec<_>>());
                }
            }
            println!("ctr {} vs {}; committed {} vs {}; abandoned {:?} vs {:?}", wa.ctr, wb.ctr, wa.committed.len(), wb.committed.len(), wa.abandoned.as_ref().map(|x| x.len()), wb.abandoned.as_ref().map(|x| x.len()));
        }
        return 0;
    }
    if let Ok(hs) = std::env::var("VERIF_C19_HISTORY") {
        // developer aid: evaluate one history, e.g. VERIF_C19_HISTORY=In1,Block,OutSmall,Block,ReorgAway1,OutAll
        let hist: Vec<Op> = hs.split(',').filter_map(|n| OPS.iter().find(|o| format!("{:?}", o) == n.trim()).cloned()).collect();
        let mut r = rep.child();
        for i in 1..=hist.len() {
            let h = &hist[..i];
            match replay(g, h, &mut r) {
                Some((w, ok)) => {
                    println!("{:?}: applicable={} tip={} balance={} unspent={:?}", h.last().unwrap(), ok, w.p.tip_id, balance(&w), wallet_fingerprint(&w).1);
                    if ok {
                        invariants(&w, &mut r, h);
                    }
                }
                None => println!("{:?}: replay failed", h.last().unwrap()),
            }
        }
        for (k, v) in r.outcomes.iter() {
            println!("  {} {}", v, k);
        }
        return 0;
    }
    let cap: usize = std::env::var("VERIF_C19_CAP").ok().and_then(|x| x.parse().ok()).unwrap_or(if tier.thorough { 6000 } else { 20000 });
    let mut all_seen: BTreeSet<Hash> = BTreeSet::new();
    // genesis period 3: outputs expire inside the bound; genesis period 6: nothing expires, so that
    // what a reorganisation gives back to the wallet is still young enough to be spent again
    for g in [3u64, 6, 7] {
    let depth = if g == 7 { depth.min(3) } else { depth };
    let mut seen: crate::audit::MergeAudit<Vec<Op>> = crate::audit::MergeAudit::new();
    let mut frontier: Vec<Vec<Op>> = vec![vec![]];
    let mut level = 0;
    while level < depth && !frontier.is_empty() {
        level += 1;
        let mut cands = vec![];
        for h in frontier.iter() {
            for op in OPS {
                let mut x = h.clone();
                x.push(op);
                cands.push(x);
            }
        }
        let results = par_map(&cands, workers(), |_, h| {
            let mut r = rep.child();
            r.evaluations += 1;
            r.transitions += 1;
            let Some((w, ok)) = replay(g, h, &mut r) else { return (r, None) };
            if !ok {
                r.outcome("op-not-applicable");
                return (r, None);
            }
            invariants(&w, &mut r, h);
            r.traces_validated += 1;
            let d = state_digest(&w);
            let mut w = w;
            announce_again(&mut w, &mut r, h);
            (r, Some(d))
        });
        let mut next = vec![];
        for (h, (r, d)) in cands.into_iter().zip(results.into_iter()) {
            rep.merge(r);
            if let Some(d) = d {
                if seen.see(d, &h) {
                    next.push(h);
                }
            }
        }
        rep.outcome_n(&format!("g{}:level-{}-new-states", g, level), next.len() as u64);
        // keep the frontier tractable: beyond depth 4 continue only from histories that contain
        // at most two non-Block operations in a row (documented cap)
        if level >= 4 && level < depth && next.len() > cap {
            rep.exhaustive = false;
            next.truncate(cap);
            rep.extra.insert("frontier_cap".into(), json!({"level": level, "kept": cap}));
        }
        frontier = next;
    }
    rep.states += seen.len() as u64;
    // canonicalisation audit: merged histories agree with their representative one step on
    {
        let quiet = Report::new("C19", tier.clone(), "model_checking");
        seen.audit(if tier.thorough { 2000 } else { 300 }, &format!("wallet-bfs-g{}", g), |h: &Vec<Op>| {
            OPS.iter()
                .map(|op| {
                    let mut x = h.clone();
                    x.push(*op);
                    let d = match replay(g, &x, &mut quiet.child()) {
                        Some((w, true)) => Some(order_free_digest(&w)),
                        _ => None,
                    };
                    (format!("{:?}", op), d)
                })
                .collect()
        }, &mut rep);
    }
    all_seen.extend(seen.rep_of.keys().cloned());
    }
    rep.distinct = all_seen.iter().map(|h| hex::encode(&h[0..8])).collect();
    lite_wallets(&mut rep, &tier);
    passive_wallets(&mut rep, &tier);
    minting_wallets(&mut rep);
    rep.sample(json!({"history": ["In1", "Block", "OutSmall", "Block", "ReorgAway1", "ReorgBack"]}));
    rep.required_outcomes = vec!["wallet-tx-built".into(), "reorg-away".into(), "reorg-back".into(), "lite-wallet:built-transaction-valid-on-the-full-ledger".into(), "lite-wallet:placeholders-folded-up-to-2".into(), "passive-wallet:agrees-with-ledger-after-block".into()];
    rep.finish()
}
