//! C19 — wallet accounting matches the ledger.  BFS over wallet-relevant operation sequences
//! on the real Wallet / Blockchain (state = history, digest dedup).

use std::collections::BTreeSet;

use saito_core::core::consensus::block::Block;
use saito_core::core::consensus::slip::{Slip, SlipType};
use saito_core::core::consensus::transaction::Transaction;
use saito_core::core::defs::SaitoUTXOSetKey;
use serde_json::json;

use crate::exec::{run, Outcome};
use crate::node::*;
use crate::prod::*;
use crate::report::{par_map, workers, Report, Tier};
use crate::seams::key;

#[derive(Clone, Copy, Debug, PartialEq, Eq)]
pub enum Op {
    In1,
    In2,
    OutSmall,
    OutSmallFee,
    OutAll,
    OutTooMuch,
    /// a payment from the wallet's key built elsewhere (another device) and relayed through this
    /// node: registered as pending like every own-key transaction the node sends out
    OutExternal,
    Block,
    ReorgAway1,
    ReorgAway2,
    ReorgBack,
}
pub const OPS: [Op; 11] = [Op::Block, Op::In1, Op::OutSmall, Op::In2, Op::OutSmallFee, Op::OutAll, Op::OutTooMuch, Op::OutExternal, Op::ReorgAway1, Op::ReorgAway2, Op::ReorgBack];

struct W {
    p: Prod,
    g: u64,
    /// inputs of transactions the wallet built that are not yet confirmed on the chain
    committed: BTreeSet<SaitoUTXOSetKey>,
    reorged: bool,
    /// built transactions are registered as pending in the wallet (the node's send path)
    pending_registered: bool,
    /// abandoned chain (to re-wind to)
    abandoned: Option<Vec<Vec<u8>>>,
    ctr: u64,
}

fn init(g: u64) -> Result<W, String> {
    let p = Prod::new(g, 5000, 0)?;
    Ok(W { p, g, committed: BTreeSet::new(), reorged: false, pending_registered: g != 3, abandoned: None, ctr: 0 })
}

fn peer_block_on(w: &mut W, chain: &[Vec<u8>], salt: u64) -> Result<Vec<u8>, String> {
    let mut n = LedgerNode::new(key(7), w.p.cfg.clone());
    for b in chain.iter() {
        let _ = n.add_block_bytes(b);
    }
    let parent = decode_block(chain.last().unwrap());
    let ts = parent.timestamp + 10_000 + salt;
    let gt = if (parent.id + 1) % 2 == 0 {
        let mut t = golden_ticket_tx(parent.hash, parent.difficulty, &key(7), 0);
        t.generate(&key(7).public, 0, 0);
        Some(t)
    } else {
        None
    };
    let mut t = make_tx(&[], &[(key(5).public, 0)], &key(5), ts, format!("pe{}", salt).as_bytes());
    t.generate(&key(7).public, 0, 0);
    let bc = n.blockchain.clone();
    let cfg = n.cfg.clone();
    let storage = &n.storage;
    match run(async {
        let bc = bc.read().await;
        let mut map = txmap(vec![t]);
        Block::create(&mut map, parent.hash, &bc, ts, &key(7).public, &key(7).private, gt, &cfg, storage).await
    }) {
        Outcome::Done(Ok(b)) => Ok(block_bytes(&b)),
        o => Err(format!("peer block: {}", o.label())),
    }
}

fn set_chain(w: &mut W, chain: Vec<Vec<u8>>) {
    let mut l = RefLedger::default();
    for b in chain.iter() {
        l.apply(&decode_block(b));
    }
    l.missing_inputs.clear();
    let blk = decode_block(chain.last().unwrap());
    w.p.ledger = l;
    w.p.tip_ts = blk.timestamp;
    w.p.tip_hash = blk.hash;
    w.p.tip_id = blk.id;
    w.p.tip_difficulty = blk.difficulty;
    w.p.chain = chain;
}

fn wallet_tx(w: &mut W, amount: u64, fee: u64, rep: &mut Report, ctx: &serde_json::Value) -> Option<Transaction> {
    let wl = w.p.node.wallet.clone();
    let me = w.p.node.key;
    let tip = w.p.tip_id;
    let g = w.g;
    let r = run(async move {
        let mut wal = wl.write().await;
        Transaction::create(&mut wal, key(2).public, amount, fee, false, None, tip, g)
    });
    match r {
        Outcome::Done(Ok(mut t)) => {
            t.sign(&me.private);
            Some(t)
        }
        Outcome::Done(Err(_)) => None,
        o => {
            rep.violate("abort/create", o.label(), ctx.clone());
            None
        }
    }
}

/// (balance, unspent list, spent flags) of the wallet
fn wallet_fingerprint(w: &W) -> (u64, Vec<String>, Vec<String>) {
    let wal = w.p.node.wallet.try_read().unwrap();
    let show = |k: &SaitoUTXOSetKey| Slip::parse_slip_from_utxokey(k).map(|s| format!("{}-{}-{}:{}", s.block_id, s.tx_ordinal, s.slip_index, s.amount)).unwrap_or_default();
    let mut u: Vec<String> = wal.unspent_slips.iter().map(show).collect();
    u.sort();
    let mut sp: Vec<String> = wal.slips.iter().filter(|(_, s)| s.spent).map(|(k, _)| show(k)).collect();
    sp.sort();
    (wal.get_available_balance(), u, sp)
}

fn balance(w: &W) -> u64 {
    w.p.node.wallet.try_read().unwrap().get_available_balance()
}

fn apply(w: &mut W, op: Op, rep: &mut Report, hist: &[Op]) -> bool {
    let ctx = json!({"g": w.g, "history": hist.iter().map(|o| format!("{:?}", o)).collect::<Vec<_>>()});
    let hb = 5000u64;
    match op {
        Op::In1 | Op::In2 => {
            let k1 = key(1);
            let me = w.p.node.key.public;
            let g = w.g;
            let h = w.p.tip_id + 1;
            let pooled: BTreeSet<SaitoUTXOSetKey> = w.p.node.obs().pool_utxo_map.into_iter().collect();
            let Some(s) = w.p.ledger.unspent_of(&k1.public).into_iter().filter(|s| s.block_id + g > h + 1 && s.amount > 100_000 && !pooled.contains(&s.get_utxoset_key())).max_by_key(|s| s.amount) else { return false };
            w.ctr += 1;
            let outs = if op == Op::In1 { vec![(me, 30_000 + w.ctr), (k1.public, s.amount - 30_000 - w.ctr)] } else { vec![(me, 11_000 + w.ctr), (me, 12_000 + w.ctr), (k1.public, s.amount - 23_000 - 2 * w.ctr)] };
            let t = make_tx(&[s], &outs, &k1, w.p.tip_ts + 5, b"in");
            matches!(w.p.submit(t), Outcome::Done(true))
        }
        Op::OutSmall | Op::OutSmallFee | Op::OutAll | Op::OutTooMuch => {
            let bal = balance(w);
            let (amount, fee) = match op {
                Op::OutSmall => (1000, 0),
                Op::OutSmallFee => (1000, 500),
                Op::OutAll => (bal, 0),
                _ => (bal + 1, 0),
            };
            if bal == 0 && op != Op::OutTooMuch {
                return false;
            }
            let before = wallet_fingerprint(w);
            let Some(t) = wallet_tx(w, amount, fee, rep, &ctx) else {
                rep.outcome(if op == Op::OutTooMuch { "create-refused:too-much" } else { "create-refused" });
                // a refused request builds nothing, so it commits nothing: the wallet is unchanged
                let after = wallet_fingerprint(w);
                if before != after {
                    rep.violate(&format!("refused-request-changed-wallet/{:?}", op), format!("before {:?} after {:?} history {:?}", before, after, hist), ctx.clone());
                }
                return true;
            };
            if op == Op::OutTooMuch {
                rep.violate("wallet-built-tx-spending-more-than-balance", format!("balance {} amount {}", bal, amount), ctx.clone());
            }
            // properties of the built transaction
            let ins: Vec<SaitoUTXOSetKey> = t.from.iter().filter(|s| s.amount > 0).map(|s| s.get_utxoset_key()).collect();
            let uniq: BTreeSet<_> = ins.iter().cloned().collect();
            if uniq.len() != ins.len() {
                rep.violate("wallet-tx-references-output-twice", format!("{:?}", hist), ctx.clone());
            }
            let tin: u128 = t.from.iter().map(|s| s.amount as u128).sum();
            let tout: u128 = t.to.iter().map(|s| s.amount as u128).sum();
            if tout + fee as u128 > tin {
                rep.violate("wallet-tx-spends-more-than-it-consumes", format!("in {} out {} fee {}", tin, tout, fee), ctx.clone());
            }
            {
                let bc = w.p.node.blockchain.try_read().unwrap();
                let mut c = t.clone();
                c.generate(&w.p.node.key.public, 0, 0);
                if !c.validate(&bc.utxoset, &bc, true) {
                    let kind = if w.reorged { "after-reorg" } else { "linear" };
                    let ins: Vec<String> = c.from.iter().map(|s| format!("{}-{}-{}:{}:{:?}:onledger={}", s.block_id, s.tx_ordinal, s.slip_index, s.amount, s.slip_type, w.p.ledger.utxo.contains(&s.get_utxoset_key()))).collect();
                    rep.violate(&format!("wallet-tx-invalid-on-its-ledger/{}/{:?}", kind, op), format!("{:?} tip {} inputs {:?}", hist, w.p.tip_id, ins), ctx.clone());
                }
            }
            for k in ins {
                w.committed.insert(k);
            }
            rep.outcome("wallet-tx-built");
            // as the node does when it sends its own transaction out (Network::propagate_transaction):
            // the wallet keeps it as pending until a block carries it
            if w.pending_registered {
                let wl = w.p.node.wallet.clone();
                let mut tt = t.clone();
                tt.generate(&w.p.node.key.public, 0, 0);
                let _ = run(async move {
                    let mut wal = wl.write().await;
                    wal.add_to_pending(tt);
                });
            }
            let _ = w.p.submit(t);
            true
        }
        Op::OutExternal => {
            let me = w.p.node.key;
            let g = w.g;
            let h = w.p.tip_id + 1;
            let pooled: BTreeSet<SaitoUTXOSetKey> = w.p.node.obs().pool_utxo_map.into_iter().collect();
            let Some(sl) = w.p.ledger.unspent_of(&me.public).into_iter().filter(|s| s.block_id + g > h + 1 && s.amount > 10_000 && !pooled.contains(&s.get_utxoset_key()) && !w.committed.contains(&s.get_utxoset_key())).min_by_key(|s| s.amount) else { return false };
            w.ctr += 1;
            let mut t = make_tx(&[sl.clone()], &[(key(2).public, 4_000 + w.ctr), (me.public, sl.amount - 4_000 - w.ctr)], &me, w.p.tip_ts + 7, b"external");
            t.generate(&me.public, 0, 0);
            let wl = w.p.node.wallet.clone();
            let tt = t.clone();
            let _ = run(async move {
                let mut wal = wl.write().await;
                wal.add_to_pending(tt);
            });
            rep.outcome("external-own-key-payment-relayed");
            matches!(w.p.submit(t), Outcome::Done(true))
        }
        Op::Block => {
            let ts = w.p.tip_ts + 2 * hb;
            if w.p.node.obs().pool_txs.is_empty() {
                w.ctr += 1;
                let t = make_tx(&[], &[(key(5).public, 0)], &key(5), ts, format!("e{}", w.ctr).as_bytes());
                let _ = w.p.submit(t);
            }
            match w.p.bundle(ts, (w.p.tip_id + 1) % 2 == 0) {
                Produced::Block(b) => {
                    let (a, _) = w.p.commit(&b);
                    if !matches!(a, Outcome::Done(AddRes::AddedLongest)) {
                        rep.outcome("block-refused(C07)");
                        return false;
                    }
                    let blk = decode_block(&b);
                    for t in blk.transactions.iter() {
                        for s in t.from.iter() {
                            w.committed.remove(&s.get_utxoset_key());
                        }
                    }
                    true
                }
                _ => false,
            }
        }
        Op::ReorgAway1 | Op::ReorgAway2 => {
            let k = if op == Op::ReorgAway1 { 1 } else { 2 };
            let n = w.p.chain.len();
            if n < k + 2 || w.abandoned.is_some() {
                return false;
            }
            let old = w.p.chain.clone();
            let mut chain: Vec<Vec<u8>> = old[..n - k].to_vec();
            for i in 0..k + 1 {
                w.ctr += 1;
                let salt = 100 + w.ctr + i as u64;
                let b = match peer_block_on(w, &chain, salt) {
                    Ok(b) => b,
                    Err(_) => return false,
                };
                let r = w.p.node.add_block_bytes(&b);
                let _ = w.p.twin.add_block_bytes(&b);
                if matches!(r, Outcome::Panicked(_) | Outcome::Stalled) {
                    rep.violate("abort/reorg", r.label(), ctx.clone());
                    return false;
                }
                chain.push(b);
            }
            if w.p.node.tip().1 != decode_block(chain.last().unwrap()).hash {
                return false;
            }
            set_chain(w, chain);
            w.abandoned = Some(old);
            w.reorged = true;
            rep.outcome("reorg-away");
            true
        }
        Op::ReorgBack => {
            let Some(old) = w.abandoned.clone() else { return false };
            // extend the abandoned chain until it is longer again
            let mut chain = old;
            let target = w.p.chain.len() + 1;
            while chain.len() < target {
                w.ctr += 1;
                let salt = 500 + w.ctr;
                let b = match peer_block_on(w, &chain, salt) {
                    Ok(b) => b,
                    Err(_) => return false,
                };
                let _ = w.p.node.add_block_bytes(&b);
                let _ = w.p.twin.add_block_bytes(&b);
                chain.push(b);
            }
            if w.p.node.tip().1 != decode_block(chain.last().unwrap()).hash {
                return false;
            }
            set_chain(w, chain);
            w.abandoned = None;
            rep.outcome("reorg-back");
            true
        }
    }
}

fn invariants(w: &W, rep: &mut Report, hist: &[Op]) {
    let ctx = json!({"g": w.g, "history": hist.iter().map(|o| format!("{:?}", o)).collect::<Vec<_>>()});
    let last = hist.last().map(|o| format!("{:?}", o)).unwrap_or_default();
    let wal = w.p.node.wallet.try_read().unwrap();
    let sum: u128 = wal.unspent_slips.iter().map(|k| wal.slips.get(k).map(|s| s.amount as u128).unwrap_or(0)).sum();
    let missing = wal.unspent_slips.iter().filter(|k| !wal.slips.contains_key(*k)).count();
    if sum != wal.get_available_balance() as u128 || missing > 0 {
        let kind = if w.reorged { "after-reorg" } else { "linear" };
        rep.violate(&format!("balance-differs-from-unspent-sum/{}/after-{}", kind, last), format!("balance {} sum of unspent {} (dangling {}) after {:?}", wal.get_available_balance(), sum, missing, hist), ctx.clone());
    }
    if !w.reorged {
        let tip = w.p.tip_id;
        let me = w.p.node.key.public;
        let ledger: BTreeSet<SaitoUTXOSetKey> = w
            .p
            .ledger
            .unspent_of(&me)
            .into_iter()
            .filter(|s| s.slip_type != SlipType::BlockStake && s.block_id + w.g > tip && !w.committed.contains(&s.get_utxoset_key()))
            .map(|s| s.get_utxoset_key())
            .collect();
        let edge = |k: &SaitoUTXOSetKey| Slip::parse_slip_from_utxokey(k).map(|s| s.block_id + w.g == tip).unwrap_or(false);
        let mine: BTreeSet<SaitoUTXOSetKey> = wal.unspent_slips.iter().cloned().collect();
        for k in ledger.iter() {
            if !mine.contains(k) {
                let s = Slip::parse_slip_from_utxokey(k).unwrap();
                rep.violate(&format!("wallet-misses-spendable-output/after-{}", last), format!("ledger output {}-{}-{} amount {} ({:?}) is spendable but not in the wallet's unspent list after {:?}", s.block_id, s.tx_ordinal, s.slip_index, s.amount, s.slip_type, hist), ctx.clone());
            }
        }
        for k in mine.iter() {
            if !ledger.contains(k) && !edge(k) {
                let s = Slip::parse_slip_from_utxokey(k).unwrap();
                let why = if w.committed.contains(k) { "committed-to-pending" } else if !w.p.ledger.utxo.contains(k) { "not-on-ledger" } else { "expired" };
                rep.violate(&format!("wallet-lists-unspendable-output/{}/after-{}", why, last), format!("wallet lists {}-{}-{} amount {} as unspent after {:?}", s.block_id, s.tx_ordinal, s.slip_index, s.amount, hist), ctx.clone());
            }
        }
    }
}

fn replay(g: u64, hist: &[Op], rep: &mut Report) -> Option<(W, bool)> {
    let mut w = match init(g) {
        Ok(w) => w,
        Err(e) => {
            rep.machinery(e);
            return None;
        }
    };
    for (i, op) in hist.iter().enumerate() {
        let mut scratch = rep.child();
        let ok = if i + 1 == hist.len() { apply(&mut w, *op, rep, hist) } else { apply(&mut w, *op, &mut scratch, &hist[..=i]) };
        if !ok {
            return Some((w, false));
        }
    }
    Some((w, true))
}

pub fn main(tier: Tier, _replay: Option<String>) -> i32 {
    let mut rep = Report::new("C19", tier.clone(), "model_checking");
    let depth = if tier.thorough { 8 } else { 6 };
    rep.bounds = json!({"depth": depth, "genesis_periods": [3, 6], "alphabet": OPS.iter().map(|o| format!("{:?}", o)).collect::<Vec<_>>()});
    rep.rule = "breadth-first search over operation sequences on the producer node's real wallet at genesis period 3 (outputs expire inside the bound) and 6 (nothing expires: what a reorganisation returns can be spent again); state = history, deduplicated by the observable digest (chain, utxo, wallet slips / unspent / balance, pool)".into();
    rep.assumptions = vec!["an output created exactly genesis_period blocks before the tip is a don't-care for the ledger comparison (window edge)".into(), "ledger comparison only on histories without reorganisation, balance = sum(unspent) always".into()];
    let g: u64 = std::env::var("VERIF_C19_G").ok().and_then(|x| x.parse().ok()).unwrap_or(3);
    if let Ok(hs) = std::env::var("VERIF_C19_HISTORY") {
        // developer aid: evaluate one history, e.g. VERIF_C19_HISTORY=In1,Block,OutSmall,Block,ReorgAway1,OutAll
        let hist: Vec<Op> = hs.split(',').filter_map(|n| OPS.iter().find(|o| format!("{:?}", o) == n.trim()).cloned()).collect();
        let mut r = rep.child();
        for i in 1..=hist.len() {
            let h = &hist[..i];
            match replay(g, h, &mut r) {
                Some((w, ok)) => {
                    println!("{:?}: applicable={} tip={} balance={} unspent={:?}", h.last().unwrap(), ok, w.p.tip_id, balance(&w), wallet_fingerprint(&w).1);
                    if ok {
                        invariants(&w, &mut r, h);
                    }
                }
                None => println!("{:?}: replay failed", h.last().unwrap()),
            }
        }
        for (k, v) in r.outcomes.iter() {
            println!("  {} {}", v, k);
        }
        return 0;
    }
    let cap: usize = std::env::var("VERIF_C19_CAP").ok().and_then(|x| x.parse().ok()).unwrap_or(if tier.thorough { 6000 } else { 20000 });
    let mut all_seen: BTreeSet<Hash> = BTreeSet::new();
    // genesis period 3: outputs expire inside the bound; genesis period 6: nothing expires, so that
    // what a reorganisation gives back to the wallet is still young enough to be spent again
    for g in [3u64, 6] {
    let mut seen: BTreeSet<Hash> = BTreeSet::new();
    let mut frontier: Vec<Vec<Op>> = vec![vec![]];
    let mut level = 0;
    while level < depth && !frontier.is_empty() {
        level += 1;
        let mut cands = vec![];
        for h in frontier.iter() {
            for op in OPS {
                let mut x = h.clone();
                x.push(op);
                cands.push(x);
            }
        }
        let results = par_map(&cands, workers(), |_, h| {
            let mut r = rep.child();
            r.evaluations += 1;
            r.transitions += 1;
            let Some((w, ok)) = replay(g, h, &mut r) else { return (r, None) };
            if !ok {
                r.outcome("op-not-applicable");
                return (r, None);
            }
            invariants(&w, &mut r, h);
            r.traces_validated += 1;
            let mut o = w.p.node.obs();
            o.files.clear();
            (r, Some(o.digest()))
        });
        let mut next = vec![];
        for (h, (r, d)) in cands.into_iter().zip(results.into_iter()) {
            rep.merge(r);
            if let Some(d) = d {
                if seen.insert(d) {
                    next.push(h);
                }
            }
        }
        rep.outcome_n(&format!("g{}:level-{}-new-states", g, level), next.len() as u64);
        // keep the frontier tractable: beyond depth 4 continue only from histories that contain
        // at most two non-Block operations in a row (documented cap)
        if level >= 4 && level < depth && next.len() > cap {
            rep.exhaustive = false;
            next.truncate(cap);
            rep.extra.insert("frontier_cap".into(), json!({"level": level, "kept": cap}));
        }
        frontier = next;
    }
    rep.states += seen.len() as u64;
    all_seen.extend(seen);
    }
    rep.distinct = all_seen.iter().map(|h| hex::encode(&h[0..8])).collect();
    rep.sample(json!({"history": ["In1", "Block", "OutSmall", "Block", "ReorgAway1", "ReorgBack"]}));
    rep.required_outcomes = vec!["wallet-tx-built".into(), "reorg-away".into(), "reorg-back".into()];
    rep.finish()
}
