//! C13 — automatic rebroadcast preserves ownership at the retention-window edge.
//! Producer-world histories long enough to wrap the window; a monitor on every accepted block.

use std::collections::BTreeSet;

use saito_core::core::consensus::block::Block;
use saito_core::core::consensus::slip::{Slip, SlipType};
use saito_core::core::consensus::transaction::{Transaction, TransactionType};
use serde_json::json;

use crate::exec::{run, Outcome};
use crate::node::*;
use crate::prod::*;
use crate::report::{par_map, workers, Report, Tier};
use crate::seams::key;

#[derive(Clone, Debug, PartialEq)]
pub enum Act {
    /// plain payment K1->K2 with the given fee
    Pay(u64),
    /// payment creating two outputs for K2
    PayTwo(u64),
    /// payment creating a dust output (amount) for K2
    Dust(u64, u64),
    /// K2 spends its oldest still-spendable output (possibly one block before it expires)
    SpendOldest,
    /// the producer mints an NFT (Bound/Normal/Bound triple) to itself
    NftCreate,
    /// same, depositing the whole input so that the triple is the transaction's last outputs
    NftCreateNoChange,
    /// the owner of an NFT spends the payload (the Normal slip between the two Bound slips) on
    /// its own with a hand-made transaction; the Bound slips stay behind unspent
    SpendNftPayload,
    Empty,
}

#[derive(Clone, Debug)]
pub struct Step {
    pub act: Act,
    pub gt: bool,
    /// before this step a competitor block arrives first at the next height and then loses to a
    /// two-block branch whose first block carries a payment (two blocks stored at that height)
    pub fork_before: bool,
}

/// a block built by another producer (real Block::create on a node replaying `chain`)
pub fn peer_block(p: &Prod, chain: &[Vec<u8>], txs: Vec<Transaction>, ts: u64, gt: bool) -> Result<Vec<u8>, String> {
    let who = key(7);
    let mut n = LedgerNode::new(who, p.cfg.clone());
    for b in chain.iter() {
        let _ = n.add_block_bytes(b);
    }
    let parent = decode_block(chain.last().unwrap());
    let gtx = if gt {
        let mut t = crate::node::golden_ticket_tx(parent.hash, parent.difficulty, &who, 0);
        t.generate(&who.public, 0, 0);
        Some(t)
    } else {
        None
    };
    let mut gen = vec![];
    for mut t in txs {
        t.generate(&who.public, 0, 0);
        gen.push(t);
    }
    let bc = n.blockchain.clone();
    let cfg = n.cfg.clone();
    let storage = &n.storage;
    match run(async {
        let bc = bc.read().await;
        let mut map = crate::node::txmap(gen);
        Block::create(&mut map, parent.hash, &bc, ts, &who.public, &who.private, gtx, &cfg, storage).await
    }) {
        Outcome::Done(Ok(b)) => Ok(crate::node::block_bytes(&b)),
        o => Err(format!("peer block: {}", o.label())),
    }
}

pub fn set_chain(p: &mut Prod, chain: Vec<Vec<u8>>) {
    let mut l = RefLedger::default();
    for b in chain.iter() {
        l.apply(&decode_block(b));
    }
    l.missing_inputs.clear();
    let blk = decode_block(chain.last().unwrap());
    p.ledger = l;
    p.tip_ts = blk.timestamp;
    p.tip_hash = blk.hash;
    p.tip_id = blk.id;
    p.tip_difficulty = blk.difficulty;
    p.chain = chain;
}

fn build_tx(p: &mut Prod, act: &Act, ts: u64) -> Option<Transaction> {
    let g = p.cfg.consensus.genesis_period;
    let h = p.tip_id + 1;
    let k1 = key(1);
    let k2 = key(2);
    let pick = |p: &Prod, who: &crate::seams::Key, min: u64| -> Option<Slip> { p.ledger.unspent_of(&who.public).into_iter().filter(|s| s.block_id + g > h + 1 && s.amount >= min).max_by_key(|s| s.amount) };
    match act {
        Act::Pay(fee) => {
            let s = pick(p, &k1, 2000 + fee)?;
            Some(make_tx(&[s.clone()], &[(k2.public, 1000), (k1.public, s.amount - 1000 - fee)], &k1, ts, b"pay"))
        }
        Act::PayTwo(fee) => {
            let s = pick(p, &k1, 5000 + fee)?;
            Some(make_tx(&[s.clone()], &[(k2.public, 1100), (k2.public, 1200), (k1.public, s.amount - 2300 - fee)], &k1, ts, b"two"))
        }
        Act::Dust(amount, fee) => {
            let s = pick(p, &k1, 5000 + fee)?;
            Some(make_tx(&[s.clone()], &[(k2.public, *amount), (k1.public, s.amount - amount - fee)], &k1, ts, b"dust"))
        }
        Act::SpendOldest => {
            let s = p.ledger.unspent_of(&k2.public).into_iter().filter(|s| s.block_id + g >= h && s.amount > 100).min_by_key(|s| (s.block_id, s.tx_ordinal, s.slip_index))?;
            Some(make_tx(&[s.clone()], &[(k1.public, s.amount)], &k2, ts, b"old"))
        }
        Act::NftCreate | Act::NftCreateNoChange => {
            let me = p.node.key;
            let s = p.ledger.unspent_of(&me.public).into_iter().filter(|s| s.block_id + g > h + 1 && s.slip_type == SlipType::Normal && s.amount > 10_000).min_by_key(|s| s.amount)?;
            let w = p.node.wallet.clone();
            let tip = p.tip_id;
            let deposit = if *act == Act::NftCreateNoChange { s.amount } else { 7_000 };
            match run(async move {
                let mut w = w.write().await;
                w.create_bound_transaction(s.amount, s.block_id, s.tx_ordinal, s.slip_index as u64, deposit, vec![1, 2, 3], &me.public, None, tip, g, "art".to_string()).await
            }) {
                Outcome::Done(Ok(t)) => Some(t),
                _ => None,
            }
        }
        Act::SpendNftPayload => {
            let me = p.node.key;
            let mine: Vec<Slip> = p.ledger.slips().into_iter().filter(|s| s.public_key == me.public).collect();
            if std::env::var("VERIF_C13_DEBUG").is_ok() {
                eprintln!("payload candidates at h={}: {:?}", h, mine.iter().map(|s| format!("{}-{}-{}:{}:{:?}", s.block_id, s.tx_ordinal, s.slip_index, s.amount, s.slip_type)).collect::<Vec<_>>());
            }
            let s = mine.iter().find(|s| s.slip_type == SlipType::Normal && s.slip_index == 1 && s.block_id + g > h + 1 && mine.iter().any(|b| b.slip_type == SlipType::Bound && b.block_id == s.block_id && b.tx_ordinal == s.tx_ordinal && b.slip_index == 0))?.clone();
            Some(make_tx(&[s.clone()], &[(me.public, s.amount)], &me, ts, b"payload"))
        }
        Act::Empty => None,
    }
}

/// the monitor: block `b` at height h on `prod` (ledger state `before` = just before b)
fn monitor(b: &Block, before: &RefLedger, parent: &Block, expiring: Option<&Block>, g: u64, rep: &mut Report, ctx: &serde_json::Value, cls: &str) {
    let atrs: Vec<&Transaction> = b.transactions.iter().filter(|t| t.transaction_type == TransactionType::ATR).collect();
    let Some(x) = expiring else {
        if !atrs.is_empty() {
            rep.violate(&format!("rebroadcast-before-window-wraps/{}", cls), format!("block {} carries {} rebroadcasts", b.id, atrs.len()), ctx.clone());
        }
        return;
    };
    // U: outputs of X still unspent just before B
    let mut u: Vec<(usize, Slip)> = vec![];
    for (ti, t) in x.transactions.iter().enumerate() {
        for s in t.to.iter() {
            if s.amount > 0 && before.utxo.contains(&s.get_utxoset_key()) {
                u.push((ti, s.clone()));
            }
        }
    }
    let staked = g as u128 * parent.avg_nolan_rebroadcast_per_block as u128;
    let mult: u128 = 1 + if staked > 0 { parent.treasury as u128 / staked } else { 0 };
    let mut handled: BTreeSet<usize> = BTreeSet::new();
    let mut expected_fees: u128 = 0;
    for a in atrs.iter() {
        // NFT triple or single
        let outs: Vec<&Slip> = a.to.iter().collect();
        let is_triple = outs.len() == 3 && outs[0].slip_type == SlipType::Bound && outs[2].slip_type == SlipType::Bound;
        let payload_out = if is_triple { outs[1] } else { outs[0] };
        if !is_triple && outs.len() != 1 {
            rep.violate(&format!("rebroadcast-shape/{}", cls), format!("block {}: rebroadcast with {} outputs", b.id, outs.len()), ctx.clone());
            continue;
        }
        if payload_out.slip_type != SlipType::ATR {
            rep.violate(&format!("rebroadcast-output-type/{}", cls), format!("block {}: {:?}", b.id, payload_out.slip_type), ctx.clone());
        }
        // find the expiring output it stands for
        let mut matched = None;
        for (i, (ti, s)) in u.iter().enumerate() {
            if handled.contains(&i) || s.slip_type == SlipType::Bound {
                continue;
            }
            let fee = x.transactions[*ti].get_serialized_size() as u128 * parent.avg_fee_per_byte as u128;
            let payout = s.amount as u128 * mult;
            if s.public_key == payload_out.public_key && payout > fee && payout - fee == payload_out.amount as u128 {
                matched = Some((i, fee));
                break;
            }
        }
        match matched {
            Some((i, fee)) => {
                handled.insert(i);
                expected_fees += fee;
                if is_triple {
                    // the two bound slips of the same transaction move along
                    for (j, (tj, s)) in u.iter().enumerate() {
                        if *tj == u[i].0 && s.slip_type == SlipType::Bound {
                            handled.insert(j);
                        }
                    }
                    if a.from.len() != 3 || a.from[0].public_key != outs[0].public_key || a.from[2].public_key != outs[2].public_key {
                        rep.violate(&format!("nft-triple-broken/{}", cls), format!("block {}", b.id), ctx.clone());
                    }
                }
            }
            None => {
                rep.violate(&format!("rebroadcast-of-non-expiring-or-wrong-owner-or-amount/{}", cls), format!("block {}: rebroadcast output {} to {} matches no unspent output of block {} (owner, value x{} - fee)", b.id, payload_out.amount, crate::seams::key_name(&payload_out.public_key), x.id, mult), ctx.clone());
            }
        }
    }
    let mut dust_total: u128 = 0;
    for (i, (ti, s)) in u.iter().enumerate() {
        if handled.contains(&i) {
            continue;
        }
        if s.slip_type == SlipType::Bound {
            // bound slips only travel inside a triple; a lone bound slip carries no value
            continue;
        }
        let fee = x.transactions[*ti].get_serialized_size() as u128 * parent.avg_fee_per_byte as u128;
        let payout = s.amount as u128 * mult;
        if payout > fee {
            rep.violate(&format!("expiring-output-not-rebroadcast/{}", cls), format!("block {}: output {} of {} in block {} (tx {}) is unspent, can pay the fee {} but is not rebroadcast", b.id, s.amount, crate::seams::key_name(&s.public_key), x.id, ti, fee), ctx.clone());
        } else {
            dust_total += s.amount as u128;
            rep.outcome("dust-collected");
        }
    }
    if mult == 1 && b.total_fees_atr as u128 != expected_fees + dust_total {
        rep.violate(&format!("rebroadcast-fees-mismatch/{}", cls), format!("block {}: total_fees_atr {} but rebroadcast fees {} + dust {}", b.id, b.total_fees_atr, expected_fees, dust_total), ctx.clone());
    }
    if !atrs.is_empty() {
        rep.outcome(&format!("rebroadcasts:{}", atrs.len().min(4)));
    }
}

pub fn run_history(g: u64, steps: &[Step], prune: u64, rep: &mut Report) {
    run_history_with(g, steps, prune, false, rep)
}

/// `supply`: the conservation oracle of C02 after every accepted block
pub fn run_history_with(g: u64, steps: &[Step], prune: u64, supply: bool, rep: &mut Report) {
    run_history_observed(g, steps, prune, supply, rep, &mut |_| {})
}

/// `accepted`: called with the bytes of every block the producer's node adopted, in order
pub fn run_history_observed(g: u64, steps: &[Step], prune: u64, supply: bool, rep: &mut Report, accepted: &mut dyn FnMut(&[u8])) {
    let hb = 5000u64;
    let mut p = match Prod::new_with(g, hb, 0, false, prune) {
        Ok(p) => p,
        Err(e) => {
            rep.machinery(e);
            return;
        }
    };
    let ctx = json!({"g": g, "prune_after_blocks": prune, "steps": steps.iter().map(|s| format!("{}{:?}{}", if s.fork_before { "fork;" } else { "" }, s.act, if s.gt { "+gt" } else { "" })).collect::<Vec<_>>()});
    let mut blocks: Vec<Block> = vec![decode_block(&p.chain[0])];
    for (i, s) in steps.iter().enumerate() {
        if s.fork_before {
            // competitor L first (becomes the tip), then M (with a payment K1->K2) and M2 take over
            let base = p.chain.clone();
            let ts0 = p.tip_ts + 2 * hb;
            let k1 = key(1);
            let h = p.tip_id + 1;
            let pay = p.ledger.unspent_of(&k1.public).into_iter().filter(|sl| sl.block_id + g > h + 1 && sl.amount >= 10_000).max_by_key(|sl| sl.amount).map(|sl| make_tx(&[sl.clone()], &[(key(2).public, 3_000), (k1.public, sl.amount - 3_000)], &k1, ts0 + 3, b"forkpay"));
            let lose = make_tx(&[], &[(key(5).public, 0)], &key(5), ts0 + 1, format!("lose{}", i).as_bytes());
            let next = make_tx(&[], &[(key(5).public, 0)], &key(5), ts0 + 2 * hb + 10, format!("next{}", i).as_bytes());
            let gt_h = h % 2 == 0;
            let built = (|| -> Result<(Vec<u8>, Vec<u8>, Vec<u8>), String> {
                let l = peer_block(&p, &base, vec![lose], ts0 + 1, gt_h)?;
                let m = peer_block(&p, &base, vec![pay.ok_or("no funds")?], ts0 + 3, gt_h)?;
                let mut c2 = base.clone();
                c2.push(m.clone());
                let m2 = peer_block(&p, &c2, vec![next], ts0 + 2 * hb + 10, !gt_h)?;
                Ok((l, m, m2))
            })();
            match built {
                Ok((l, m, m2)) => {
                    for b in [&l, &m, &m2] {
                        let r = p.node.add_block_bytes(b);
                        if std::env::var("VERIF_C13_DEBUG").is_ok() {
                            eprintln!("fork delivery: {:?} id {}", r, decode_block(b).id);
                        }
                        let _ = p.twin.add_block_bytes(b);
                    }
                    if p.node.tip().1 != decode_block(&m2).hash {
                        // is the branch refused on its own merits, or only because the competitor
                        // (with its rebroadcasts) was wound and unwound first?
                        let mut fresh = LedgerNode::new(key(8), p.cfg.clone());
                        for b in base.iter().chain([&m, &m2]) {
                            let _ = fresh.add_block_bytes(b);
                        }
                        if fresh.tip().1 == decode_block(&m2).hash {
                            let had_atr = decode_block(&l).transactions.iter().any(|t| t.transaction_type == TransactionType::ATR);
                            rep.violate(&format!("valid-longer-branch-refused-after-unwinding-a-competitor/{}", if had_atr { "competitor-carried-rebroadcasts" } else { "no-rebroadcasts" }), format!("step {}: a node that never saw the competitor adopts M, M2 (height {}); the node that wound and unwound the competitor stays at {}", i, h + 1, p.node.tip().0), ctx.clone());
                        } else {
                            rep.outcome("fork-not-adopted");
                        }
                        return;
                    }
                    let mut chain = base;
                    chain.push(m.clone());
                    chain.push(m2.clone());
                    set_chain(&mut p, chain);
                    blocks.push(decode_block(&m));
                    blocks.push(decode_block(&m2));
                    accepted(&l);
                    accepted(&m);
                    accepted(&m2);
                    rep.outcome("fork-across-history");
                }
                Err(_) => {
                    rep.outcome("fork-not-buildable");
                    return;
                }
            }
        }
        let ts = p.tip_ts + 2 * hb;
        rep.transitions += 1;
        if let Some(tx) = build_tx(&mut p, &s.act, ts) {
            let admitted = p.submit(tx);
            if s.act == Act::SpendNftPayload {
                rep.outcome(if matches!(admitted, Outcome::Done(true)) { "nft-payload-spent-on-its-own:admitted" } else { "nft-payload-spent-on-its-own:refused-by-the-pool" });
            }
        } else if s.act != Act::Empty {
            rep.outcome("action-not-applicable");
        }
        // an empty pool cannot be bundled: keep the chain moving with a zero-value transaction
        {
            let empty = p.node.obs().pool_txs.is_empty();
            if empty {
                let t = make_tx(&[], &[(key(5).public, 0)], &key(5), ts, format!("e{}", i).as_bytes());
                let _ = p.submit(t);
            }
        }
        let before = p.ledger.clone();
        // the window edge from the other side: the outputs of the block that the NEXT block will
        // rebroadcast are already outside the window for that block -- a user spend of one of
        // them must be refused now, or the output is handled twice
        {
            let h = blocks.last().unwrap().id + 1;
            if h > g + 1 {
                if let Some(x) = blocks.iter().find(|b| b.id == h - g - 1) {
                    for t in x.transactions.iter() {
                        for sl in t.to.iter() {
                            if sl.amount > 0 && sl.slip_type != SlipType::Bound && before.utxo.contains(&sl.get_utxoset_key()) {
                                if let Some(owner) = (0..10u8).map(key).find(|k| k.public == sl.public_key) {
                                    let spend = make_tx(&[sl.clone()], &[(owner.public, sl.amount)], &owner, ts.saturating_sub(1), b"edge");
                                    if let Outcome::Done(true) = p.submit(spend.clone()) {
                                        rep.violate("expiring-output-spendable-in-the-block-that-rebroadcasts-it", format!("before block {}: output {} of block {} admitted to the pool", h, sl.amount, x.id), ctx.clone());
                                        let mp = p.node.mempool.clone();
                                        let sig = spend.signature;
                                        let _ = run(async move {
                                            let mut m = mp.write().await;
                                            m.transactions.remove(&sig);
                                            m.utxo_map.clear();
                                        });
                                    } else {
                                        rep.outcome("expiring-output-refused-before-its-rebroadcast");
                                    }
                                }
                            }
                        }
                    }
                }
            }
        }
        // the same from further out, and in company: every output of a block that has left the
        // window for the next block and whose key the node still holds (collected as dust, or
        // about to be rebroadcast) is offered next to an input that carries no value and next to
        // the owner's newest spendable output -- one admissible input must not carry an old one
        {
            let h = blocks.last().unwrap().id + 1;
            let held: Vec<Slip> = {
                let bc = p.node.blockchain.try_read().unwrap();
                blocks
                    .iter()
                    .filter(|b| b.id + g + 1 <= h)
                    .flat_map(|b| b.transactions.iter().flat_map(|t| t.to.iter()))
                    .filter(|sl| sl.amount > 0 && sl.slip_type != SlipType::Bound && bc.utxoset.get(&sl.get_utxoset_key()) == Some(&true))
                    .cloned()
                    .collect()
            };
            for sl in held.iter().take(6) {
                let Some(owner) = (0..10u8).map(key).find(|k| k.public == sl.public_key) else { continue };
                let mut zero = Slip::default();
                zero.public_key = owner.public;
                zero.amount = 0;
                let recent = before.unspent_of(&owner.public).into_iter().filter(|x| x.block_id + g >= h && x.slip_type != SlipType::Bound && x.slip_type != SlipType::BlockStake).max_by_key(|x| (x.block_id, x.tx_ordinal, x.slip_index));
                let mut company: Vec<(&str, Slip)> = vec![("next-to-a-zero-amount-input", zero)];
                if let Some(r) = recent {
                    company.push(("next-to-a-recent-output", r));
                }
                for (label, c) in company {
                    for first in [true, false] {
                        let ins = if first { vec![sl.clone(), c.clone()] } else { vec![c.clone(), sl.clone()] };
                        let total: u64 = ins.iter().map(|x| x.amount).sum();
                        let spend = make_tx(&ins, &[(owner.public, total)], &owner, ts.saturating_sub(1), b"old-in-company");
                        if let Outcome::Done(true) = p.submit(spend.clone()) {
                            rep.violate(&format!("output-outside-the-window-spendable/{}", label), format!("before block {}: output {} of block {} (outside the window of block {}) admitted to the pool {}", h, sl.amount, sl.block_id, h, label), ctx.clone());
                            let mp = p.node.mempool.clone();
                            let sig = spend.signature;
                            let _ = run(async move {
                                let mut m = mp.write().await;
                                m.transactions.remove(&sig);
                                m.utxo_map.clear();
                            });
                        } else {
                            rep.outcome("old-output-in-company-refused");
                        }
                    }
                }
            }
        }
        match p.bundle(ts, s.gt) {
            Produced::Block(bytes) => {
                let (a, b) = p.commit(&bytes);
                if matches!(a, Outcome::Done(AddRes::AddedLongest)) && !matches!(b, Outcome::Done(AddRes::AddedLongest)) {
                    // the twin (same chain, other key) refuses what the producer's node adopted
                    rep.outcome(&format!("history-cut:block-not-accepted-by-the-twin/prune_after_blocks={}", prune));
                    return;
                }
                if !matches!(a, Outcome::Done(AddRes::AddedLongest)) {
                    // producer disagreement belongs to C07; stop this history
                    rep.outcome(&format!("history-cut:block-not-accepted/prune_after_blocks={}", prune));
                    if let Outcome::Panicked(m) = &a {
                        let blk = decode_block(&bytes);
                        let nft = blk.transactions.iter().any(|t| t.transaction_type == TransactionType::ATR && t.to.len() == 3);
                        let atr = blk.transactions.iter().any(|t| t.transaction_type == TransactionType::ATR);
                        rep.violate(&format!("node-panics-on-produced-block/{}", if nft { "nft-rebroadcast" } else if atr { "rebroadcast" } else { "plain" }), format!("step {} {:?}: {}", i, s.act, m), ctx.clone());
                    }
                    if std::env::var("VERIF_C13_DEBUG").is_ok() {
                        eprintln!("CUT at step {} {:?}: {:?} ctx {}", i, s.act, a, ctx);
                    }
                    return;
                }
                let blk = decode_block(&bytes);
                if supply {
                    if let Err(e) = supply_check(&p.node, &p.ledger, p.issued, g) {
                        rep.violate("supply-mismatch/history", format!("step {} {:?}: {}", i, s.act, e), ctx.clone());
                        return;
                    }
                    rep.outcome("supply-conserved-after-block");
                }
                let h = blk.id;
                let parent = blocks.last().unwrap().clone();
                let expiring = if h > g + 1 { blocks.iter().find(|b| b.id == h - g - 1) } else { None };
                let cls = match &s.act {
                    Act::Pay(f) | Act::PayTwo(f) => if *f > 0 { "fees" } else { "nofees" }.to_string(),
                    _ => "mixed".to_string(),
                };
                monitor(&blk, &before, &parent, expiring, g, rep, &ctx, &cls);
                // originals of everything that expired must be unspendable now
                if let Some(x) = expiring {
                    for t in x.transactions.iter() {
                        for sl in t.to.iter() {
                            if sl.amount > 0 && sl.slip_type != SlipType::Bound && before.utxo.contains(&sl.get_utxoset_key()) {
                                let owner = (0..10u8).map(key).find(|k| k.public == sl.public_key);
                                if let Some(owner) = owner {
                                    let spend = make_tx(&[sl.clone()], &[(owner.public, sl.amount)], &owner, ts + 1, b"late");
                                    if let Outcome::Done(true) = p.submit(spend.clone()) {
                                        rep.violate("expired-output-still-spendable", format!("after block {}: output {} of block {} admitted to the pool", h, sl.amount, x.id), ctx.clone());
                                        // take it out again so the history continues unaffected
                                        let mp = p.node.mempool.clone();
                                        let sig = spend.signature;
                                        let _ = run(async move {
                                            let mut m = mp.write().await;
                                            m.transactions.remove(&sig);
                                            m.utxo_map.clear();
                                        });
                                    }
                                }
                            }
                        }
                    }
                }
                blocks.push(blk);
                accepted(&bytes);
            }
            Produced::NoBlock => {
                rep.outcome("no-block");
            }
            Produced::Abort(m) => {
                rep.violate("producer-abort", m, ctx.clone());
                return;
            }
        }
    }
    rep.traces_validated += 1;
}

pub fn histories(tier: &Tier) -> Vec<(u64, Vec<Step>)> {
    let acts = vec![Act::Pay(0), Act::Pay(6_000), Act::PayTwo(0), Act::PayTwo(6_000), Act::Dust(30, 6_000), Act::Dust(30, 0), Act::SpendOldest, Act::NftCreate, Act::NftCreateNoChange, Act::SpendNftPayload, Act::Empty];
    let mut v = vec![];
    for g in [3u64, 4, 5] {
        if g == 5 && !tier.thorough {
            continue;
        }
        let n = (2 * g + 5) as usize;
        for fee in [0u64, 6_000] {
            let base: Vec<Step> = (0..n).map(|i| Step { act: Act::Pay(fee), gt: i % 2 == 1, fork_before: false }).collect();
            v.push((g, base.clone()));
            // a fork (loser stored first) at every position; the winner's payment output then
            // expires g+1 blocks later while two blocks are stored at its height
            for pos in 1..n.saturating_sub(g as usize + 2) {
                let mut s = base.clone();
                s[pos].fork_before = true;
                v.push((g, s.clone()));
                for a2 in [Act::SpendOldest, Act::PayTwo(fee)] {
                    for pos2 in (pos + 1)..n {
                        let mut s2 = s.clone();
                        s2[pos2].act = a2.clone();
                        v.push((g, s2));
                    }
                }
            }
            for pos in 0..n {
                for a in acts.iter() {
                    let mut s = base.clone();
                    s[pos].act = a.clone();
                    v.push((g, s.clone()));
                    if tier.thorough || g == 3 {
                        for pos2 in (pos + 1)..n {
                            for a2 in [Act::SpendOldest, Act::Dust(30, 6_000), Act::NftCreate, Act::NftCreateNoChange, Act::SpendNftPayload, Act::PayTwo(fee)] {
                                let mut s2 = s.clone();
                                s2[pos2].act = a2;
                                v.push((g, s2));
                            }
                        }
                    }
                }
            }
        }
    }
    v
}

pub fn main(tier: Tier, _replay: Option<String>) -> i32 {
    let mut rep = Report::new("C13", tier.clone(), "model_checking");
    if let Ok(spec) = std::env::var("VERIF_C13_ONE") {
        // developer aid: VERIF_C13_ONE="g,prune,fee" runs the default history once
        let v: Vec<u64> = spec.split(',').filter_map(|x| x.trim().parse().ok()).collect();
        let (g, prune, fee) = (v[0], v[1], v[2]);
        let steps: Vec<Step> = (0..(2 * g + 5) as usize).map(|i| Step { act: Act::Pay(fee), gt: i % 2 == 1, fork_before: false }).collect();
        let mut r = rep.child();
        run_history(g, &steps, prune, &mut r);
        for (k, v) in r.outcomes.iter() {
            println!("  {} {}", v, k);
        }
        return 0;
    }
    let hs = histories(&tier);
    rep.bounds = json!({"genesis_periods": if tier.thorough { vec![3, 4, 5] } else { vec![3, 4] }, "length": "2g+5", "fee_levels": [0, 6000], "deviations": "1 everywhere, 2 at g=3 (all g in thorough)", "alphabet": ["Pay", "PayTwo", "Dust", "SpendOldest", "NftCreate", "Empty"]});
    rep.rule = "histories = default payment script with <=2 deviations from a 9-symbol action alphabet, golden ticket every other block; monitor after every accepted block; distinct = histories".into();
    rep.assumptions = vec![
        "expected rebroadcast amount = value x (1 + parent.treasury / (g x parent.avg_nolan_rebroadcast_per_block)) - tx_size x parent.avg_fee_per_byte, from the parent's header values".into(),
        "rebroadcasts with a treasury payout are never accepted on the pinned tree (C07 known finding), so multiplier > 1 is not observed".into(),
    ];
    let results = par_map(&hs, workers(), |i, (g, steps)| {
        let mut r = rep.child();
        r.evaluations += 1;
        r.distinct.insert(format!("h{}", i));
        run_history(*g, steps, 8, &mut r);
        // histories with at most one deviation also on nodes that keep only the tip's transactions
        // in memory: the expiring block is read back from disk when it is rebroadcast
        let base_fee = [0u64, 6_000].into_iter().max_by_key(|f| steps.iter().filter(|s| matches!(&s.act, Act::Pay(x) if x == f)).count()).unwrap();
        let deviations = steps.iter().filter(|s| s.fork_before || !matches!(&s.act, Act::Pay(f) if *f == base_fee)).count();
        if deviations <= 1 {
            // prune_after_blocks = 2: the expiring block (g + 1 back) has dropped its transactions,
            // the two blocks whose routers the next block pays have not. With 1 the producer itself
            // cannot see the router of the block two back (a C07 matter: its own block is refused at
            // the first payout), so that setting is used where no fees are paid
            r.evaluations += 1;
            run_history(*g, steps, 2, &mut r);
            r.outcome("history-also-run-with-pruned-memory");
            if base_fee == 0 {
                r.evaluations += 1;
                run_history(*g, steps, 1, &mut r);
            }
        }
        if i == 7 {
            r.sample(json!({"g": g, "steps": steps.iter().map(|s| format!("{:?}{}", s.act, if s.gt { "+gt" } else { "" })).collect::<Vec<_>>()}));
        }
        r
    });
    for r in results {
        rep.merge(r);
    }
    super::c01::forged_rebroadcasts(&mut rep, &tier);
    rep.states = rep.evaluations;
    rep.required_outcomes = vec!["forged-rebroadcast-refused:rebroadcasts-due".into(), "forged-rebroadcast-refused:no-rebroadcast-due".into(), "dust-collected".into(), "rebroadcasts:1".into(), "rebroadcasts:4".into(), "fork-across-history".into()];
    rep.finish()
}
