//! C05 — fork choice: longest, heavy-enough, valid chain with enough golden tickets.
//! Two-branch forks over stems with every golden-ticket placement, light/normal branches and
//! every interleaved delivery; three monitors on every delivery.

use std::collections::BTreeSet;

use serde_json::{json, Value};

use crate::exec::Outcome;
use crate::factory::{World, HEARTBEAT};
use crate::node::*;
use crate::report::{par_map, workers, Report, Tier};
use crate::seams::{key, Cfg};

#[derive(Clone, Debug)]
pub struct Spec {
    pub stem_gt: Vec<bool>, // for ids 2..=s
    pub a: usize,
    pub b: usize,
    pub gt_a: Vec<bool>,
    pub gt_b: Vec<bool>,
    pub slow_a: bool,
    pub slow_b: bool,
    /// per-block spacing in heartbeats (overrides slow_*): burn-fee profile inside a branch
    pub sp_a: Option<Vec<u64>>,
    pub sp_b: Option<Vec<u64>>,
    /// genesis period of the world (12 = the ring never wraps inside a case; 3 = ring of six slots,
    /// ids 6 and 12 sit in slot 0)
    pub g: u64,
    /// the node under test has not completed its initial loading (a block whose parent is unknown
    /// is stored instead of being re-queued)
    pub loading: bool,
    /// the last block of branch b is replaced by an invalid twin (wrong burn fee, re-signed): a
    /// chain that fails while it is being wound, after its earlier blocks were applied
    pub invalid_last_b: bool,
    /// the first block of branch B is replaced by an invalid twin (its payment spends an output that
    /// never existed; re-signed by its creator) and the rest of the branch is re-parented onto it
    pub invalid_first_b: bool,
    /// the node under test keeps only the tip's transactions in memory (prune_after_blocks = 1)
    pub pruned: bool,
}

pub struct Fork {
    pub w: World,
    pub stem: Vec<usize>,
    pub aa: Vec<usize>,
    pub bb: Vec<usize>,
}

fn child(w: &mut World, parent: usize, gt: bool, spacing_hb: u64, salt: u64, label: &str) -> Result<usize, String> {
    let ts = w.blocks[parent].ts + HEARTBEAT * spacing_hb + salt;
    let k1 = key(1);
    let k2 = key(2);
    let mut txs = vec![];
    if let Some(t) = w.payment(parent, &k1, &k2.public, 1000 + salt, 0, ts) {
        txs.push(t);
    }
    w.build(parent, ts, if gt { Some(key(0)) } else { None }, txs, label)
}

pub fn build(spec: &Spec) -> Result<Fork, String> {
    let mut w = World::standard(spec.g);
    let mut bc = Cfg::new(spec.g, HEARTBEAT);
    bc.browser = true; // builders bypass the density rule (they must produce children of violators)
    bc.consensus.prune_after_blocks = 1000;
    w.builder_cfg = Some(bc);
    let mut stem = vec![0usize];
    for (i, gt) in spec.stem_gt.iter().enumerate() {
        let b = child(&mut w, *stem.last().unwrap(), *gt, 2, 0, &format!("S{}", i + 2))?;
        stem.push(b);
    }
    let f = *stem.last().unwrap();
    let mut aa = vec![];
    let mut p = f;
    for i in 0..spec.a {
        let sp = spec.sp_a.as_ref().map(|v| v[i]).unwrap_or(if spec.slow_a { 5 } else { 2 });
        let b = child(&mut w, p, spec.gt_a[i], sp, 10 + i as u64, &format!("A{}", i + 1))?;
        aa.push(b);
        p = b;
    }
    let mut bb = vec![];
    let mut p = f;
    for i in 0..spec.b {
        let sp = spec.sp_b.as_ref().map(|v| v[i]).unwrap_or(if spec.slow_b { 5 } else { 2 });
        let b = child(&mut w, p, spec.gt_b[i], sp, 20 + i as u64, &format!("B{}", i + 1))?;
        bb.push(b);
        p = b;
    }
    if spec.invalid_last_b {
        if let Some(&last) = bb.last() {
            let mut blk = decode_block(&w.blocks[last].bytes);
            blk.burnfee += 1;
            blk.sign(&w.creator.private);
            blk.generate().unwrap();
            let parent = w.blocks[last].parent;
            let idx = w.register(blk, parent, false, format!("B{}x", bb.len()));
            *bb.last_mut().unwrap() = idx;
        }
    }
    if spec.invalid_first_b && !bb.is_empty() {
        // its payment is replaced by one that spends an output which never existed (properly
        // signed by the payer): nothing a descendant's consensus values depend on changes
        let mut blk = decode_block(&w.blocks[bb[0]].bytes);
        blk.created_hashmap_of_slips_spent_this_block = false;
        blk.slips_spent_this_block.clear();
        let Some(i) = blk.transactions.iter().position(|t| t.transaction_type == saito_core::core::consensus::transaction::TransactionType::Normal && t.from.iter().any(|s| s.amount > 0)) else {
            return Err("first block of B carries no payment".into());
        };
        let mut ne = blk.transactions[i].from.iter().find(|s| s.amount > 0).unwrap().clone();
        ne.tx_ordinal += 40;
        let outs: Vec<(saito_core::core::defs::SaitoPublicKey, u64)> = blk.transactions[i].to.iter().map(|s| (s.public_key, s.amount)).collect();
        blk.transactions[i] = crate::node::make_tx(&[ne], &outs, &key(1), blk.transactions[i].timestamp, b"phantom");
        blk.merkle_root = [0; 32];
        blk.merkle_root = blk.generate_merkle_root(false, false);
        blk.sign(&w.creator.private);
        blk.generate().unwrap();
        let mut parent_idx = w.register(blk.clone(), w.blocks[bb[0]].parent, false, "B1x".into());
        let mut parent_hash = blk.hash;
        let n = bb.len();
        bb[0] = parent_idx;
        for i in 1..n {
            let honest = decode_block(&w.blocks[bb[i]].bytes);
            let c = super::c04::rebase(&w, &honest, parent_hash);
            parent_hash = c.hash;
            // valid in itself; its chain is not (World::path validity looks at every ancestor)
            let idx = w.register(c, Some(parent_idx), true, format!("B{}r", i + 1));
            bb[i] = idx;
            parent_idx = idx;
        }
    }
    Ok(Fork { w, stem, aa, bb })
}

/// the code's (strict) reading of the density rule for one block on its chain
pub fn density_ok_strict(w: &World, x: usize) -> bool {
    let mut depth = 0u64;
    let mut found = 0u64;
    let mut cur = w.blocks[x].parent;
    for _ in 0..5 {
        match cur {
            Some(p) => {
                depth += 1;
                if w.blocks[p].has_gt {
                    found += 1;
                }
                cur = w.blocks[p].parent;
            }
            None => break,
        }
    }
    if w.blocks[x].has_gt {
        found += 1;
    }
    if depth < 4 {
        return true;
    }
    let required = 2u64.saturating_sub(6u64.saturating_sub(depth + 1));
    found >= required
}

/// lenient reading: every window of six consecutive blocks on the chain ending at x has >= 2
pub fn density_ok_lenient_chain(w: &World, x: usize) -> bool {
    let path = w.path(x);
    if path.len() < 6 {
        return true;
    }
    for win in path.windows(6) {
        let c = win.iter().filter(|&&i| w.blocks[i].has_gt).count();
        if c < 2 {
            return false;
        }
    }
    true
}

pub fn chain_strict_ok(w: &World, x: usize) -> bool {
    w.path(x).iter().all(|&i| density_ok_strict(w, i))
}

fn common_ancestor(w: &World, x: usize, y: usize) -> usize {
    let px = w.path(x);
    let py = w.path(y);
    let mut c = px[0];
    for (a, b) in px.iter().zip(py.iter()) {
        if a == b {
            c = *a;
        } else {
            break;
        }
    }
    c
}

fn seg_bf(w: &World, from_excl: usize, to: usize) -> u128 {
    let mut s = 0u128;
    let mut cur = to;
    while cur != from_excl {
        s += w.blocks[cur].burnfee as u128;
        cur = w.blocks[cur].parent.expect("ancestor");
    }
    s
}

fn run_order(fk: &Fork, order: &[usize], orphan_swap: Option<usize>, spec: &Spec, rep: &mut Report, seen: &mut BTreeSet<Hash>) {
    let w = &fk.w;
    let mut cfg = w.cfg.clone();
    cfg.blockchain.initial_loading_completed = !spec.loading;
    if spec.pruned {
        cfg.consensus.prune_after_blocks = 1;
    }
    let mut n = LedgerNode::new(key(9), cfg);
    let ctx = json!({"pruned_memory": spec.pruned, "g": spec.g, "loading": spec.loading, "invalid_last_b": spec.invalid_last_b, "invalid_first_b": spec.invalid_first_b, "stem_gt": spec.stem_gt, "gt_a": spec.gt_a, "gt_b": spec.gt_b, "slow_a": spec.slow_a, "slow_b": spec.slow_b, "spacing_a": spec.sp_a, "spacing_b": spec.sp_b, "order": order, "orphan_swap": orphan_swap});
    for &i in fk.stem.iter() {
        match n.add_block_bytes(&w.blocks[i].bytes) {
            Outcome::Done(AddRes::AddedLongest) => {}
            o => {
                rep.machinery(format!("stem block {} refused: {:?} {}", w.blocks[i].label, o, ctx));
                return;
            }
        }
    }
    let mut seq: Vec<usize> = order.to_vec();
    if let Some(k) = orphan_swap {
        seq.swap(k, k + 1);
    }
    let mut delivered: BTreeSet<usize> = fk.stem.iter().cloned().collect();
    let mut trace: Vec<String> = vec![];
    let mut orphan_used = false;
    // blocks delivered before their parent and still waiting for it
    let mut waiting: Vec<usize> = vec![];
    for &x in seq.iter() {
        let before = n.obs();
        seen.insert(before.digest());
        let tip_before = w.index_of(&before.tip_hash).expect("tip known");
        trace.push(w.blocks[x].label.clone());
        rep.transitions += 1;
        let parent_known = w.blocks[x].parent.map(|p| delivered.contains(&p)).unwrap_or(true);
        let r = if orphan_swap.is_some() { n.deliver(&w.blocks[x].bytes).done().map(|_| AddRes::Exists) } else { n.add_block_bytes(&w.blocks[x].bytes).done() };
        let Some(_res) = r else {
            rep.violate("handler-abort", format!("delivery of {} aborted after {:?}", w.blocks[x].label, trace), json!({"ctx": ctx, "trace": trace}));
            return;
        };
        delivered.insert(x);
        let after = n.obs();
        let Some(tip_after) = w.index_of(&after.tip_hash) else {
            rep.violate("tip-unknown", "tip is not a delivered block".into(), json!({"ctx": ctx, "trace": trace}));
            return;
        };
        // M2
        if w.blocks[tip_after].id < w.blocks[tip_before].id {
            rep.violate("M2/tip-height-decreased", format!("tip height {} -> {} after {:?}", w.blocks[tip_before].id, w.blocks[tip_after].id, trace), json!({"ctx": ctx, "trace": trace}));
        }
        if !parent_known {
            orphan_used = true;
            waiting.push(x);
            rep.outcome("orphan-delivered");
            if after.tip_hash != before.tip_hash || after.lc_index != before.lc_index {
                rep.violate("M2/orphan-disturbed-index", format!("block {} arrived before its parent and changed tip/index ({:?})", w.blocks[x].label, trace), json!({"ctx": ctx, "trace": trace}));
            }
            continue;
        }
        // M1
        if tip_after != tip_before {
            let ca = common_ancestor(w, tip_before, tip_after);
            let new_len = w.blocks[tip_after].id;
            let old_len = w.blocks[tip_before].id;
            let nbf = seg_bf(w, ca, tip_after);
            let obf = seg_bf(w, ca, tip_before);
            let reorg = ca != tip_before;
            rep.outcome(if reorg { "tip-moved:reorg" } else { "tip-moved:extend" });
            if new_len <= old_len {
                rep.violate("M1/not-strictly-longer", format!("tip moved from height {} to {} ({:?})", old_len, new_len, trace), json!({"ctx": ctx, "trace": trace}));
            }
            if nbf < obf {
                rep.violate("M1/lighter-chain-adopted", format!("adopted segment burn fee {} < abandoned {} ({:?})", nbf, obf, trace), json!({"ctx": ctx, "trace": trace}));
            }
            if !w.path(tip_after).iter().all(|&i| w.blocks[i].valid) {
                rep.violate("M1/invalid-block-on-chain", format!("{:?}", trace), json!({"ctx": ctx, "trace": trace}));
            }
            // windows whose oldest block the node had already purged (2 x genesis period behind the
            // tip; only possible at g=3, where that horizon equals the window length) cannot be
            // evaluated by any node and are not judged
            let stored: BTreeSet<Hash> = before.blocks.iter().map(|b| b.0).collect();
            let path = w.path(tip_after);
            let sparse = path.len() >= 6 && path.windows(6).any(|win| stored.contains(&w.blocks[win[0]].hash) && win.iter().filter(|&&i| w.blocks[i].has_gt).count() < 2);
            if path.len() >= 6 && path.windows(6).any(|win| !stored.contains(&w.blocks[win[0]].hash)) {
                rep.outcome("info:density-window-reaches-purged-blocks(not-judged)");
            }
            if sparse {
                let tipwin_ok = density_ok_strict(w, tip_after);
                rep.violate(if tipwin_ok { "M1/density-violated-inside-adopted-chain" } else { "M1/density-violated-at-tip" }, format!("adopted chain has a window of six blocks with < 2 golden tickets ({:?})", trace), json!({"ctx": ctx, "trace": trace}));
            }
        } else {
            rep.outcome("tip-kept");
        }
        // M3 (only when the delivered block's whole ancestry was delivered in order)
        if !orphan_used {
            let ca = common_ancestor(w, tip_before, x);
            let longer = w.blocks[x].id > w.blocks[tip_before].id;
            let heavy = seg_bf(w, ca, x) >= seg_bf(w, ca, tip_before);
            let valid = w.path(x).iter().all(|&i| w.blocks[i].valid);
            let dense = chain_strict_ok(w, x);
            if longer && heavy && valid && dense {
                rep.outcome("M3-obligation");
                if tip_after != x {
                    rep.violate("M3/eligible-chain-not-adopted", format!("block {} completes a longer, heavy-enough, valid, dense chain but tip is {} ({:?})", w.blocks[x].label, w.blocks[tip_after].label, trace), json!({"ctx": ctx, "trace": trace}));
                }
            } else if longer && valid && dense && !heavy {
                rep.outcome("longer-but-lighter-offered");
            } else if longer && valid && heavy && !dense {
                rep.outcome("longer-but-sparse-offered");
            }
        }
        // M3 for a chain completed out of order: x is the parent a waiting block was missing. On a
        // node that has completed its initial loading the waiting block is kept in the queue and
        // must be taken up with its parent: if the chain ending in it is eligible, it is the tip
        if !spec.loading {
            if let Some(pos) = waiting.iter().position(|&o| w.blocks[o].parent == Some(x)) {
                let y = waiting.remove(pos);
                let ca = common_ancestor(w, tip_before, y);
                let longer = w.blocks[y].id > w.blocks[tip_before].id;
                let heavy = seg_bf(w, ca, y) >= seg_bf(w, ca, tip_before);
                let valid = w.path(y).iter().all(|&i| w.blocks[i].valid);
                let dense = chain_strict_ok(w, y);
                if longer && heavy && valid && dense && waiting.is_empty() {
                    rep.outcome("M3-obligation:chain-completed-by-a-late-parent");
                    if tip_after != y {
                        rep.violate("M3/eligible-chain-not-adopted/completed-by-a-late-parent", format!("block {} was the missing parent of {}: every block of a longer, heavy-enough, valid, dense chain is delivered but the tip is {} ({:?})", w.blocks[x].label, w.blocks[y].label, w.blocks[tip_after].label, trace), json!({"ctx": ctx, "trace": trace}));
                    }
                }
            }
        }
        // index consistency whenever no orphan is pending
        if !orphan_used {
            // after an attempt that failed while it was being wound the node may have run its
            // 2 x genesis-period purge for the candidate's height (the C04 finding); those cases
            // are keyed apart and matched instance by instance
            let failed_attempt = seq.iter().take_while(|&&y| y != x).chain(std::iter::once(&x)).any(|&y| !w.blocks[y].valid);
            for (clause, detail) in super::c03::ledger_consistency(w, &n) {
                if failed_attempt {
                    let key = format!("index-after-failed-attempt/{}", clause);
                    rep.violate_inst(&key, &format!("{}|{}|{:?}", key, ctx, trace), format!("{} ({:?})", detail, trace), json!({"ctx": ctx, "trace": trace}));
                } else {
                    rep.violate(&format!("index/{}", clause), format!("{} ({:?})", detail, trace), json!({"ctx": ctx, "trace": trace}));
                }
            }
        }
    }
    rep.traces_validated += 1;
}

fn interleavings(a: usize, b: usize) -> Vec<Vec<bool>> {
    // true = take next of A
    let mut out = vec![];
    fn rec(a: usize, b: usize, cur: &mut Vec<bool>, out: &mut Vec<Vec<bool>>) {
        if a == 0 && b == 0 {
            out.push(cur.clone());
            return;
        }
        if a > 0 {
            cur.push(true);
            rec(a - 1, b, cur, out);
            cur.pop();
        }
        if b > 0 {
            cur.push(false);
            rec(a, b - 1, cur, out);
            cur.pop();
        }
    }
    rec(a, b, &mut vec![], &mut out);
    out
}

fn subsets(n: usize) -> Vec<Vec<bool>> {
    (0..(1u32 << n)).map(|m| (0..n).map(|i| m & (1 << i) != 0).collect()).collect()
}

/// Equal weight: a one-block segment A against a two-block candidate B whose burn fees add up to
/// exactly A's (found by scanning A's timestamp, the burn fee being a step function of the elapsed
/// time). The candidate is strictly longer and not lighter, so it is adopted.
fn equal_weight(rep: &mut Report) {
    use saito_core::core::consensus::burnfee::BurnFee;
    let mut found = 0;
    for kb in [3u64, 4, 5, 8, 12] {
        let built = (|| -> Result<Option<(World, usize, usize, usize, usize)>, String> {
            let mut w = World::standard(12);
            // a stem of slow blocks brings the burn fee down to where it moves by less than one
            // nolan per millisecond, so that exact ties exist
            let mut s = 0usize;
            for i in 0..7u64 {
                s = child(&mut w, s, i % 2 == 0, 50, i, &format!("S{}", i + 2))?;
            }
            let b1 = child(&mut w, s, false, kb, 21, "B1")?;
            let b2 = child(&mut w, b1, true, kb, 22, "B2")?;
            let sum = w.blocks[b1].burnfee as u128 + w.blocks[b2].burnfee as u128;
            let (pbf, pts) = (w.blocks[s].burnfee, w.blocks[s].ts);
            let mut hit = None;
            for e in (2 * HEARTBEAT)..(200 * HEARTBEAT) {
                let bf = BurnFee::calculate_burnfee_for_block(pbf, pts + e, pts, HEARTBEAT);
                if bf as u128 == sum {
                    hit = Some(e);
                    break;
                }
                if (bf as u128) < sum {
                    break;
                }
            }
            let Some(e) = hit else { return Ok(None) };
            let ts = pts + e;
            let mut txs = vec![];
            if let Some(t) = w.payment(s, &key(1), &key(2).public, 1010, 0, ts) {
                txs.push(t);
            }
            let a = w.build(s, ts, None, txs, "A1")?;
            if w.blocks[a].burnfee as u128 != sum {
                return Ok(None);
            }
            Ok(Some((w, s, a, b1, b2)))
        })();
        match built {
            Ok(Some((w, s, a, b1, b2))) => {
                found += 1;
                for order in [vec![a, b1, b2], vec![b1, a, b2]] {
                    rep.evaluations += 1;
                    let mut cfg = w.cfg.clone();
                    cfg.blockchain.initial_loading_completed = true;
                    let mut n = LedgerNode::new(key(9), cfg);
                    let mut ok = true;
                    for i in w.path(s) {
                        ok &= matches!(n.add_block_bytes(&w.blocks[i].bytes), Outcome::Done(AddRes::AddedLongest));
                    }
                    for &i in order.iter() {
                        rep.transitions += 1;
                        ok &= n.add_block_bytes(&w.blocks[i].bytes).is_done();
                    }
                    let ctx = json!({"equal_weight": true, "candidate_spacing_hb": kb, "segment_burnfee": w.blocks[a].burnfee, "candidate_burnfees": [w.blocks[b1].burnfee, w.blocks[b2].burnfee], "order": order.iter().map(|&i| w.blocks[i].label.clone()).collect::<Vec<_>>()});
                    if !ok {
                        rep.machinery(format!("equal weight: deliveries failed {}", ctx));
                        continue;
                    }
                    if n.tip().1 != w.blocks[b2].hash {
                        rep.violate("M3/eligible-chain-not-adopted/equal-weight", format!("a strictly longer candidate of exactly the segment's weight is not the tip: {}", ctx), ctx.clone());
                    } else {
                        rep.outcome("M3-obligation:equal-weight-adopted");
                    }
                }
            }
            Ok(None) => rep.outcome("equal-weight:no-exact-tie-at-this-spacing"),
            Err(e) => rep.machinery(format!("equal weight world: {}", e)),
        }
    }
    if found == 0 {
        rep.machinery("equal weight: no exact tie found at any spacing".into());
    }
}

/// A node that joined mid-chain while loading: it holds only the upper part of branch A (its first
/// block is A2, the fork point and A1 are unknown to it) and is then offered the whole branch B,
/// which forks below everything it holds and is not longer than A. Nothing may move.
fn joined_mid_chain(rep: &mut Report) {
    let mut specs = vec![];
    for g in [12u64, 3] {
        for stem in [vec![], vec![true, false], vec![true, false, true]] {
            for a in 2..=3usize {
                for b in 1..=a {
                    for slow_b in [false, true] {
                        specs.push(Spec { stem_gt: stem.clone(), a, b, gt_a: (0..a).map(|i| i % 2 == 0).collect(), gt_b: (0..b).map(|i| i % 2 == 0).collect(), slow_a: false, slow_b, sp_a: None, sp_b: None, g, loading: true, invalid_last_b: false, invalid_first_b: false, pruned: false });
                    }
                }
            }
        }
    }
    let results = par_map(&specs, workers(), |_, spec| {
        let mut r = rep.child();
        let Ok(fk) = build(spec) else {
            r.outcome("unbuildable-spec");
            return r;
        };
        let w = &fk.w;
        let mut cfg = w.cfg.clone();
        cfg.blockchain.initial_loading_completed = false;
        let mut n = LedgerNode::new(key(9), cfg);
        let ctx = json!({"joined_mid_chain": true, "g": spec.g, "stem_gt": spec.stem_gt, "a": spec.a, "b": spec.b, "slow_b": spec.slow_b});
        r.evaluations += 1;
        for &i in fk.aa[1..].iter() {
            if !n.add_block_bytes(&w.blocks[i].bytes).is_done() {
                r.violate("joined-mid-chain/abort", format!("delivery of {}", w.blocks[i].label), ctx.clone());
                return r;
            }
        }
        let before = n.obs();
        if before.tip_hash != w.blocks[*fk.aa.last().unwrap()].hash {
            r.outcome("joined-mid-chain:upper-part-of-A-not-adopted(skipped)");
            return r;
        }
        let mut trace = vec![];
        for &i in fk.bb.iter() {
            trace.push(w.blocks[i].label.clone());
            r.transitions += 1;
            if !n.add_block_bytes(&w.blocks[i].bytes).is_done() {
                r.violate("joined-mid-chain/abort", format!("delivery of {}", w.blocks[i].label), ctx.clone());
                return r;
            }
            let o = n.obs();
            if o.tip_hash != before.tip_hash || o.lc_index != before.lc_index {
                r.violate("M1/not-strictly-longer/isolated-branch", format!("a node holding A2..A{} (tip height {}) moved to height {} after the isolated blocks {:?} of a branch that is not longer", spec.a, before.tip_id, o.tip_id, trace), ctx.clone());
                return r;
            }
        }
        r.outcome("joined-mid-chain:isolated-branch-of-no-greater-height-ignored");
        r.traces_validated += 1;
        r
    });
    for x in results {
        rep.merge(x);
    }
}

pub fn main(tier: Tier, replay: Option<String>) -> i32 {
    let mut rep = Report::new("C05", tier.clone(), "model_checking");
    if replay.is_some() {
        eprintln!("replay: re-run the listed ctx with `vrig C05` (cases are enumerated deterministically); see the replay file's ctx");
        return 0;
    }
    let maxlen = if tier.thorough { 3 } else { 2 };
    // stems: length 1, 3, 5 with every golden-ticket placement the node itself accepts
    let mut stems: Vec<Vec<bool>> = vec![vec![]];
    for s in [2usize, 4] {
        for pat in subsets(s) {
            stems.push(pat);
        }
    }
    let mut specs = vec![];
    for st in stems.iter() {
        for a in 0..=maxlen {
            for b in 0..=maxlen {
                if a + b == 0 || a > b {
                    continue; // symmetric: keep a <= b
                }
                for ga in subsets(a) {
                    for gb in subsets(b) {
                        for (sa, sb) in [(false, false), (false, true), (true, false), (true, true)] {
                            if a == 0 && sa {
                                continue;
                            }
                            specs.push(Spec { stem_gt: st.clone(), a, b, gt_a: ga.clone(), gt_b: gb.clone(), slow_a: sa, slow_b: sb, sp_a: None, sp_b: None, g: 12, loading: false, invalid_last_b: false, invalid_first_b: false, pruned: false });
                        }
                    }
                }
            }
        }
    }
    // weight profiles inside the branches: a two-block segment against a three-block candidate,
    // every spacing pattern over {2, 5} heartbeats on both (the candidate can be lighter than the
    // segment yet heavier than its first block, etc.)
    for st in [vec![], vec![true, false]] {
        for pa in 0..4u32 {
            for pb in 0..8u32 {
                let sp_a: Vec<u64> = (0..2).map(|i| if pa >> i & 1 == 1 { 5 } else { 2 }).collect();
                let sp_b: Vec<u64> = (0..3).map(|i| if pb >> i & 1 == 1 { 5 } else { 2 }).collect();
                specs.push(Spec { stem_gt: st.clone(), a: 2, b: 3, gt_a: vec![true, true], gt_b: vec![true, false, true], slow_a: false, slow_b: false, sp_a: Some(sp_a), sp_b: Some(sp_b), g: 12, loading: false, invalid_last_b: false, invalid_first_b: false, pruned: false });
            }
        }
    }
    // the main grid once more on a node that keeps only the tip's transactions in memory: every
    // reorganisation reloads the blocks it unwinds from disk
    {
        let pr: Vec<Spec> = specs.iter().filter(|s| s.a >= 1 && !s.slow_a && !s.slow_b).cloned().collect();
        for mut x in pr {
            x.pruned = true;
            specs.push(x);
        }
    }
    // the same grid at genesis period 3 (ring of six slots: ids 6 and 12 sit in slot 0, the windows
    // wrap inside the cases), for a node that has and one that has not completed its initial
    // loading; branches of up to three blocks in both tiers so that a stored child, its late
    // parent and a failing grandchild all occur
    {
        let g3: Vec<Spec> = specs.iter().filter(|s| s.sp_a.is_none()).cloned().collect();
        let mut extra = vec![];
        // stems of four blocks as well (branches start at id 5: their second block sits in slot 0)
        let mut stems3: Vec<Vec<bool>> = stems.clone();
        stems3.extend(subsets(3));
        for st in stems3.iter() {
            for a in 0..=3usize {
                for b in 3..=3usize {
                    if a > 1 && !(tier.thorough && st.len() == 3) {
                        continue; // b = 3 against a <= 1 (thorough: every a for the four-block stems)
                    }
                    if tier.thorough && st.len() != 3 && a <= 1 {
                        continue; // thorough has these in the main grid already
                    }
                    for ga in subsets(a) {
                        for gb in subsets(b) {
                            extra.push(Spec { stem_gt: st.clone(), a, b, gt_a: ga.clone(), gt_b: gb.clone(), slow_a: false, slow_b: false, sp_a: None, sp_b: None, g: 12, loading: false, invalid_last_b: false, invalid_first_b: false, pruned: false });
                        }
                    }
                }
            }
        }
        for s in g3.into_iter().chain(extra.into_iter()) {
            for loading in [false, true] {
                for inv in [false, true] {
                    if inv && s.b == 0 {
                        continue;
                    }
                    let mut x = s.clone();
                    x.g = 3;
                    x.loading = loading;
                    x.invalid_last_b = inv;
                    specs.push(x.clone());
                    // (loaded nodes only: a loading node drops the refused block and then takes its
                    // descendants for the start of a chain of their own -- C03's known finding)
                    if inv && s.b >= 2 && !loading {
                        let mut y = x.clone();
                        y.invalid_last_b = false;
                        y.invalid_first_b = true;
                        specs.push(y);
                    }
                }
            }
        }
    }
    rep.bounds = json!({"genesis_periods": [12, 3], "initial_loading_completed": "true; at g=3 also false", "branch_len_max": maxlen, "stems": "length 1,3,5 with every golden-ticket placement accepted in order", "gt_placement": "every subset on both branches", "burn_fee_profiles": ["normal(2hb)", "light(5hb)"], "orders": "every interleaving of the two branches + one adjacent child-before-parent swap per position"});
    rep.rule = "stem patterns x branch lengths x every golden-ticket subset x light/normal branch x every interleaving; distinct = observable state digests".into();
    rep.assumptions = vec![
        "start-up phase: M1 uses the lenient reading (only full six-block windows), M3 the code's strict reading; chains between the two readings are don't-cares".into(),
        "burn-fee profile: blocks are spaced >= 2 heartbeats so no routing work is needed; light = 5 heartbeats (lower burn fee)".into(),
        "builders bypass the density rule (browser flag) so that descendants of density-violating blocks exist; the node under test runs the normal configuration".into(),
    ];
    if std::env::var("VERIF_C05_DEBUG_ONE").is_ok() {
        // developer aid: one g=3 case, for reading the node's log
        if std::env::var("VERIF_C05_DEBUG_ONE").as_deref() == Ok("first") {
            specs.retain(|s| s.g == 3 && s.stem_gt.is_empty() && s.a == 0 && s.b == 3 && s.loading && s.invalid_first_b && !s.slow_b && s.gt_b == vec![false, false, false]);
        } else {
            specs.retain(|s| s.g == 3 && s.stem_gt == vec![true, true, true, true] && s.a == 0 && s.b == 1 && !s.loading && !s.slow_b);
        }
        specs.truncate(1);
    }
    let results = par_map(&specs, workers(), |_, spec| {
        let mut r = rep.child();
        let mut seen = BTreeSet::new();
        let fk = match build(spec) {
            Ok(f) => f,
            Err(e) => {
                r.outcome("unbuildable-spec");
                let _ = e;
                return (r, seen);
            }
        };
        // the stem must itself be acceptable in order
        if !fk.stem.iter().all(|&i| density_ok_strict(&fk.w, i)) {
            r.outcome("stem-rejected-by-density(skipped)");
            return (r, seen);
        }
        for il in interleavings(spec.a, spec.b) {
            let mut ia = 0;
            let mut ib = 0;
            let mut order = vec![];
            for t in il {
                if t {
                    order.push(fk.aa[ia]);
                    ia += 1;
                } else {
                    order.push(fk.bb[ib]);
                    ib += 1;
                }
            }
            r.evaluations += 1;
            run_order(&fk, &order, None, spec, &mut r, &mut seen);
            // child-before-parent variants through the consumer path
            for k in 0..order.len().saturating_sub(1) {
                let (x, y) = (order[k], order[k + 1]);
                if fk.w.blocks[y].parent == Some(x) {
                    r.evaluations += 1;
                    run_order(&fk, &order, Some(k), spec, &mut r, &mut seen);
                }
            }
        }
        if spec.a == 1 && spec.b == 2 && spec.slow_b && !spec.slow_a && r.samples.is_empty() {
            r.sample(json!({"stem_gt": spec.stem_gt, "gt_a": spec.gt_a, "gt_b": spec.gt_b, "slow_b": true, "blocks": fk.w.blocks.iter().map(|b| format!("{}:id{}:gt{}:bf{}", b.label, b.id, b.has_gt, b.burnfee)).collect::<Vec<_>>()}));
        }
        (r, seen)
    });
    let mut all = BTreeSet::new();
    for (r, s) in results {
        rep.merge(r);
        all.extend(s);
    }
    joined_mid_chain(&mut rep);
    equal_weight(&mut rep);
    rep.states = all.len() as u64;
    rep.distinct = all.iter().map(|h| hex::encode(&h[0..8])).collect();
    rep.required_outcomes = vec!["joined-mid-chain:isolated-branch-of-no-greater-height-ignored".into(), "tip-moved:reorg".into(), "M3-obligation".into(), "longer-but-lighter-offered".into(), "longer-but-sparse-offered".into(), "orphan-delivered".into()];
    let _: Option<Value> = None;
    rep.finish()
}
