//! C17 — the handshake authenticates the peer's key.  Two real nodes (S accepts, C dials S) and
//! a Dolev-Yao attacker M who owns one connection to S and sits on the wire between C and S.
//! BFS over attacker actions on the real handlers; invariants after every step.

use std::collections::{BTreeMap, BTreeSet, VecDeque};

use saito_core::core::io::network_event::NetworkEvent;
use saito_core::core::msg::handshake::{HandshakeChallenge, HandshakeResponse};
use saito_core::core::msg::message::Message;
use saito_core::core::process::version::Version;
use saito_core::core::util::configuration::PeerConfig;
use saito_core::core::util::crypto::{sign, verify};
use serde_json::json;

use crate::exec::Outcome;
use crate::fullnode::FullNode;
use crate::netx::*;
use crate::node::Hash;
use crate::report::{par_map, workers, Report, Tier};
use crate::seams::{key, Cfg, ManualClock, MemIO, Out};

pub const CS: u64 = 1; // S's index for C's connection
pub const MS: u64 = 2; // S's index for the attacker's connection
pub const SC: u64 = 1; // C's index for its (static) connection to S
pub const MC: u64 = 2; // C's index for the connection it accepted from the attacker

#[derive(Clone, Copy, Debug, PartialEq, Eq, PartialOrd, Ord)]
pub enum Target {
    SonM,
    SonC,
    ConS,
    /// the connection C accepted from the attacker (C has a dialed and an accepted connection)
    ConM,
}

#[derive(Clone, Copy, Debug, PartialEq, Eq, PartialOrd, Ord)]
pub enum Act {
    DeliverToC,
    DeliverToS,
    DropToC,
    DropToS,
    /// the connection between C and S drops (messages in flight are lost, the attacker keeps what
    /// it saw) and C dials again: same peer index at C, a new one at S
    ReconnectCS,
    /// C's dial to S succeeds a second time on the same peer index without the first connection
    /// having been reported closed (two dials both succeed, or a replaced socket whose close is
    /// reported late); S sees one more accepted connection
    ConnectAgain,
    /// S is told that the connection it accepted from C has closed (the io layer keeps forwarding
    /// what still arrives on that index: only the sending half is dropped); the challenges S issued
    /// on it are void from then on
    CloseAtS,
    /// replay observed message #k to a target
    Replay(Target, u8),
    /// send a challenge carrying observed challenge value #j (255 = fresh)
    Challenge(Target, u8),
    /// response signed by the attacker's key over observed challenge #j; bool = compatible version
    ResponseM(Target, u8, bool),
    /// like ResponseM with an incompatible version that is OLDER than the node's (minor - 1)
    ResponseOlder(Target, u8),
    /// ten minutes pass: both nodes run the timer that drops long-disconnected peers
    Purge,
}

pub struct Sim {
    pub s: FullNode,
    pub c: FullNode,
    pub to_c: VecDeque<Vec<u8>>,
    pub to_s: VecDeque<Vec<u8>>,
    pub observed: Vec<Vec<u8>>,
    pub chals: Vec<Hash>,
    /// (node, conn, challenge) that already led to Connected
    pub used: BTreeSet<(u8, u64, Hash)>,
    /// S's current index for C's connection (changes when the connection is re-established)
    pub cs: u64,
    /// challenges each node issued on each of its connections since that connection was established
    pub issued: BTreeMap<(u8, u64), BTreeSet<Hash>>,
    pub reconnects: u8,
    pub purges: u8,
    /// (node, connection) pairs that were authenticated at some point
    pub ever_auth: BTreeSet<(u8, u64)>,
}

fn note(sim: &mut Sim, bytes: &[u8]) {
    if !sim.observed.iter().any(|b| b == bytes) {
        sim.observed.push(bytes.to_vec());
    }
    if let Ok(m) = Message::deserialize(bytes.to_vec()) {
        let mut add = |h: Hash| {
            if h != [0; 32] && !sim.chals.contains(&h) {
                sim.chals.push(h);
            }
        };
        match m {
            Message::HandshakeChallenge(c) => add(c.challenge),
            Message::HandshakeResponse(r) => add(r.challenge),
            _ => {}
        }
    }
}

/// route what the nodes put on their outboxes onto the attacker-controlled wires
fn collect(sim: &mut Sim) -> Vec<(u8, u64)> {
    let mut accepted = vec![];
    let parse = |s: &str| -> Option<u64> { s.strip_prefix("PeerHandshakeComplete(")?.strip_suffix(')')?.parse().ok() };
    let issued_of = |b: &Vec<u8>| -> Option<Hash> {
        match Message::deserialize(b.clone()) {
            Ok(Message::HandshakeChallenge(c)) => Some(c.challenge),
            Ok(Message::HandshakeResponse(r)) if r.challenge != [0; 32] => Some(r.challenge),
            _ => None,
        }
    };
    for o in sim.s.io.take_outbox() {
        match o {
            Out::Send { peer, buffer } => {
                note(sim, &buffer);
                if let Some(h) = issued_of(&buffer) {
                    sim.issued.entry((0, peer)).or_default().insert(h);
                }
                if peer == sim.cs {
                    sim.to_c.push_back(buffer);
                }
            }
            Out::Event(e) => {
                if let Some(i) = parse(&e) {
                    accepted.push((0u8, i));
                }
            }
            _ => {}
        }
    }
    for o in sim.c.io.take_outbox() {
        match o {
            Out::Send { peer, buffer } => {
                note(sim, &buffer);
                if let Some(h) = issued_of(&buffer) {
                    sim.issued.entry((1, peer)).or_default().insert(h);
                }
                if peer == SC {
                    sim.to_s.push_back(buffer);
                }
            }
            Out::Event(e) => {
                if let Some(i) = parse(&e) {
                    accepted.push((1u8, i));
                }
            }
            _ => {}
        }
    }
    accepted
}

pub fn start() -> Result<Sim, String> {
    let cfg_s = Cfg::new(10, 5000);
    let mut cfg_c = Cfg::new(10, 5000);
    cfg_c.peers = vec![PeerConfig { host: "s".into(), port: 1, protocol: "http".into(), synctype: "full".into() }];
    cfg_c.fetch_url = "http://c".into();
    let mut s = FullNode::new(key(0), cfg_s, MemIO::new(), ManualClock::new(1_000_000));
    let mut c = FullNode::new(key(1), cfg_c, MemIO::new(), ManualClock::new(1_000_000));
    if !s.init().is_done() || !c.init().is_done() {
        return Err("init".into());
    }
    // C dials
    c.tick_routing(2_000);
    let dial = c.io.take_outbox().into_iter().any(|o| matches!(o, Out::Connect { .. }));
    if !dial {
        return Err("C did not dial".into());
    }
    let mut sim = Sim { s, c, to_c: VecDeque::new(), to_s: VecDeque::new(), observed: vec![], chals: vec![], used: BTreeSet::new(), cs: CS, issued: BTreeMap::new(), reconnects: 0, purges: 0, ever_auth: BTreeSet::new() };
    // connection established at both ends; the attacker connects as well
    if !sim.c.net(NetworkEvent::PeerConnectionResult { result: Ok((SC, None)) }).is_done() {
        return Err("C connect".into());
    }
    if !sim.s.net(NetworkEvent::PeerConnectionResult { result: Ok((CS, None)) }).is_done() {
        return Err("S accept C".into());
    }
    if !sim.s.net(NetworkEvent::PeerConnectionResult { result: Ok((MS, None)) }).is_done() {
        return Err("S accept M".into());
    }
    if !sim.c.net(NetworkEvent::PeerConnectionResult { result: Ok((MC, None)) }).is_done() {
        return Err("C accept M".into());
    }
    collect(&mut sim);
    Ok(sim)
}

fn tables(sim: &Sim) -> (Vec<(u64, String, Option<[u8; 33]>, Option<Hash>)>, Vec<([u8; 33], u64)>, Vec<(u64, String, Option<[u8; 33]>, Option<Hash>)>) {
    let f = |n: &FullNode| {
        let p = n.peers.try_read().unwrap();
        let mut v: Vec<_> = p
            .index_to_peers
            .values()
            .map(|x| {
                let st = match x.peer_status {
                    saito_core::core::consensus::peers::peer::PeerStatus::Connected => "Connected",
                    saito_core::core::consensus::peers::peer::PeerStatus::Connecting => "Connecting",
                    _ => "Disconnected",
                };
                (x.index, st.to_string(), x.public_key, x.challenge_for_peer)
            })
            .collect();
        v.sort();
        v
    };
    (f(&sim.s), sim.s.address_table(), f(&sim.c))
}

fn build(sim: &Sim, a: &Act) -> Option<(Target, Vec<u8>)> {
    let attacker = key(3);
    match a {
        Act::Replay(t, k) => observed_canon(sim).get(*k as usize).map(|b| (*t, b.clone())),
        Act::Challenge(t, j) => {
            let v = if *j == 255 { [0x5a; 32] } else { *sim.chals.get(*j as usize)? };
            Some((*t, Message::HandshakeChallenge(HandshakeChallenge { challenge: v }).serialize()))
        }
        Act::ResponseOlder(t, j) => {
            let v = *sim.chals.get(*j as usize)?;
            let cv = core_version();
            let older = if cv.minor > 0 { Version::new(cv.major, cv.minor - 1, cv.patch) } else { Version::new(cv.major.saturating_sub(1), 9, cv.patch) };
            let r = HandshakeResponse {
                public_key: attacker.public,
                signature: sign(&v, &attacker.private),
                is_lite: false,
                block_fetch_url: "http://m".into(),
                challenge: [0x6b; 32],
                services: vec![],
                wallet_version: Version::new(0, 0, 0),
                core_version: older,
            };
            Some((*t, Message::HandshakeResponse(r).serialize()))
        }
        Act::ResponseM(t, j, okver) => {
            let v = *sim.chals.get(*j as usize)?;
            let r = HandshakeResponse {
                public_key: attacker.public,
                signature: sign(&v, &attacker.private),
                is_lite: false,
                block_fetch_url: "http://m".into(),
                challenge: [0x6b; 32],
                services: vec![],
                wallet_version: Version::new(0, 0, 0),
                core_version: if *okver { core_version() } else { Version::new(core_version().major, core_version().minor.wrapping_add(1), 0) },
            };
            Some((*t, Message::HandshakeResponse(r).serialize()))
        }
        _ => None,
    }
}

pub fn enabled(sim: &Sim, thorough: bool) -> Vec<Act> {
    let mut v = vec![];
    if !sim.to_c.is_empty() {
        v.push(Act::DeliverToC);
        v.push(Act::DropToC);
    }
    if !sim.to_s.is_empty() {
        v.push(Act::DeliverToS);
        v.push(Act::DropToS);
    }
    if sim.reconnects == 0 {
        v.push(Act::ReconnectCS);
        v.push(Act::ConnectAgain);
        v.push(Act::CloseAtS);
    }
    if sim.purges == 0 {
        v.push(Act::Purge);
    }
    let targets = [Target::SonM, Target::SonC, Target::ConS, Target::ConM];
    for t in targets {
        for k in 0..observed_canon(sim).len().min(if thorough { 8 } else { 6 }) {
            v.push(Act::Replay(t, k as u8));
        }
        // the most recently observed challenges (the outstanding ones are among them)
        let nch = sim.chals.len();
        for j in nch.saturating_sub(if thorough { 6 } else { 4 })..nch {
            v.push(Act::Challenge(t, j as u8));
            v.push(Act::ResponseM(t, j as u8, true));
        }
        v.push(Act::Challenge(t, 255));
    }
    // incompatible version: on both connections S accepted (the attacker's own and the one it
    // controls the wire of)
    for t in [Target::SonM, Target::SonC] {
        for j in sim.chals.len().saturating_sub(if t == Target::SonM { 4 } else { 2 })..sim.chals.len() {
            v.push(Act::ResponseM(t, j as u8, false));
            v.push(Act::ResponseOlder(t, j as u8));
        }
    }
    v
}

pub fn apply(sim: &mut Sim, a: Act, rep: &mut Report, hist: &[Act]) -> bool {
    let ctx = json!({"history": hist.iter().map(|x| format!("{:?}", x)).collect::<Vec<_>>()});
    let (s_before, addr_before, c_before) = tables(sim);
    let addr_c_before = sim.c.address_table();
    let (target, bytes) = match a {
        Act::DeliverToC => match sim.to_c.pop_front() {
            Some(b) => (Target::ConS, b),
            None => return false,
        },
        Act::DeliverToS => match sim.to_s.pop_front() {
            Some(b) => (Target::SonC, b),
            None => return false,
        },
        Act::DropToC => return sim.to_c.pop_front().is_some(),
        Act::DropToS => return sim.to_s.pop_front().is_some(),
        Act::Purge => {
            sim.purges += 1;
            let r1 = sim.s.tick_routing(601_000);
            let r2 = sim.c.tick_routing(601_000);
            if !r1.is_done() || !r2.is_done() {
                rep.violate("handler-abort/purge-timer", format!("{} / {}", r1.label(), r2.label()), ctx.clone());
                return true;
            }
            collect(sim);
            rep.outcome("purge:done");
            // the timer may drop what is disconnected; whoever is still connected under a key
            // keeps the address entry it had
            for (nid, node, addr_b) in [(0u8, &sim.s, &addr_before), (1u8, &sim.c, &addr_c_before)] {
                let table = node.peer_table();
                let addr = node.address_table();
                for (k, idx) in addr_b.iter() {
                    let still = table.iter().any(|p| p.0 == *idx && p.1 == "Connected" && p.2 == Some(*k));
                    if still && !addr.iter().any(|(ak, ai)| ak == k && ai == idx) {
                        // whose departure took the entry along? a connection that had authenticated
                        // with this key itself (a second, valid session of the same key: outside
                        // what C17 states, counted only) or one that never authenticated
                        let before_tbl = if nid == 0 { &s_before } else { &c_before };
                        let by_unauthenticated = before_tbl.iter().any(|p| p.2 == Some(*k) && p.0 != *idx && !table.iter().any(|q| q.0 == p.0) && !sim.ever_auth.contains(&(nid, p.0)));
                        if by_unauthenticated {
                            rep.violate("authenticated-peer-lost-its-address-entry", format!("node {}: connection {} stays connected under {} but the clean-up of a connection that never authenticated removed its address entry ({:?})", nid, idx, crate::seams::key_name(k), hist), ctx.clone());
                        } else {
                            rep.outcome("info:clean-up-of-an-older-session-of-the-same-key-removed-the-live-peers-address-entry");
                        }
                    }
                }
            }
            final_invariants(sim, rep, hist, &ctx);
            return true;
        }
        Act::ReconnectCS => {
            use saito_core::core::io::network::PeerDisconnectType;
            sim.reconnects += 1;
            sim.to_c.clear();
            sim.to_s.clear();
            let old = sim.cs;
            let r1 = sim.c.net(NetworkEvent::PeerDisconnected { peer_index: SC, disconnect_type: PeerDisconnectType::ExternalDisconnect });
            let r2 = sim.s.net(NetworkEvent::PeerDisconnected { peer_index: old, disconnect_type: PeerDisconnectType::ExternalDisconnect });
            if !r1.is_done() || !r2.is_done() {
                rep.violate("handler-abort/disconnect", format!("{} / {}", r1.label(), r2.label()), ctx.clone());
                return true;
            }
            collect(sim);
            // C dials again
            let _ = sim.c.tick_routing(2_000);
            let dial = sim.c.io.take_outbox().into_iter().any(|o| matches!(o, Out::Connect { .. }));
            if !dial {
                rep.outcome("reconnect:C-did-not-redial");
                return true;
            }
            sim.issued.remove(&(1, SC));
            sim.issued.remove(&(0, old));
            sim.cs = 3;
            let r3 = sim.c.net(NetworkEvent::PeerConnectionResult { result: Ok((SC, None)) });
            let r4 = sim.s.net(NetworkEvent::PeerConnectionResult { result: Ok((3, None)) });
            if !r3.is_done() || !r4.is_done() {
                rep.violate("handler-abort/reconnect", format!("{} / {}", r3.label(), r4.label()), ctx.clone());
            }
            collect(sim);
            rep.outcome("reconnect:done");
            return true;
        }
        Act::CloseAtS => {
            use saito_core::core::io::network::PeerDisconnectType;
            sim.reconnects += 1;
            let conn = sim.cs;
            let r = sim.s.net(NetworkEvent::PeerDisconnected { peer_index: conn, disconnect_type: PeerDisconnectType::ExternalDisconnect });
            if !r.is_done() {
                rep.violate("handler-abort/disconnect", r.label(), ctx.clone());
                return true;
            }
            sim.issued.remove(&(0, conn));
            collect(sim);
            final_invariants(sim, rep, hist, &ctx);
            rep.outcome("close-at-s:done");
            return true;
        }
        Act::ConnectAgain => {
            sim.reconnects += 1;
            sim.to_c.clear();
            sim.to_s.clear();
            sim.issued.remove(&(1, SC));
            sim.cs = 3;
            let r3 = sim.c.net(NetworkEvent::PeerConnectionResult { result: Ok((SC, None)) });
            let r4 = sim.s.net(NetworkEvent::PeerConnectionResult { result: Ok((3, None)) });
            if !r3.is_done() || !r4.is_done() {
                rep.violate("handler-abort/second-connection", format!("{} / {}", r3.label(), r4.label()), ctx.clone());
            }
            collect(sim);
            let (_s_after, _addr_after, c_after) = tables(sim);
            // nothing has been signed on the new connection yet
            if let Some(p) = c_after.iter().find(|p| p.0 == SC) {
                if p.1 == "Connected" {
                    rep.violate("connected-before-any-handshake-on-the-new-connection", format!("C: a second connection on index {} counts as connected under {:?} although nothing was signed on it ({:?})", SC, p.2.map(|k| crate::seams::key_name(&k)), hist), ctx.clone());
                } else {
                    rep.outcome("second-connection:has-to-authenticate-again");
                }
            }
            final_invariants(sim, rep, hist, &ctx);
            rep.outcome("connect-again:done");
            return true;
        }
        _ => match build(sim, &a) {
            Some(x) => x,
            None => return false,
        },
    };
    let genuine = matches!(a, Act::DeliverToC | Act::DeliverToS);
    let (node_id, conn): (u8, u64) = match target {
        Target::SonM => (0, MS),
        Target::SonC => (0, sim.cs),
        Target::ConS => (1, SC),
        Target::ConM => (1, MC),
    };
    let r = if node_id == 0 { sim.s.net(incoming_raw(conn, bytes.clone())) } else { sim.c.net(incoming_raw(conn, bytes.clone())) };
    if !r.is_done() {
        let what = Message::deserialize(bytes.clone()).map(|m| m.get_type_value()).unwrap_or(0);
        rep.violate(&format!("handler-abort/tag{}/{}", what, r.label().split('@').last().unwrap_or("").trim().rsplit('/').next().unwrap_or("")), format!("{:?}: {}", a, r.label()), ctx.clone());
        collect(sim);
        return true;
    }
    let accepted_now = collect(sim);
    let (s_after, addr_after, c_after) = tables(sim);
    let msg = Message::deserialize(bytes.clone()).ok();
    // newly connected connections
    for (nid, before, after, own) in [(0u8, &s_before, &s_after, sim.s.key.public), (1u8, &c_before, &c_after, sim.c.key.public)] {
        for pa in after.iter() {
            let pb = before.iter().find(|x| x.0 == pa.0);
            let was = pb.map(|x| x.1 == "Connected").unwrap_or(false);
            let accepted_again = accepted_now.contains(&(nid, pa.0));
            if pa.1 == "Connected" && (!was || pb.map(|x| x.2) != Some(pa.2) || accepted_again) {
                let k = pa.2.unwrap_or([0; 33]);
                rep.outcome(&format!("connected:{}:{}{}", if nid == 0 { "S" } else { "C" }, crate::seams::key_name(&k), if genuine { ":genuine-delivery" } else { ":injected" }));
                if k == own {
                    rep.violate("connected-under-own-key(reflection)", format!("node {} marks connection {} as connected under its own key after {:?}", nid, pa.0, hist), ctx.clone());
                }
                let outstanding = pb.and_then(|x| x.3);
                match (outstanding, &msg) {
                    (Some(ch), Some(Message::HandshakeResponse(r))) => {
                        if !verify(&ch, &r.signature, &r.public_key) || r.public_key != k {
                            rep.violate("connected-without-valid-signature-over-own-challenge", format!("{:?}", hist), ctx.clone());
                        }
                        if !sim.issued.get(&(nid, pa.0)).map(|x| x.contains(&ch)).unwrap_or(false) {
                            rep.violate("connected-over-a-challenge-not-issued-on-this-connection", format!("node {} connection {}: the accepted challenge was issued before the connection was re-established ({:?})", nid, pa.0, hist), ctx.clone());
                        }
                        sim.ever_auth.insert((nid, pa.0));
                        if !sim.used.insert((nid, pa.0, ch)) {
                            rep.violate("challenge-accepted-twice", format!("{:?}", hist), ctx.clone());
                        }
                        if !r.core_version.is_set() || r.core_version.minor != core_version().minor || r.core_version.major != core_version().major {
                            rep.violate("connected-with-incompatible-version", format!("{:?}", hist), ctx.clone());
                        }
                    }
                    (None, _) => rep.violate("unsolicited-response-connected", format!("connection {} of node {} had no outstanding challenge ({:?})", pa.0, nid, hist), ctx.clone()),
                    _ => rep.violate("connected-by-non-response", format!("{:?}", hist), ctx.clone()),
                }
            }
        }
        // (4) other authenticated connections are undisturbed
        for pb in before.iter().filter(|x| x.1 == "Connected") {
            if nid == node_id && pb.0 == conn {
                continue;
            }
            let pa = after.iter().find(|x| x.0 == pb.0);
            let same = pa.map(|x| x.1 == "Connected" && x.2 == pb.2).unwrap_or(false);
            if !same {
                rep.violate("authenticated-peer-disturbed-from-another-connection", format!("node {} connection {} changed from {:?} to {:?} by a message on connection {} ({:?})", nid, pb.0, pb.1, pa.map(|x| x.1.clone()), conn, hist), ctx.clone());
            }
        }
    }
    // address map of S: an entry for key K may only move by a valid authentication of K in this step
    for (k, idx) in addr_before.iter() {
        let now = addr_after.iter().find(|x| x.0 == *k).map(|x| x.1);
        if now != Some(*idx) {
            let valid_auth = s_after.iter().any(|p| p.0 == conn && p.1 == "Connected" && p.2 == Some(*k)) && node_id == 0;
            if !valid_auth {
                rep.violate("address-entry-moved-without-authentication", format!("key {} moved {:?} -> {:?} ({:?})", crate::seams::key_name(k), idx, now, hist), ctx.clone());
            } else {
                rep.outcome("address-entry-moved-by-valid-authentication");
            }
        }
    }
    final_invariants(sim, rep, hist, &ctx);
    true
}

/// invariants of the peer tables of both nodes, after every action
fn final_invariants(sim: &Sim, rep: &mut Report, hist: &[Act], ctx: &serde_json::Value) {
    for (nid, node) in [(0u8, &sim.s), (1u8, &sim.c)] {
        let table = node.peer_table();
        let addr = node.address_table();
        // whoever is found under a key is connected under that key
        for (k, idx) in addr.iter() {
            if let Some(p) = table.iter().find(|p| p.0 == *idx) {
                if p.1 == "Connected" && p.2 != Some(*k) {
                    rep.violate("connected-peer-filed-under-another-key", format!("node {}: the address map leads from key {} to connection {}, which is connected under {:?} ({:?})", nid, crate::seams::key_name(k), idx, p.2.map(|x| crate::seams::key_name(&x)), hist), ctx.clone());
                }
            }
        }
        for p in table.iter() {
            // (a peer that authenticates validly on a second connection under a key already in
            // use replaces the first; that the address entry is not re-created for it then is
            // outside what C17 states and is only counted)
            if p.1 == "Connected" {
                if let Some(k) = p.2 {
                    if !addr.iter().any(|(ak, _)| *ak == k) {
                        rep.outcome("info:connected-peer-without-address-entry(after-valid-re-authentication)");
                    }
                }
            }
            // a connection that never authenticated carries no key
            if p.2.is_some() && !sim.ever_auth.contains(&(nid, p.0)) {
                rep.violate("unauthenticated-connection-carries-a-key", format!("node {}: connection {} ({}) never completed a handshake, yet it is filed with key {} ({:?})", nid, p.0, p.1, crate::seams::key_name(&p.2.unwrap()), hist), ctx.clone());
            }
        }
    }
}

/// what a wire message means, with challenges renamed by order of observation
pub fn msg_kind(sim: &Sim, b: &Vec<u8>) -> String {
    let name = |h: &Option<Hash>| h.map(|x| sim.chals.iter().position(|c| *c == x).map(|i| i as i64).unwrap_or(-2)).unwrap_or(-1);
    match Message::deserialize(b.clone()) {
        Ok(Message::HandshakeChallenge(c)) => format!("Ch({})", name(&Some(c.challenge))),
        Ok(Message::HandshakeResponse(r)) => {
            // which observed challenge the signature is over is part of the message's meaning
            let over = sim.chals.iter().position(|c| verify(c, &r.signature, &r.public_key)).map(|i| i as i64).unwrap_or(-1);
            format!("Re({},{},over{},v{})", crate::seams::key_name(&r.public_key), name(&Some(r.challenge)), over, r.core_version.minor)
        }
        Ok(m) => format!("tag{}", m.get_type_value()),
        Err(_) => "bad".into(),
    }
}

/// the observed messages in an order that depends on the state only (responses first, then by
/// meaning), not on the order in which this history happened to observe them: `Replay(t, k)`
/// names the k-th of these, so that equal states have equally named futures
pub fn observed_canon(sim: &Sim) -> Vec<Vec<u8>> {
    let mut v: Vec<(bool, String, Vec<u8>)> = sim.observed.iter().map(|b| {
        let k = msg_kind(sim, b);
        (k.starts_with("Ch("), k, b.clone())
    }).collect();
    v.sort();
    v.dedup_by(|a, b| a.1 == b.1);
    v.into_iter().map(|x| x.2).collect()
}

pub fn digest(sim: &Sim) -> Hash {
    // challenges renamed by order of observation
    let name = |h: &Option<Hash>| h.map(|x| sim.chals.iter().position(|c| *c == x).map(|i| i as i64).unwrap_or(-2)).unwrap_or(-1);
    let (s, a, c) = tables(sim);
    let st: Vec<_> = s.iter().map(|p| (p.0, p.1.clone(), p.2.map(|k| crate::seams::key_name(&k)), name(&p.3))).collect();
    let ct: Vec<_> = c.iter().map(|p| (p.0, p.1.clone(), p.2.map(|k| crate::seams::key_name(&k)), name(&p.3))).collect();
    let at: Vec<_> = a.iter().map(|(k, i)| (crate::seams::key_name(k), *i)).collect();
    let kind = |b: &Vec<u8>| -> String { msg_kind(sim, b) };
    let q1: Vec<_> = sim.to_c.iter().map(kind).collect();
    let q2: Vec<_> = sim.to_s.iter().map(kind).collect();
    let ob: BTreeSet<_> = sim.observed.iter().map(kind).collect();
    // (the set is ordered by the random challenge values: order the renamed triples instead)
    let mut used: Vec<_> = sim.used.iter().map(|(n, c, h)| (*n, *c, name(&Some(*h)))).collect();
    used.sort();
    let mut issued: Vec<(u8, u64, Vec<i64>)> = sim.issued.iter().map(|((n, c), hs)| {
        let mut v: Vec<i64> = hs.iter().map(|h| name(&Some(*h))).collect();
        v.sort();
        (*n, *c, v)
    }).collect();
    issued.sort();
    saito_core::core::util::crypto::hash(format!("{:?}|{:?}|{:?}|{:?}|{:?}|{:?}|{:?}|{}|{}|{:?}|{}|{:?}", st, ct, at, q1, q2, ob, used, sim.cs, sim.reconnects, issued, sim.purges, sim.ever_auth).as_bytes())
}

fn replay(hist: &[Act], rep: &mut Report) -> Option<Sim> {
    let mut sim = match start() {
        Ok(s) => s,
        Err(e) => {
            rep.machinery(e);
            return None;
        }
    };
    for (i, a) in hist.iter().enumerate() {
        let mut scratch = rep.child();
        let ok = if i + 1 == hist.len() { apply(&mut sim, *a, rep, hist) } else { apply(&mut sim, *a, &mut scratch, &hist[..=i]) };
        if !ok {
            return None;
        }
    }
    Some(sim)
}

pub fn main(tier: Tier, _replay: Option<String>) -> i32 {
    let mut rep = Report::new("C17", tier.clone(), "model_checking");
    let depth = if tier.thorough { 5 } else { 4 };
    rep.bounds = json!({"depth": depth, "nodes": "S (acceptor of two connections), C (dials S), attacker M (own connection to S + the wire between C and S)", "attacker": "deliver / drop queued messages, replay any observed message to S (either connection) or C, send a challenge with any observed or fresh value, send a response signed by its own key over any observed challenge with a compatible or incompatible version"});
    rep.rule = "breadth-first search over attacker actions on the real handlers; challenges are random per run and referred to by order of observation; state digest = peer tables of S and C (status, key, outstanding challenge renamed), address map, wire queues and attacker knowledge, all symbolically renamed".into();
    rep.assumptions = vec![
        "signatures cannot be forged; the attacker owns key K3 only".into(),
        "a pure relay of a genuine answer to a genuine challenge is inherent to challenge-response without channel binding and is not flagged; a node connected under its own key, a challenge accepted twice, an unsolicited or wrongly-versioned response, and any change to an authenticated connection caused from another connection are".into(),
    ];
    if let Ok(hs) = std::env::var("VERIF_C17_HISTORY") {
        // developer aid: one history, actions written as their Debug form separated by ';'
        let mut sim = start().expect("start");
        let mut hist: Vec<Act> = vec![];
        for name in hs.split(';') {
            let acts = enabled(&sim, true);
            let Some(a) = acts.iter().find(|a| format!("{:?}", a) == name.trim()).cloned() else {
                println!("{} is not enabled; enabled: {:?}", name, acts);
                break;
            };
            hist.push(a);
            let mut r = rep.child();
            let ok = apply(&mut sim, a, &mut r, &hist);
            println!("{:?}: applied={} outcomes={:?} violations={:?}", a, ok, r.outcomes.keys().collect::<Vec<_>>(), r.violations.iter().map(|v| v.key.clone()).collect::<Vec<_>>());
            println!("   S={:?}\n   C={:?}", tables(&sim).0, tables(&sim).2);
        }
        return 0;
    }
    // the peer tables are hash maps whose iteration order some handlers depend on (first peer found
    // with a key); hook H4 makes that order a function of a seed: explore under several
    let map_seeds: Vec<u64> = if tier.thorough { vec![0, 1, 2, 3] } else { vec![0, 1] };
    let mut all_seen: BTreeSet<Hash> = BTreeSet::new();
    for map_seed in map_seeds.iter().cloned() {
    // two searches per seed: from the start, and from the state in which the honest handshake
    // between C and S has completed (three deliveries), so that what happens after a completed
    // session (tear-down, re-dial, another key) lies within the bound
    for (si, prefix) in [vec![], vec![Act::DeliverToC, Act::DeliverToS, Act::DeliverToC]].into_iter().enumerate() {
    let mut seen: crate::audit::MergeAudit<Vec<Act>> = crate::audit::MergeAudit::new();
    if !prefix.is_empty() {
        saito_core::core::verif_hooks::set_map_seed(map_seed);
        match replay(&prefix, &mut rep.child()) {
            Some(s) => {
                let (st, _, ct) = tables(&s);
                if !st.iter().any(|p| p.1 == "Connected") || !ct.iter().any(|p| p.1 == "Connected") {
                    rep.machinery("C17: the honest-handshake prefix does not leave C and S connected".into());
                }
            }
            None => rep.machinery("C17: the honest-handshake prefix cannot be replayed".into()),
        }
    }
    let depth = prefix.len() + if prefix.is_empty() { depth } else { depth - 1 };
    let mut frontier: Vec<Vec<Act>> = vec![prefix.clone()];
    let mut level = prefix.len();
    while level < depth && !frontier.is_empty() {
        level += 1;
        let results = par_map(&frontier, workers(), |_, h| {
            saito_core::core::verif_hooks::set_map_seed(map_seed);
            let mut r = rep.child();
            let mut out = vec![];
            let Some(s0) = replay(h, &mut r.child()) else { return (r, out) };
            let acts = enabled(&s0, tier.thorough);
            drop(s0);
            for a in acts {
                let mut hh = h.clone();
                hh.push(a);
                r.evaluations += 1;
                r.transitions += 1;
                if let Some(s) = replay(&hh, &mut r) {
                    out.push((hh, digest(&s)));
                }
            }
            r.traces_validated += 1;
            (r, out)
        });
        let mut next = vec![];
        for (r, out) in results {
            rep.merge(r);
            for (h, d) in out {
                if seen.see(d, &h) {
                    next.push(h);
                }
            }
        }
        rep.outcome_n(&format!("search{}-level-{}-new-states", si, level), next.len() as u64);
        if level < depth && next.len() > 15_000 {
            rep.exhaustive = false;
            rep.extra.insert("frontier_cap".into(), json!({"level": level, "states": next.len(), "kept": 15_000}));
            next.truncate(15_000);
        }
        frontier = next;
    }
    rep.states += seen.len() as u64;
    // canonicalisation audit: merged histories agree with their representative one step on
    // (action names and digests use the renamed challenges, so they are comparable)
    {
        let quiet = Report::new("C17", tier.clone(), "model_checking");
        let th = tier.thorough;
        seen.audit(if tier.thorough { 2000 } else { 200 }, &format!("handshake-bfs-seed{}-search{}", map_seed, si), |h: &Vec<Act>| {
            saito_core::core::verif_hooks::set_map_seed(map_seed);
            let Some(s0) = replay(h, &mut quiet.child()) else { return vec![("replay-failed".to_string(), None)] };
            let acts = enabled(&s0, th);
            drop(s0);
            acts.into_iter()
                .map(|a| {
                    let mut hh = h.clone();
                    hh.push(a);
                    (format!("{:?}", a), replay(&hh, &mut quiet.child()).map(|s| digest(&s)))
                })
                .collect()
        }, &mut rep);
    }
    all_seen.extend(seen.rep_of.keys().cloned());
    }
    }
    rep.extra.insert("peer_map_seeds".into(), json!(map_seeds));
    rep.distinct = all_seen.iter().map(|h| hex::encode(&h[0..8])).collect();
    rep.sample(json!({"history": ["DeliverToC", "DeliverToS", "DeliverToC"], "meaning": "honest handshake completes"}));
    rep.required_outcomes = vec!["connected:S:K1:genuine-delivery".into(), "connected:C:K0:genuine-delivery".into(), "connected:S:K3:injected".into(), "connected:C:K3:injected".into()];
    let _: BTreeMap<u8, u8> = BTreeMap::new();
    rep.finish()
}
