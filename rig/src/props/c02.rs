//! C02 — token supply is conserved.  Conservation oracle (u128) after every accepted block on
//! (1) the producer-world histories of C07 (fees, payouts, roll-over, rebroadcast, staking),
//! (2) fork/reorg trees with a wrapping window, plus (3) a boundary amount-vector sweep.

use std::collections::BTreeSet;

use serde_json::json;

use crate::exec::Outcome;
use crate::factory::World;
use crate::node::*;
use crate::prod::*;
use crate::report::{par_map, workers, Report, Tier};
use crate::seams::key;

fn sweep(rep: &mut Report) {
    // one input of value `inp`; every output vector of length <= 3 over the boundary set
    let w = World::standard(10);
    let k1 = key(1);
    let slip = w.ledgers[0].unspent_of(&k1.public)[0].clone();
    let inp = slip.amount;
    let vals: Vec<u64> = vec![0, 1, inp, inp + 1, (1u64 << 63) - 1, 1u64 << 63, u64::MAX - inp + 1, u64::MAX];
    let mut vectors: Vec<Vec<u64>> = vec![];
    for a in vals.iter() {
        vectors.push(vec![*a]);
        for b in vals.iter() {
            vectors.push(vec![*a, *b]);
            for c in vals.iter() {
                vectors.push(vec![*a, *b, *c]);
            }
        }
    }
    let node = w.node_at(0, key(9)).expect("node");
    let (mut v, mut r, _sr) = super::c01::verifier(&node);
    for vec in vectors {
        rep.evaluations += 1;
        let outs: Vec<_> = vec.iter().map(|a| (k1.public, *a)).collect();
        let tx = make_tx(&[slip.clone()], &outs, &k1, 5, b"s");
        let total: u128 = vec.iter().map(|a| *a as u128).sum();
        let t2 = tx.clone();
        let o = crate::exec::run(async {
            v.verify_tx(t2).await;
        });
        let accepted = r.try_recv().is_ok();
        match o {
            Outcome::Done(()) => {}
            x => {
                rep.violate("amount-sweep-abort", format!("outputs {:?}: {}", vec, x.label()), json!({"outputs": vec, "input": inp}));
                continue;
            }
        }
        if accepted && total > inp as u128 {
            rep.violate("amount-sweep/mint-accepted", format!("input {} outputs {:?} (true sum {}) accepted", inp, vec, total), json!({"outputs": vec, "input": inp}));
        }
        if accepted {
            rep.outcome("sweep:accepted");
        } else {
            rep.outcome("sweep:rejected");
        }
        if !accepted && total <= inp as u128 {
            rep.machinery(format!("amount sweep: balanced vector {:?} rejected", vec));
        }
        rep.distinct.insert(format!("sweep{:?}", vec));
    }
}

fn trees(rep: &mut Report, tier: &Tier) {
    let n = if tier.thorough { 5 } else { 4 };
    let shapes = super::c03::shapes(n);
    let results = par_map(&shapes, workers(), |_, shape| {
        let mut r = rep.child();
        let tw = match super::c03::build_tree(3, 4, shape, None) {
            Ok(t) => t,
            Err(e) => {
                r.machinery(format!("tree {:?}: {}", shape, e));
                return r;
            }
        };
        let w = &tw.w;
        // in-order delivery and reverse-sibling order (forces reorgs back and forth)
        let orders: Vec<Vec<usize>> = vec![(0..n).collect(), {
            let mut v: Vec<usize> = (0..n).collect();
            v.sort_by_key(|&i| (w.blocks[tw.tb[i]].id, std::cmp::Reverse(i)));
            v
        }];
        for order in orders {
            r.evaluations += 1;
            let mut node = LedgerNode::new(key(9), w.cfg.clone());
            let mut trace = vec![];
            for &wi in tw.stem.iter().chain(order.iter().map(|i| &tw.tb[*i])) {
                trace.push(w.blocks[wi].label.clone());
                r.transitions += 1;
                match node.add_block_bytes(&w.blocks[wi].bytes) {
                    Outcome::Done(_) => {}
                    o => {
                        r.violate(if o.label().contains("total supply") { "supply-panic/tree" } else { "abort/tree" }, format!("{:?}: {}", trace, o.label()), json!({"shape": shape, "trace": trace}));
                        break;
                    }
                }
                let tip = node.tip().1;
                if let Some(t) = w.index_of(&tip) {
                    if let Err(e) = supply_check(&node, &w.ledgers[t], w.initial_supply, 3) {
                        r.violate("supply-mismatch/tree", format!("{:?}: {}", trace, e), json!({"shape": shape, "trace": trace}));
                        break;
                    }
                    r.outcome(&format!("tree-height-{}", w.blocks[t].id));
                }
            }
            r.traces_validated += 1;
        }
        r
    });
    for r in results {
        rep.merge(r);
    }
}

/// (4) adversarial peer blocks: at the C01 chain positions, for every (owner, slip kind) pair that
/// holds an unspent in-window output, a block by a foreign creator in which the owner spends that
/// output in two transactions (each balanced on its own). The control is the same block with one
/// of the two. An accepted block is applied to the reference ledger and judged by the
/// conservation oracle.
fn adversarial(rep: &mut Report, tier: &Tier) {
    use super::c01::{attacker_block, positions, Candidate};
    let ps = match positions(tier) {
        Ok(p) => p,
        Err(e) => {
            rep.machinery(format!("adversarial blocks: no positions: {}", e));
            return;
        }
    };
    let mut kinds_seen: BTreeSet<String> = BTreeSet::new();
    for p in ps.iter() {
        let w = &p.w;
        let g = w.cfg.consensus.genesis_period;
        let tip = p.tip;
        let h = w.blocks[tip].id + 1;
        let ts = w.blocks[tip].ts + 77;
        for ki in 0..10u8 {
            let owner = key(ki);
            let mut by_kind: std::collections::BTreeMap<String, saito_core::core::consensus::slip::Slip> = Default::default();
            for s in w.ledgers[tip].unspent_of(&owner.public) {
                if s.amount > 2 && s.block_id + g >= h && s.slip_type != saito_core::core::consensus::slip::SlipType::Bound {
                    by_kind.entry(format!("{:?}", s.slip_type)).or_insert(s);
                }
            }
            for (kind, s) in by_kind {
                kinds_seen.insert(kind.clone());
                let tx1 = make_tx(&[s.clone()], &[(owner.public, s.amount)], &owner, ts, b"one");
                let tx2 = make_tx(&[s.clone()], &[(owner.public, s.amount - 1), (key(2).public, 1)], &owner, ts + 1, b"two");
                for pair in [false, true] {
                    let c = Candidate { edit: String::new(), tx: tx1.clone(), tx2: if pair { Some(tx2.clone()) } else { None }, control: !pair };
                    let ctx = json!({"position": p.name, "owner_key": ki, "slip_kind": kind, "pair": pair, "output": format!("{}-{}-{}", s.block_id, s.tx_ordinal, s.slip_index), "amount": s.amount});
                    rep.evaluations += 1;
                    let bytes = match attacker_block(w, tip, &c, false) {
                        Ok(b) => b,
                        Err(e) => {
                            if !pair {
                                rep.machinery(format!("adversarial control unproducible: {} {}", e, ctx));
                            } else {
                                rep.outcome("adversarial:pair-unproducible");
                            }
                            continue;
                        }
                    };
                    let Ok(mut node) = w.node_at(tip, key(9)) else {
                        rep.machinery(format!("adversarial: no node at {}", p.name));
                        continue;
                    };
                    let before = node.tip().1;
                    rep.transitions += 1;
                    match node.add_block_bytes(&bytes) {
                        Outcome::Done(_) => {}
                        o => {
                            rep.violate(if o.label().contains("total supply") { "supply-panic/adversarial-block" } else { "abort/adversarial-block" }, format!("{}: {}", ctx, o.label()), ctx.clone());
                            continue;
                        }
                    }
                    let accepted = node.tip().1 != before;
                    if accepted {
                        let mut l = w.ledgers[tip].clone();
                        l.apply(&decode_block(&bytes));
                        if let Err(e) = supply_check(&node, &l, w.initial_supply, g) {
                            rep.violate(&format!("supply-mismatch/adversarial-block/{}", if pair { "same-output-spent-twice" } else { "single-spend" }), format!("{}: {}", ctx, e), ctx.clone());
                            continue;
                        }
                    }
                    match (pair, accepted) {
                        (false, true) => rep.outcome(&format!("adversarial:single-spend-accepted:{}", kind)),
                        (false, false) => rep.machinery(format!("adversarial control (single spend) refused: {}", ctx)),
                        (true, false) => rep.outcome(&format!("adversarial:pair-refused:{}", kind)),
                        (true, true) => rep.outcome(&format!("adversarial:pair-accepted-and-conserved:{}", kind)),
                    }
                    rep.distinct.insert(format!("adv|{}|{}|{}|{}", p.name, ki, kind, pair));
                }
            }
        }
    }
    // transactions that consume nothing and pay out something, in each producer-only type: an
    // accepted block that carries one must still satisfy the oracle
    for p in ps.iter() {
        let w = &p.w;
        let g = w.cfg.consensus.genesis_period;
        let tip = p.tip;
        let ts = w.blocks[tip].ts + 77;
        let att = key(3);
        for (tname, ty, out_ty) in [
            ("BlockStake", saito_core::core::consensus::transaction::TransactionType::BlockStake, saito_core::core::consensus::slip::SlipType::Normal),
            ("BlockStake/stake-output", saito_core::core::consensus::transaction::TransactionType::BlockStake, saito_core::core::consensus::slip::SlipType::BlockStake),
            ("Normal", saito_core::core::consensus::transaction::TransactionType::Normal, saito_core::core::consensus::slip::SlipType::Normal),
            ("Vip", saito_core::core::consensus::transaction::TransactionType::Vip, saito_core::core::consensus::slip::SlipType::Normal),
        ] {
            let mut t = saito_core::core::consensus::transaction::Transaction::default();
            t.transaction_type = ty;
            t.timestamp = ts;
            t.add_to_slip(saito_core::core::consensus::slip::Slip { public_key: att.public, amount: 500_000, slip_type: out_ty, ..Default::default() });
            t.sign(&att.private);
            let c = Candidate { edit: String::new(), tx: t, tx2: None, control: false };
            let ctx = json!({"position": p.name, "transaction": "no inputs, one output of 500000", "type": tname});
            rep.evaluations += 1;
            let Ok(bytes) = attacker_block(w, tip, &c, false) else {
                rep.outcome("adversarial:inputless-unproducible");
                continue;
            };
            let Ok(mut node) = w.node_at(tip, key(9)) else { continue };
            let before = node.tip().1;
            rep.transitions += 1;
            match node.add_block_bytes(&bytes) {
                Outcome::Done(_) => {}
                o => {
                    rep.violate(if o.label().contains("total supply") { "supply-panic/inputless-transaction-with-value" } else { "abort/inputless-transaction-with-value" }, format!("{}: {}", ctx, o.label()), ctx.clone());
                    continue;
                }
            }
            if node.tip().1 != before {
                let mut l = w.ledgers[tip].clone();
                l.apply(&decode_block(&bytes));
                if let Err(e) = supply_check(&node, &l, w.initial_supply, g) {
                    rep.violate(&format!("supply-mismatch/inputless-transaction-with-value/{}", tname), format!("{}: {}", ctx, e), ctx.clone());
                } else {
                    rep.outcome("adversarial:inputless-accepted-and-conserved");
                }
            } else {
                rep.outcome("adversarial:inputless-refused");
            }
        }
    }
    rep.extra.insert("adversarial_slip_kinds".into(), json!(kinds_seen.iter().collect::<Vec<_>>()));
    for k in ["Normal", "ATR", "MinerOutput", "RouterOutput"] {
        if !kinds_seen.contains(k) {
            rep.machinery(format!("adversarial blocks: no unspent output of kind {} at any position", k));
        }
    }
}

/// (7) a relayed block whose economic header fields were altered on the way. The 26 numeric
/// fields after the creator's signature (treasury, graveyard, burn fee, averages, payouts,
/// collected fees, unpaid fees, ...) are either covered by the signature or recomputed by the
/// validator; a copy of a valid fee-paying peer block with one of them changed (+1, +500) is
/// offered at every C01 position: if the node adopts it, the conservation oracle -- which reads
/// treasury, graveyard, unpaid and collected fees from the node's tip -- must still hold.
fn relayed_header_edits(rep: &mut Report, tier: &Tier) {
    use super::c01::{attacker_block, positions, Candidate};
    let ps = match positions(tier) {
        Ok(p) => p,
        Err(e) => {
            rep.machinery(format!("relayed header edits: no positions: {}", e));
            return;
        }
    };
    let names = [
        "graveyard", "treasury", "burnfee", "difficulty", "avg_total_fees(dup)", "avg_fee_per_byte", "avg_nolan_rebroadcast_per_block", "previous_block_unpaid", "avg_total_fees", "avg_total_fees_new", "avg_total_fees_atr", "avg_payout_routing", "avg_payout_mining", "avg_payout_treasury", "avg_payout_graveyard", "avg_payout_atr", "total_payout_routing", "total_payout_mining", "total_payout_treasury", "total_payout_graveyard", "total_payout_atr", "total_fees", "total_fees_new", "total_fees_atr", "fee_per_byte", "total_fees_cumulative",
    ];
    for p in ps.iter() {
        let w = &p.w;
        let g = w.cfg.consensus.genesis_period;
        let tip = p.tip;
        let h = w.blocks[tip].id + 1;
        let ts = w.blocks[tip].ts + 77;
        let payer = key(1);
        let Some(s) = w.ledgers[tip].unspent_of(&payer.public).into_iter().find(|s| s.amount > 10_000 && s.block_id + g >= h && s.slip_type == saito_core::core::consensus::slip::SlipType::Normal) else {
            rep.outcome("header-edits:position-without-a-payer-output");
            continue;
        };
        let tx = make_tx(&[s.clone()], &[(payer.public, s.amount - 777)], &payer, ts, b"fee");
        let c = Candidate { edit: String::new(), tx, tx2: None, control: true };
        let raw = match attacker_block(w, tip, &c, false) {
            Ok(b) => b,
            Err(e) => {
                rep.machinery(format!("relayed header edits: fee-paying block unproducible at {}: {}", p.name, e));
                continue;
            }
        };
        let mut variants: Vec<(String, Vec<u8>)> = vec![("unedited".into(), raw.clone())];
        for (i, n) in names.iter().enumerate() {
            for d in [1u64, 500] {
                let (a, b) = (181 + 8 * i, 189 + 8 * i);
                let mut x = raw.clone();
                let v = u64::from_be_bytes(x[a..b].try_into().unwrap()).wrapping_add(d);
                x[a..b].copy_from_slice(&v.to_be_bytes());
                variants.push((format!("{}+{}", n, d), x));
            }
        }
        for (label, bytes) in variants {
            let ctx = json!({"position": p.name, "header_edit": label});
            rep.evaluations += 1;
            let Ok(mut node) = w.node_at(tip, key(9)) else {
                rep.machinery(format!("relayed header edits: no node at {}", p.name));
                continue;
            };
            let before = node.tip().1;
            rep.transitions += 1;
            match node.add_block_bytes(&bytes) {
                Outcome::Done(_) => {}
                o => {
                    rep.violate(if o.label().contains("total supply") { "supply-panic/relayed-block-with-edited-header" } else { "abort/relayed-block-with-edited-header" }, format!("{}: {}", ctx, o.label()), ctx.clone());
                    continue;
                }
            }
            let accepted = node.tip().1 != before;
            if accepted {
                let mut l = w.ledgers[tip].clone();
                l.apply(&decode_block(&bytes));
                if let Err(e) = supply_check(&node, &l, w.initial_supply, g) {
                    rep.violate(&format!("supply-mismatch/relayed-block-with-edited-header/{}", label.split('+').next().unwrap_or("")), format!("{}: {}", ctx, e), ctx.clone());
                    continue;
                }
                rep.outcome(if label == "unedited" { "header-edits:control-accepted" } else { "header-edits:edited-block-accepted-and-conserved" });
            } else if label == "unedited" {
                rep.machinery(format!("relayed header edits: control refused: {}", ctx));
            } else {
                rep.outcome("header-edits:edited-block-refused");
            }
            rep.distinct.insert(format!("hdr|{}|{}", p.name, label));
        }
    }
}

/// (8) a peer block whose golden-ticket transaction spends a real output and pays a fee (the miner's
/// wallet never builds one, the rules admit it): the fee is part of what the block collects. At
/// every C01 position, fee 700 and 0 (control), offered to a node at the tip; an adopted block is
/// applied to the reference ledger and judged by the conservation oracle, as is the honest block
/// that follows it.
fn fee_paying_golden_ticket(rep: &mut Report, tier: &Tier) {
    use super::c01::positions;
    use crate::node::{block_bytes, golden_ticket_tx, txmap};
    let ps = match positions(tier) {
        Ok(p) => p,
        Err(e) => {
            rep.machinery(format!("fee-paying golden ticket: no positions: {}", e));
            return;
        }
    };
    for p in ps.iter() {
        let w = &p.w;
        let g = w.cfg.consensus.genesis_period;
        let tip = p.tip;
        let h = w.blocks[tip].id + 1;
        let ts = w.blocks[tip].ts + 2 * crate::factory::SPACING;
        let k1 = key(1);
        let Some(s) = w.ledgers[tip].unspent_of(&k1.public).into_iter().find(|s| s.amount > 10_000 && s.block_id + g >= h && s.slip_type == saito_core::core::consensus::slip::SlipType::Normal) else {
            rep.outcome("gt-fee:position-without-a-payer-output");
            continue;
        };
        for fee in [0u64, 700] {
            let ctx = json!({"position": p.name, "golden_ticket_fee": fee});
            rep.evaluations += 1;
            let Ok(node) = w.builder_at(tip) else {
                rep.machinery(format!("fee-paying golden ticket: no builder at {}", p.name));
                continue;
            };
            let difficulty = node.blockchain.try_read().unwrap().get_block(&w.blocks[tip].hash).map(|b| b.difficulty).unwrap_or(0);
            let pay = make_tx(&[s.clone()], &[(k1.public, s.amount - fee)], &k1, ts, b"gt");
            let mut gt = golden_ticket_tx(w.blocks[tip].hash, difficulty, &k1, 0);
            gt.from = pay.from.clone();
            gt.to = pay.to.clone();
            gt.timestamp = ts;
            gt.sign(&k1.private);
            gt.generate(&w.creator.public, 0, 0);
            let creator = w.creator;
            let phash = w.blocks[tip].hash;
            let filler = {
                let mut t = make_tx(&[], &[(key(5).public, 0)], &key(5), ts, b"f");
                t.generate(&creator.public, 0, 0);
                t
            };
            let bc = node.blockchain.clone();
            let cfg = node.cfg.clone();
            let storage = &node.storage;
            let made = crate::exec::run(async {
                let bc = bc.read().await;
                let mut map = txmap(vec![filler]);
                saito_core::core::consensus::block::Block::create(&mut map, phash, &bc, ts, &creator.public, &creator.private, Some(gt), &cfg, storage).await
            });
            let blk = match made {
                Outcome::Done(Ok(b)) => b,
                _ => {
                    rep.outcome("gt-fee:producer-refused");
                    continue;
                }
            };
            let bytes = block_bytes(&blk);
            let Ok(mut n) = w.node_at(tip, key(9)) else {
                rep.machinery(format!("fee-paying golden ticket: no node at {}", p.name));
                continue;
            };
            let before = n.tip().1;
            rep.transitions += 1;
            match n.add_block_bytes(&bytes) {
                Outcome::Done(_) => {}
                o => {
                    rep.violate(if o.label().contains("total supply") { "supply-panic/golden-ticket-paying-a-fee" } else { "abort/golden-ticket-paying-a-fee" }, format!("{}: {}", ctx, o.label()), ctx.clone());
                    continue;
                }
            }
            if n.tip().1 == before {
                rep.outcome(if fee == 0 { "gt-fee:control-refused" } else { "gt-fee:block-refused" });
                continue;
            }
            let mut l = w.ledgers[tip].clone();
            l.apply(&decode_block(&bytes));
            match supply_check(&n, &l, w.initial_supply, g) {
                Err(e) => rep.violate("supply-mismatch/golden-ticket-paying-a-fee", format!("{}: {}", ctx, e), ctx.clone()),
                Ok(_) => rep.outcome(if fee == 0 { "gt-fee:control-accepted-and-conserved" } else { "gt-fee:accepted-and-conserved" }),
            }
            rep.distinct.insert(format!("gtfee|{}|{}", p.name, fee));
        }
    }
}

/// (5) NFT histories: the C13 producer histories in which an NFT is minted (with and without
/// change) and, one to three blocks later, its payload is or is not spent on its own, through two
/// window wraps, with the conservation oracle after every accepted block.
fn nft_histories(rep: &mut Report, tier: &Tier) {
    use super::c13::{run_history_with, Act, Step};
    let mut hs: Vec<(u64, Vec<Step>)> = vec![];
    for g in if tier.thorough { vec![3u64, 4] } else { vec![3u64] } {
        let n = (2 * g + 5) as usize;
        for fee in [0u64, 6_000] {
            let base: Vec<Step> = (0..n).map(|i| Step { act: Act::Pay(fee), gt: i % 2 == 1, fork_before: false }).collect();
            for mint in [Act::NftCreate, Act::NftCreateNoChange] {
                for p1 in 0..n.saturating_sub(g as usize + 2) {
                    let mut s = base.clone();
                    s[p1].act = mint.clone();
                    hs.push((g, s.clone()));
                    for d in 1..=3usize {
                        if p1 + d < n {
                            let mut s2 = s.clone();
                            s2[p1 + d].act = Act::SpendNftPayload;
                            hs.push((g, s2));
                        }
                    }
                }
            }
        }
    }
    let results = par_map(&hs, workers(), |_, (g, steps)| {
        let mut r = rep.child();
        r.evaluations += 1;
        run_history_with(*g, steps, 8, true, &mut r);
        r
    });
    for r in results {
        rep.merge(r);
    }
}

pub fn main(tier: Tier, _replay: Option<String>) -> i32 {
    let mut rep = Report::new("C02", tier.clone(), "model_checking");
    rep.bounds = json!({"producer_histories": "the C07 script set (g=3, g=3+staking, g=4; 2g+4 rounds; <=1 (quick) / <=2 (thorough) deviations; exhaustive two-round prefixes)", "trees": "all shapes of n blocks over a 4-block stem at g=3, two delivery orders", "amount_sweep": "all output vectors of length <=3 over 8 boundary values"});
    rep.rule = "after every accepted block: sum(in-window non-Bound outputs per reference ledger) + treasury + graveyard + previous_block_unpaid + total_fees == issued, in u128; per transaction sum(out) <= sum(in); distinct = produced-block classes + sweep vectors".into();
    rep.assumptions = vec![
        "in-window = created at height >= tip - genesis_period (outputs one block older are the ones the next block rebroadcasts or collects)".into(),
        "the node's own check_total_supply is not the oracle; if it panics that is recorded as a violation".into(),
    ];
    let ss = super::c07::scripts(&tier);
    let results = par_map(&ss, workers(), |_, s| {
        let mut r = rep.child();
        let mut seen = BTreeSet::new();
        r.evaluations += 1;
        super::c07::run_script(s, &mut r, &mut seen, false, true);
        (r, seen)
    });
    let mut all = BTreeSet::new();
    for (r, s) in results {
        rep.merge(r);
        all.extend(s);
    }
    rep.states = all.len() as u64;
    trees(&mut rep, &tier);
    sweep(&mut rep);
    adversarial(&mut rep, &tier);
    nft_histories(&mut rep, &tier);
    relayed_header_edits(&mut rep, &tier);
    fee_paying_golden_ticket(&mut rep, &tier);
    // (6) reorganisation attempts that fail part-way
    super::c04::supply_after_failed_reorgs(&mut rep, &tier);
    rep.sample(json!({"script": format!("{:?}", ss[1].rounds), "g": ss[1].g}));
    rep.finish()
}
