//! C18 — a lite block is a faithful projection of its full block.
//! Blocks with n payments to distinct keys x every subset of keys; the HTTP route's pipeline.

use saito_core::core::consensus::block::{Block, BlockType};
use saito_core::core::consensus::merkle::MerkleTree;
use saito_core::core::consensus::transaction::TransactionType;
use saito_core::core::defs::SaitoPublicKey;
use serde_json::json;

use crate::corpus::header_fields;
use crate::exec::catch;
use crate::factory::{World, HEARTBEAT};
use crate::node::*;
use crate::report::{par_map, workers, Report, Tier};
use crate::seams::{key, Cfg};

pub fn base_block(n: usize, with_gt: bool) -> Result<(World, usize), String> {
    base_block_with(n, with_gt, false)
}

/// `sweeps`: every second payment hands its whole input to the payee, so that the payer's key
/// appears on the input side of the transaction and on none of its outputs
pub fn base_block_with(n: usize, with_gt: bool, sweeps: bool) -> Result<(World, usize), String> {
    let mut w = World::new(Cfg::new(20, HEARTBEAT));
    let k1 = key(1);
    let mut iss: Vec<(SaitoPublicKey, u64)> = (0..14).map(|i| (k1.public, 1_000_000 + i as u64)).collect();
    iss.push((key(0).public, 5_000_000));
    w.genesis(&iss, 1_000_000);
    let mut t = 0usize;
    if with_gt {
        // golden tickets need a parent at an odd height to land on an even id
        t = w.honest_child(t, 0, "H2")?;
        t = w.honest_child(t, 0, "H3")?;
    }
    let ts = w.child_ts(t, 1);
    let slips = w.ledgers[t].unspent_of(&k1.public);
    let mut txs = vec![];
    for i in 0..n {
        let s = &slips[i];
        // transaction i pays key P_i; inputs come from K1
        if sweeps && i % 2 == 0 {
            txs.push(make_tx(&[s.clone()], &[(key(10 + i as u8).public, s.amount)], &k1, ts + i as u64, format!("sweep{}", i).as_bytes()));
            continue;
        }
        txs.push(make_tx(&[s.clone()], &[(key(10 + i as u8).public, 500 + i as u64), (k1.public, s.amount - 500 - i as u64)], &k1, ts + i as u64, format!("p{}", i).as_bytes()));
    }
    if n == 0 {
        txs.push(make_tx(&[], &[(k1.public, 0)], &k1, ts, b"empty"));
    }
    let gt = if with_gt { Some(key(0)) } else { None };
    let b = w.build(t, ts, gt, txs, &format!("B{}{}", n, if with_gt { "+gt" } else { "" }))?;
    Ok((w, b))
}

/// The chain summary a real full node sends a light client: a FullNode holding a 12-block chain
/// (older blocks have dropped their transactions from memory) with payments to the client's key in
/// an old and in a recent block answers the client's GhostChainRequest; each flag of the answer
/// must say whether the lite block of that height carries a transaction for the client's key.
fn chain_summary(rep: &mut Report) {
    use crate::fullnode::FullNode;
    use crate::netx::{connect_and_handshake, incoming, sent_to};
    use crate::props::c12::{deliver, node_cfg};
    use crate::seams::{ManualClock, MemIO};
    use saito_core::core::msg::message::Message;
    let client = key(13);
    for paid_heights in [vec![3u64], vec![3, 11], vec![2, 3, 12]] {
        rep.evaluations += 1;
        let mut w = World::standard(10);
        let mut t = 0usize;
        let mut ok = true;
        for id in 2..=12u64 {
            let ts = w.child_ts(t, 0);
            let mut txs = vec![];
            if paid_heights.contains(&id) {
                if let Some(s) = w.ledgers[t].unspent_of(&key(1).public).into_iter().filter(|s| s.block_id + 10 > id + 1).max_by_key(|s| (s.block_id, s.amount)).filter(|s| s.amount > 10_000) {
                    txs.push(make_tx(&[s.clone()], &[(client.public, 700 + id), (key(1).public, s.amount - 700 - id)], &key(1), ts, b"to-client"));
                }
            }
            if txs.is_empty() {
                txs.push(make_tx(&[], &[(key(2).public, 0)], &key(1), ts, format!("filler{}", id).as_bytes()));
            }
            match w.build(t, ts, if id % 2 == 0 { Some(key(0)) } else { None }, txs, &format!("S{}", id)) {
                Ok(b) => t = b,
                Err(e) => {
                    rep.machinery(format!("chain summary: {}", e));
                    ok = false;
                    break;
                }
            }
        }
        if !ok {
            return;
        }
        let mut cfg = node_cfg(&w);
        cfg.blockchain.initial_loading_completed = true;
        let mut n = FullNode::new(key(9), cfg, MemIO::new(), ManualClock::new(5_000_000));
        let _ = n.init();
        for i in w.path(t) {
            let _ = deliver(&mut n, &w.blocks[i].bytes);
        }
        if n.tip().1 != w.blocks[t].hash {
            rep.machinery("chain summary: the serving node did not reach the tip".into());
            return;
        }
        let pruned = n.blockchain.try_read().unwrap().blocks.values().filter(|b| b.block_type == saito_core::core::consensus::block::BlockType::Pruned).count();
        if pruned == 0 {
            rep.machinery("chain summary: no block of the serving node has dropped its transactions".into());
        }
        if let Err(e) = connect_and_handshake(&mut n, 5, &client, "") {
            rep.machinery(format!("chain summary: handshake: {}", e));
            return;
        }
        let ctx = json!({"paid_heights": paid_heights});
        let o = n.net(incoming(5, &Message::GhostChainRequest(0, [0; 32], [0; 32])));
        if !o.is_done() {
            rep.violate("chain-summary/abort", o.label(), ctx.clone());
            continue;
        }
        let out = n.io.take_outbox();
        let Some(ghost) = sent_to(&out, 5).into_iter().find_map(|m| if let Message::GhostChain(g) = m { Some(g) } else { None }) else {
            rep.violate("chain-summary/no-answer", "the node did not answer the light client's request".into(), ctx.clone());
            continue;
        };
        for (i, id) in ghost.block_ids.iter().enumerate() {
            let Some(bi) = w.path(t).into_iter().find(|&b| w.blocks[b].id == *id) else { continue };
            let mut full = decode_block(&w.blocks[bi].bytes);
            let _ = full.generate();
            let lite = full.generate_lite_block(vec![client.public]);
            let carries = lite.transactions.iter().any(|t| t.transaction_type != TransactionType::SPV && (t.from.iter().any(|s| s.public_key == client.public) || t.to.iter().any(|s| s.public_key == client.public)));
            if ghost.txs[i] != carries {
                rep.violate(if carries { "chain-summary/listed-transaction-not-flagged" } else { "chain-summary/flagged-without-a-listed-transaction" }, format!("height {}: the summary says {} but the lite block for the client's key {}", id, ghost.txs[i], if carries { "carries a transaction" } else { "carries none" }), ctx.clone());
            } else {
                rep.outcome(if carries { "chain-summary:flag-true-and-lite-block-carries-a-transaction" } else { "chain-summary:flag-false-and-nothing-to-fetch" });
            }
        }
    }
}

pub fn main(tier: Tier, _replay: Option<String>) -> i32 {
    let mut rep = Report::new("C18", tier.clone(), "exploration");
    let nmax = if tier.thorough { 11 } else { 8 };
    rep.rule = "for n = 0..nmax payments to distinct keys (with and without golden ticket + fee transaction), every subset of the payee keys as key list (every pattern of adjacent placeholders), plus key lists matching only inputs; pipeline = disk bytes -> decode -> generate -> generate_lite_block -> serialize -> decode -> generate; distinct = (block, subset) pairs".into();
    rep.bounds = json!({"n_max": nmax, "subsets": "all 2^n", "variants": ["plain", "with golden ticket and fee transaction"]});
    let mut jobs: Vec<(usize, bool, bool)> = vec![];
    for n in 0..=nmax {
        jobs.push((n, false, false));
        if n <= nmax.min(9) {
            jobs.push((n, true, false));
        }
        // payments without change: the payer's key only on the input side
        if n >= 1 && n <= 5 {
            jobs.push((n, false, true));
        }
    }
    let results = par_map(&jobs, workers(), |_, (n, with_gt, sweeps)| {
        let mut r = rep.child();
        let (w, bi) = match base_block_with(*n, *with_gt, *sweeps) {
            Ok(x) => x,
            Err(e) => {
                r.machinery(format!("base block n={} gt={}: {}", n, with_gt, e));
                return r;
            }
        };
        let disk = w.blocks[bi].bytes.clone();
        let mut full = Block::deserialize_from_net(&disk).unwrap();
        full.generate().unwrap();
        // index of payment i in the full block (the producer orders transactions itself)
        let pay_index: Vec<usize> = (0..*n)
            .map(|i| full.transactions.iter().position(|t| t.to.iter().any(|s| s.public_key == key(10 + i as u8).public)).unwrap())
            .collect();
        let mut keylists: Vec<(String, Vec<SaitoPublicKey>)> = vec![];
        for mask in 0u32..(1u32 << n) {
            let kl: Vec<SaitoPublicKey> = (0..*n).filter(|i| mask & (1 << i) != 0).map(|i| key(10 + i as u8).public).collect();
            keylists.push((format!("subset{:0width$b}", mask, width = *n), kl));
        }
        keylists.push(("payer-key(inputs-only)".into(), vec![key(1).public]));
        keylists.push(("unrelated-key".into(), vec![key(7).public]));
        for (label, kl) in keylists {
            r.evaluations += 1;
            r.distinct.insert(format!("{}:{}:{}:{}", n, with_gt, sweeps, label));
            let ctx = if *sweeps { json!({"n": n, "golden_ticket": with_gt, "keylist": label, "tx_order": pay_index, "payments_without_change": true}) } else { json!({"n": n, "golden_ticket": with_gt, "keylist": label, "tx_order": pay_index}) };
            let kl2 = kl.clone();
            let lite = match catch(|| full.generate_lite_block(kl2)) {
                Ok(l) => l,
                Err(p) => {
                    r.violate("panic/generate_lite_block", format!("n={} {}: {}", n, label, p), ctx);
                    continue;
                }
            };
            let cls = {
                // pattern class: number of kept / omitted transactions
                let kept = lite.transactions.iter().filter(|t| t.transaction_type != TransactionType::SPV).count();
                format!("kept{}of{}", kept, full.transactions.len())
            };
            r.outcome(&format!("pattern:{}", if full.transactions.len() <= 3 { cls.clone() } else { "n>3".into() }));
            // (a) header
            let fa = header_fields(&full);
            let fb = header_fields(&lite);
            let diff: Vec<_> = fa.iter().zip(fb.iter()).filter(|(x, y)| x != y).map(|(x, _)| x.0).collect();
            if !diff.is_empty() || lite.hash != full.hash {
                r.violate(&format!("header-differs/{}", diff.join("+")), format!("n={} {}: fields {:?} hash equal {}", n, label, diff, lite.hash == full.hash), ctx.clone());
            }
            // (b) listed transactions present in full
            for t in full.transactions.iter() {
                let touches = t.from.iter().any(|s| kl.contains(&s.public_key)) || t.to.iter().any(|s| kl.contains(&s.public_key));
                if touches {
                    let bytes = t.serialize_for_net();
                    if !lite.transactions.iter().any(|x| x.serialize_for_net() == bytes) {
                        r.violate("listed-transaction-missing", format!("n={} {}: a transaction touching a listed key is not carried in full", n, label), ctx.clone());
                    }
                }
            }
            // (b'') the flag a full node puts into the chain summary it sends the light client
            // (the client only asks for the lite blocks so flagged): true exactly when the lite
            // block for this key list carries a transaction
            {
                let touched = full.transactions.iter().any(|t| t.from.iter().any(|s| kl.contains(&s.public_key)) || t.to.iter().any(|s| kl.contains(&s.public_key)));
                let flag = full.has_keylist_txs(&kl);
                if flag != touched {
                    r.violate(if touched { "listed-transaction-not-flagged-for-the-light-client" } else { "block-flagged-without-a-listed-transaction" }, format!("n={} {}: has_keylist_txs = {} but a transaction touching the key list {}", n, label, flag, if touched { "exists" } else { "does not exist" }), ctx.clone());
                } else {
                    r.outcome(if flag { "flag:block-has-listed-transactions" } else { "flag:nothing-for-this-key-list" });
                }
            }
            // (b') positional projection: expanding placeholders by their weight, the lite block's
            // entries stand where the full block's transactions stand
            {
                let mut pos = 0usize;
                let mut ok = true;
                for e in lite.transactions.iter() {
                    if e.transaction_type == TransactionType::SPV {
                        pos += e.txs_replacements as usize;
                    } else {
                        if pos >= full.transactions.len() || full.transactions[pos].serialize_for_net() != e.serialize_for_net() {
                            ok = false;
                            break;
                        }
                        pos += 1;
                    }
                }
                if !ok || pos != full.transactions.len() {
                    r.violate("projection-order-broken", format!("n={} {} ({}): lite block entries do not line up with the full block's transaction positions", n, label, cls), ctx.clone());
                }
            }
            // (d) commitment recomputable from the lite block (before the wire)
            let root_before = MerkleTree::generate(&lite.transactions).map(|t| t.get_root_hash());
            let omitted = lite.transactions.iter().any(|t| t.transaction_type == TransactionType::SPV);
            let merged = lite.transactions.iter().any(|t| t.transaction_type == TransactionType::SPV && t.txs_replacements > 1);
            let odd = if merged { "merged-placeholders" } else { "unmerged" };
            if root_before != Some(full.merkle_root) {
                r.violate_inst(&if omitted { format!("commitment-not-recomputable/{}/in-memory", odd) } else { "commitment-not-recomputable/nothing-omitted/in-memory".to_string() }, &format!("mem|{}", ctx), format!("n={} {} ({}): merkle root over the lite block's transactions differs from the header's", n, label, cls), ctx.clone());
            }
            // (c) wire round trip
            let wire = lite.serialize_for_net(BlockType::Full);
            match catch(|| {
                let mut d = Block::deserialize_from_net(&wire)?;
                d.generate()?;
                Ok::<Block, std::io::Error>(d)
            }) {
                Ok(Ok(d)) => {
                    if d.hash != full.hash || d.id != full.id || d.signature != full.signature {
                        r.violate("hash-changed-over-wire", format!("n={} {}", n, label), ctx.clone());
                    }
                    let root_after = MerkleTree::generate(&d.transactions).map(|t| t.get_root_hash());
                    if root_after != Some(full.merkle_root) {
                        r.violate_inst(&if omitted { format!("commitment-not-recomputable/{}/after-wire", odd) } else { "commitment-not-recomputable/nothing-omitted/after-wire".to_string() }, &format!("wire|{}", ctx), format!("n={} {} ({}): merkle root recomputed from the received lite block differs from the header's", n, label, cls), ctx.clone());
                    }
                    for t in full.transactions.iter() {
                        let touches = t.from.iter().any(|s| kl.contains(&s.public_key)) || t.to.iter().any(|s| kl.contains(&s.public_key));
                        if touches && !d.transactions.iter().any(|x| x.serialize_for_net() == t.serialize_for_net()) {
                            r.violate("listed-transaction-missing/after-wire", format!("n={} {}", n, label), ctx.clone());
                        }
                    }
                }
                Ok(Err(e)) => r.violate("lite-block-undecodable", format!("n={} {}: {:?}", n, label, e), ctx.clone()),
                Err(p) => r.violate("panic/lite-roundtrip", format!("n={} {}: {}", n, label, p), ctx.clone()),
            }
            if r.samples.is_empty() && *n == 3 {
                r.sample(ctx);
            }
        }
        r.traces_validated += 1;
        r
    });
    for r in results {
        rep.merge(r);
    }
    // every header field, not just the ones that happen to be non-zero on a young fee-less chain:
    // a base block whose numeric header fields all carry distinct non-zero values (the projection
    // does not validate, it copies), through generate_lite_block and through the wire
    match base_block(3, false) {
        Ok((w, bi)) => {
            let mut bytes = w.blocks[bi].bytes.clone();
            for (k, b) in bytes[181..389].iter_mut().enumerate() {
                *b = (k as u8 % 250) + 1;
            }
            if let Ok(mut full) = Block::deserialize_from_net(&bytes) {
                let _ = full.generate();
                for (label, kl) in [("none", vec![]), ("payee0", vec![key(10).public]), ("payer", vec![key(1).public])] {
                    rep.evaluations += 1;
                    let ctx = json!({"base": "every numeric header field set to a distinct non-zero value", "keylist": label});
                    let lite = match catch(|| full.generate_lite_block(kl.clone())) {
                        Ok(l) => l,
                        Err(p) => {
                            rep.violate("panic/generate_lite_block", format!("perturbed header, {}: {}", label, p), ctx);
                            continue;
                        }
                    };
                    let fa = header_fields(&full);
                    let fb = header_fields(&lite);
                    let diff: Vec<_> = fa.iter().zip(fb.iter()).filter(|(x, y)| x != y).map(|(x, _)| x.0).collect();
                    if !diff.is_empty() {
                        rep.violate(&format!("header-differs/{}", diff.join("+")), format!("fields {:?} of the lite block differ from the full block's", diff), ctx.clone());
                    }
                    let wire = lite.serialize_for_net(BlockType::Full);
                    match Block::deserialize_from_net(&wire) {
                        Ok(back) => {
                            let fc = header_fields(&back);
                            let diff: Vec<_> = fa.iter().zip(fc.iter()).filter(|(x, y)| x != y).map(|(x, _)| x.0).collect();
                            if !diff.is_empty() {
                                rep.violate(&format!("header-differs-after-wire/{}", diff.join("+")), format!("fields {:?}", diff), ctx.clone());
                            } else {
                                rep.outcome("all-header-fields-projected");
                            }
                        }
                        Err(e) => rep.violate("lite-block-undecodable", format!("{:?}", e), ctx.clone()),
                    }
                }
            } else {
                rep.machinery("perturbed base block does not decode".into());
            }
        }
        Err(e) => rep.machinery(format!("base block: {}", e)),
    }
    rep.required_outcomes.push("all-header-fields-projected".into());
    chain_summary(&mut rep);
    rep.required_outcomes.push("chain-summary:flag-true-and-lite-block-carries-a-transaction".into());
    rep.required_outcomes.push("chain-summary:flag-false-and-nothing-to-fetch".into());
    rep.finish()
}
