//! C04 — a rejected block leaves no trace; block processing returns.
//! Every fork shape (a current blocks, b candidate blocks over a fork point) x position of the
//! offending block x kind of invalidity x own/foreign creator; candidate delivered in order.

use std::collections::BTreeSet;

use saito_core::core::consensus::block::Block;
use saito_core::core::consensus::transaction::TransactionType;
use serde_json::{json, Value};

use crate::exec::{steps_used, Outcome, LIVELOCK_MSG};
use crate::factory::{World, HEARTBEAT};
use crate::node::*;
use crate::report::{par_map, workers, Report, Tier};
use crate::seams::{key, Cfg, Key};

#[derive(Clone, Copy, Debug, PartialEq, Eq)]
pub enum Bad {
    UnsignedField,
    SignedField,
    CreatorSig,
    TxSig,
    TxSpent,
    MerkleAppend,
    Timestamp,
    /// every candidate block is valid but the candidate carries no golden tickets, so the
    /// density rule fails at its fourth block
    GtDensity,
    UnknownParent,
    /// id does not continue the parent's (re-signed, so only the continuity rule can refuse it)
    WrongId,
}
pub const KINDS: [Bad; 10] = [
    Bad::GtDensity,
    Bad::UnknownParent,
    Bad::SignedField,
    Bad::CreatorSig,
    Bad::TxSig,
    Bad::TxSpent,
    Bad::MerkleAppend,
    Bad::UnsignedField,
    Bad::Timestamp,
    Bad::WrongId,
];

/// re-parent `child` onto `new_parent` (hash changed by an edit): retarget its golden ticket,
/// recompute the commitment, re-sign with the creator key.
pub fn rebase(w: &World, child: &Block, new_parent: Hash) -> Block {
    let mut c = child.clone();
    c.previous_block_hash = new_parent;
    for i in 0..c.transactions.len() {
        if c.transactions[i].transaction_type == TransactionType::GoldenTicket {
            let mut t = golden_ticket_tx(new_parent, 0, &w.creator, 0);
            t.generate(&w.creator.public, 0, 0);
            c.transactions[i] = t;
        }
    }
    c.merkle_root = [0; 32];
    c.created_hashmap_of_slips_spent_this_block = false;
    c.slips_spent_this_block.clear();
    c.merkle_root = c.generate_merkle_root(false, false);
    c.sign(&w.creator.private);
    c.generate().unwrap();
    c
}

pub fn make_bad(w: &World, honest: &Block, kind: Bad, spent_tx: &saito_core::core::consensus::transaction::Transaction) -> Block {
    let mut b = honest.clone();
    b.created_hashmap_of_slips_spent_this_block = false;
    b.slips_spent_this_block.clear();
    match kind {
        Bad::UnsignedField => {
            b.total_fees_new += 1;
        }
        Bad::SignedField => {
            b.burnfee += 1;
            b.sign(&w.creator.private);
        }
        Bad::CreatorSig => {
            b.signature[7] ^= 0x01;
        }
        Bad::TxSig => {
            let i = b.transactions.iter().position(|t| t.transaction_type == TransactionType::Normal).expect("normal tx");
            b.transactions[i].signature[9] ^= 0x01;
        }
        Bad::TxSpent => {
            let i = b.transactions.iter().position(|t| t.transaction_type == TransactionType::Normal).expect("normal tx");
            b.transactions[i] = spent_tx.clone();
            b.merkle_root = b.generate_merkle_root(false, false);
            b.sign(&w.creator.private);
        }
        Bad::MerkleAppend => {
            b.transactions.push(spent_tx.clone());
        }
        Bad::GtDensity => {}
        Bad::UnknownParent => {
            b.previous_block_hash = [0x77; 32];
            b.sign(&w.creator.private);
        }
        Bad::WrongId => {
            b.id += 5;
            b.sign(&w.creator.private);
        }
        Bad::Timestamp => {
            // timestamp one millisecond after the parent: burn fee / routing work no longer match
            b.timestamp -= crate::factory::SPACING - 1;
            b.sign(&w.creator.private);
        }
    }
    b.generate().unwrap();
    b
}

pub struct Case {
    pub g: u64,
    /// spacing of the first candidate block in heartbeats x100 (200 = the default two heartbeats);
    /// a slower first block makes the candidate lighter, so the reorganisation only triggers later
    pub slow: u64,
    pub a: usize,
    pub b: usize,
    pub pos: usize,
    pub kind: Bad,
    pub own: bool,
    /// the node under test is the payer whose outputs the candidate blocks spend (its wallet is
    /// touched by winding and unwinding them)
    pub payer: bool,
    /// the node under test drops the transactions of every block below its tip from memory
    /// (prune_after_blocks = 1): unwinding the old segment reloads its blocks from disk
    pub pruned: bool,
    /// the node has not completed its initial loading and receives the second candidate block
    /// before the first (it stores the child, adopts the parent, and then winds the child together
    /// with whatever comes next)
    pub loading_swap: bool,
}

struct Built {
    w: World,
    stem: Vec<usize>,
    old: Vec<usize>,
    cand: Vec<usize>,
    next_old: Option<usize>,
}

fn build(c: &Case) -> Result<Built, String> {
    let node_key = if c.payer { key(1) } else if c.own { key(0) } else { key(9) };
    let mut w = World::new(Cfg::new(c.g, HEARTBEAT));
    let k1 = key(1);
    let k2 = key(2);
    w.genesis(
        &[
            (k1.public, 1_000_000),
            (k1.public, 2_000_000),
            (k1.public, 3_000_000),
            (k1.public, 4_000_000),
            (k2.public, 5_000_000),
            (k2.public, 6_000_000),
            (node_key.public, 7_000_000),
            (node_key.public, 8_000_000),
            (node_key.public, 9_000_000),
            (node_key.public, 9_500_000),
        ],
        1_000_000,
    );
    let mut stem = vec![0usize];
    for i in 1..4 {
        let b = w.honest_child(*stem.last().unwrap(), 0, &format!("S{}", i))?;
        stem.push(b);
    }
    let f = *stem.last().unwrap();
    // the transaction used by TxSpent / MerkleAppend: S1's payment (already spent on every chain)
    let s1 = decode_block(&w.blocks[stem[1]].bytes);
    let spent_tx = s1.transactions.iter().find(|t| t.transaction_type == TransactionType::Normal).unwrap().clone();
    // old chain: node key spends its own genesis outputs (wallet changes on unwind)
    let mut old = vec![];
    let mut p = f;
    for i in 0..c.a + 1 {
        let ts = w.child_ts(p, 100 + i as u64);
        let id = w.blocks[p].id + 1;
        let mut txs = vec![];
        if let Some(t) = w.payment(p, &node_key, &k2.public, 500 + i as u64, 0, ts) {
            txs.push(t);
        }
        if let Some(t) = w.payment_newest(p, &k2, &key(5).public, 70 + i as u64, 0, ts) {
            txs.push(t);
        }
        // and the oldest output K2 may still spend in this block (created g or g-1 blocks back where
        // there is one): admissible here, no longer admissible one or two blocks later -- a block
        // that is wound back after a failed attempt must be judged at its own height
        {
            let g = w.cfg.consensus.genesis_period;
            let taken: Vec<_> = txs.iter().flat_map(|t| t.from.iter().map(|s| s.get_utxoset_key())).collect();
            if let Some(o) = w.ledgers[p].unspent_of(&k2.public).into_iter().filter(|s| s.block_id + g >= id && s.amount >= 500 && !taken.contains(&s.get_utxoset_key())).min_by_key(|s| (s.block_id, s.tx_ordinal, s.slip_index)) {
                if o.block_id + g <= id + 1 {
                    txs.push(crate::node::make_tx(&[o.clone()], &[(key(5).public, o.amount)], &k2, ts, b"oldest"));
                }
            }
        }
        let gt = if id % 2 == 0 { Some(key(0)) } else { None };
        let b = w.build(p, ts, gt, txs, &format!("O{}", i + 1))?;
        old.push(b);
        p = b;
    }
    // the (a+1)-th old block is kept aside as the liveness probe
    let next_old = old.pop();
    // candidate: K1 pays the node key (wallet changes on wind)
    let mut cand_blocks: Vec<Block> = vec![];
    let mut cand = vec![];
    let mut p = f;
    for i in 0..c.b {
        let mut ts = w.child_ts(p, 200 + i as u64);
        if i == 0 {
            ts = w.blocks[p].ts + HEARTBEAT * c.slow / 100 + 200;
        }
        let id = w.blocks[p].id + 1;
        let mut txs = vec![];
        // each candidate block spends the change output created by the previous one
        if let Some(t) = w.payment_newest(p, &k1, &node_key.public, 900 + i as u64, 0, ts) {
            txs.push(t);
        }
        let gt = if id % 2 == 0 && c.kind != Bad::GtDensity { Some(key(0)) } else { None };
        let b = w.build(p, ts, gt, txs, &format!("N{}", i + 1))?;
        cand_blocks.push(decode_block(&w.blocks[b].bytes));
        cand.push(b);
        p = b;
    }
    // make position `pos` bad, rebase the rest
    let bad = make_bad(&w, &cand_blocks[c.pos], c.kind, &spent_tx);
    let parent = w.blocks[cand[c.pos]].parent;
    let mut prev_hash = bad.hash;
    let mut prev_idx = w.register(bad, parent, false, format!("N{}x", c.pos + 1));
    cand[c.pos] = prev_idx;
    let same_hash = prev_hash == cand_blocks[c.pos].hash;
    for i in c.pos + 1..c.b {
        let nb = if same_hash {
            cand_blocks[i].clone()
        } else {
            rebase(&w, &cand_blocks[i], prev_hash)
        };
        prev_hash = nb.hash;
        prev_idx = w.register(nb, Some(prev_idx), false, format!("N{}r", i + 1));
        cand[i] = prev_idx;
    }
    Ok(Built { w, stem, old, cand, next_old })
}

fn trace_fields(o: &Obs) -> Obs {
    let mut x = o.clone();
    x.pool_txs.clear();
    x.pool_utxo_map.clear();
    x.pool_work = 0;
    x.pool_blocks.clear();
    x.pool_gts.clear();
    // whether a stored block currently keeps its transactions in memory (Full) or has dropped
    // them (Pruned) is a cache state, not part of what the property lists: a refused candidate
    // may leave its parent loaded until the next block prunes it again
    for b in x.blocks.iter_mut() {
        b.3 = 0;
    }
    x
}

fn run_case(c: &Case, rep: &mut Report, seen: &mut BTreeSet<Hash>) {
    let ctx = json!({"g": c.g, "slow": c.slow, "a": c.a, "b": c.b, "pos": c.pos, "kind": format!("{:?}", c.kind), "own_creator": c.own, "node_is_payer": c.payer, "pruned": c.pruned, "loading_swap": c.loading_swap});
    let bt = match build(c) {
        Ok(b) => b,
        Err(e) => {
            rep.machinery(format!("cannot build case {}: {}", ctx, e));
            return;
        }
    };
    let w = &bt.w;
    let _ = &bt.next_old;
    let node_key = if c.payer { key(1) } else if c.own { key(0) } else { key(9) };
    let mut ncfg = w.cfg.clone();
    if c.pruned {
        ncfg.consensus.prune_after_blocks = 1;
    }
    if c.loading_swap {
        ncfg.blockchain.initial_loading_completed = false;
    }
    let mut n = LedgerNode::new(node_key, ncfg);
    let kprefix = format!("g{}/{:?}/pos{}of{}/a{}/slow{}{}{}", c.g, c.kind, c.pos + 1, c.b, c.a, c.slow, if c.payer { "/node-is-payer" } else { "" }, if c.pruned { "/pruned" } else if c.loading_swap { "/loading-child-before-parent" } else { "" });
    for &i in bt.stem.iter().chain(bt.old.iter()) {
        match n.add_block_bytes(&w.blocks[i].bytes) {
            Outcome::Done(AddRes::AddedLongest) => {}
            o => {
                rep.machinery(format!("set-up block {} not accepted: {:?} ({})", w.blocks[i].label, o, ctx));
                return;
            }
        }
    }
    // a pending transaction in the pool
    {
        let t = w.payment(*bt.old.last().unwrap_or(bt.stem.last().unwrap()), &key(2), &key(1).public, 33, 0, 5);
        if let Some(t) = t {
            let bc = n.blockchain.clone();
            let mp = n.mempool.clone();
            crate::exec::run(async move {
                let bc = bc.read().await;
                let mut mp = mp.write().await;
                mp.add_transaction_if_validates(t, &bc).await;
            });
        }
    }
    let mut rejected_seen = false;
    let mut purged = false;
    let mut trace = vec![];
    let mut order: Vec<usize> = bt.cand.clone();
    if c.loading_swap && order.len() >= 2 {
        order.swap(0, 1);
    }
    for (j, &ci) in order.iter().enumerate() {
        let before = n.obs();
        seen.insert(before.digest());
        trace.push(w.blocks[ci].label.clone());
        rep.transitions += 1;
        let r = n.add_block_bytes(&w.blocks[ci].bytes);
        let steps = steps_used();
        let contains_bad = j >= c.pos;
        match r {
            Outcome::Panicked(m) if m.contains(LIVELOCK_MSG) => {
                rep.violate(&format!("livelock/{}", kprefix), format!("add_block({}) did not terminate within the step budget", w.blocks[ci].label), json!({"ctx": ctx, "trace": trace}));
                rep.outcome("livelock");
                return;
            }
            Outcome::Panicked(m) => {
                rep.violate(&format!("panic/{}", kprefix), format!("add_block({}) panicked: {}", w.blocks[ci].label, m), json!({"ctx": ctx, "trace": trace}));
                rep.outcome("panic");
                return;
            }
            Outcome::Stalled => {
                rep.violate(&format!("stall/{}", kprefix), format!("add_block({}) stalled", w.blocks[ci].label), json!({"ctx": ctx, "trace": trace}));
                return;
            }
            Outcome::Done(res) => {
                let bound = 2 * (c.a + c.b) as u64 + 2;
                if steps > bound {
                    rep.violate(&format!("step-bound/{}", kprefix), format!("add_block({}) used {} wind/unwind steps, bound {}", w.blocks[ci].label, steps, bound), json!({"ctx": ctx, "trace": trace}));
                }
                let after = n.obs();
                match res {
                    AddRes::Invalid | AddRes::Retry | AddRes::Exists | AddRes::DecodeError => {
                        let d = trace_fields(&before).diff(&trace_fields(&after));
                        if !d.is_empty() {
                            let fields: Vec<String> = d.iter().map(|x| x.split(':').next().unwrap().to_string()).collect();
                            if before.files.iter().any(|f| !after.files.contains(f)) {
                                purged = true;
                            }
                            let sig = if purged {
                                format!("purged-during-failed-reorg:{}", fields.join("+"))
                            } else if c.a as u64 >= c.g {
                                format!("reorg-depth-reaches-genesis-period:{}", fields.join("+"))
                            } else {
                                fields.join("+")
                            };
                            rep.violate_inst(&format!("trace-left/{}/{}", sig, kprefix), &format!("trace-left/{}/{}", sig, kprefix), format!("rejected block {} ({:?}) changed state: {:?}", w.blocks[ci].label, res, d), json!({"ctx": ctx, "trace": trace, "result": format!("{:?}", res)}));
                            rep.outcome("trace-left");
                        }
                        if res == AddRes::Invalid {
                            rejected_seen = true;
                            let wound = c.pos.min(j);
                            rep.outcome(&format!("rejected:{:?}:after-winding-{}", c.kind, wound));
                            if wound > c.a {
                                rep.outcome("rejected-after-winding-past-old-tip");
                            }
                            rep.distinct.insert(format!("{}:{}:{:?}:{}:{}:{}", c.g, c.a, c.kind, c.pos, c.own, c.slow));
                            if before.pool_txs != after.pool_txs {
                                rep.outcome("info:pool-changed-by-rejection");
                            }
                        } else {
                            rep.outcome(&format!("not-accepted:{:?}", res));
                        }
                    }
                    AddRes::AddedLongest => {
                        if contains_bad {
                            rep.outcome(&format!("vacuous:bad-block-on-chain:{:?}", c.kind));
                        } else {
                            rep.outcome("reorg-or-extend-ok");
                        }
                    }
                    AddRes::AddedSide => {
                        rep.outcome("stored-off-chain");
                    }
                }
            }
        }
    }
    // a refused block that has company at its height: the bad twin of the old chain's next block
    // is offered while candidate blocks of the same height may be stored (unadopted) above the tip
    if let Some(no) = bt.next_old {
        let honest = decode_block(&w.blocks[no].bytes);
        let tip_before = n.tip().1;
        if honest.previous_block_hash == tip_before {
            let mut twin = honest.clone();
            twin.created_hashmap_of_slips_spent_this_block = false;
            twin.slips_spent_this_block.clear();
            twin.burnfee += 1;
            twin.sign(&w.creator.private);
            twin.generate().unwrap();
            let bytes = crate::node::block_bytes(&twin);
            let before = n.obs();
            let company = before.ring.iter().any(|(_, v, _)| v.iter().any(|(id, h)| *id == twin.id && *h != twin.hash));
            trace.push(format!("O{}x", c.a + 1));
            rep.transitions += 1;
            match n.add_block_bytes(&bytes) {
                Outcome::Done(AddRes::Invalid) => {
                    let after = n.obs();
                    let d = trace_fields(&before).diff(&trace_fields(&after));
                    rep.outcome(if company { "sibling-refused:stored-company-at-its-height" } else { "sibling-refused:alone-at-its-height" });
                    if !d.is_empty() {
                        let fields: Vec<String> = d.iter().map(|x| x.split(':').next().unwrap().to_string()).collect();
                        rep.violate(&format!("trace-left/refused-twin-of-next-old-block/{}/{}", fields.join("+"), kprefix), format!("refused block O{}x changed state: {:?}", c.a + 1, d), json!({"ctx": ctx, "trace": trace}));
                    }
                }
                Outcome::Done(r) => rep.outcome(&format!("sibling-twin:{:?}", r)),
                o => {
                    rep.violate(&format!("abort/refused-twin-of-next-old-block/{}", kprefix), format!("add_block(O{}x): {}", c.a + 1, o.label()), json!({"ctx": ctx, "trace": trace}));
                    return;
                }
            }
        }
    }
    if rejected_seen {
        rep.traces_validated += 1;
        // consistency + liveness after the rejection
        let bad = super::c03::ledger_consistency(w, &n);
        for (clause, detail) in bad {
            let cls = if purged {
                "inconsistent-after-reject+purged-during-failed-reorg"
            } else if c.a as u64 >= c.g {
                "inconsistent-after-reject+reorg-depth-reaches-genesis-period"
            } else {
                "inconsistent-after-reject"
            };
            rep.violate_inst(&format!("{}/{}/{}", cls, clause, kprefix), &format!("{}/{}/{}", cls, clause, kprefix), detail, json!({"ctx": ctx, "trace": trace}));
        }
        let tip_hash = n.tip().1;
        let mut w2 = bt.w;
        match w2.index_of(&tip_hash) {
            Some(t) => match w2.honest_child(t, 77, "L") {
                Ok(l) => match n.add_block_bytes(&w2.blocks[l].bytes) {
                    Outcome::Done(AddRes::AddedLongest) => rep.outcome("liveness-ok"),
                    o => {
                        rep.violate(&format!("not-live-after-reject/{}", kprefix), format!("honest successor of the tip refused after the failed attempt: {:?}", o), json!({"ctx": ctx, "trace": trace}));
                    }
                },
                Err(e) => {
                    rep.violate(&format!("not-live-after-reject/{}", kprefix), format!("no honest successor of the node's tip can be produced: {}", e), json!({"ctx": ctx, "trace": trace}));
                }
            },
            None => rep.violate(&format!("tip-unknown/{}", kprefix), "tip after rejection is not a delivered block".into(), json!({"ctx": ctx, "trace": trace})),
        }
    }
}

/// For C02: the fork cases whose offending block re-spends an already spent input (or carries a
/// wrong signed field), with the conservation oracle after every delivery of a candidate block,
/// refused or not.
pub fn supply_after_failed_reorgs(rep: &mut Report, tier: &Tier) {
    let cs: Vec<Case> = cases(tier).into_iter().filter(|c| !c.own && !c.payer && (c.kind == Bad::TxSpent || c.kind == Bad::MerkleAppend || c.kind == Bad::SignedField)).collect();
    let results = par_map(&cs, workers(), |_, c| {
        let mut r = rep.child();
        let Ok(bt) = build(c) else {
            r.outcome("failed-reorg-supply:case-unbuildable");
            return r;
        };
        let w = &bt.w;
        let mut cfg = w.cfg.clone();
        if c.pruned {
            cfg.consensus.prune_after_blocks = 1;
        }
        let mut n = LedgerNode::new(key(9), cfg);
        for &i in bt.stem.iter().chain(bt.old.iter()) {
            let _ = n.add_block_bytes(&w.blocks[i].bytes);
        }
        let ctx = json!({"g": c.g, "slow": c.slow, "a": c.a, "b": c.b, "pos": c.pos, "kind": format!("{:?}", c.kind), "pruned": c.pruned});
        r.evaluations += 1;
        for &ci in bt.cand.iter() {
            r.transitions += 1;
            match n.add_block_bytes(&w.blocks[ci].bytes) {
                Outcome::Done(_) => {}
                o => {
                    r.violate(if o.label().contains("total supply") { "supply-panic/failed-reorg" } else { "abort/failed-reorg" }, format!("{}: {}", ctx, o.label()), ctx.clone());
                    return r;
                }
            }
            let tip = n.tip().1;
            if let Some(t) = w.index_of(&tip) {
                if let Err(e) = crate::prod::supply_check(&n, &w.ledgers[t], w.initial_supply, c.g) {
                    r.violate(&format!("supply-mismatch/after-a-refused-or-adopted-candidate/{:?}", c.kind), format!("{}: {}", ctx, e), ctx.clone());
                    return r;
                }
                // ... and the node's own spendable set adds up to the same in-window total
                let o = n.obs();
                let lo = o.tip_id.saturating_sub(c.g);
                let mine: u128 = o.utxo.iter().filter(|(_, spendable)| *spendable).filter_map(|(k, _)| saito_core::core::consensus::slip::Slip::parse_slip_from_utxokey(k).ok()).filter(|sl| sl.block_id >= lo && sl.slip_type != saito_core::core::consensus::slip::SlipType::Bound).map(|sl| sl.amount as u128).sum();
                let reference = w.ledgers[t].total_u128(lo);
                if mine != reference {
                    r.violate(&format!("spendable-total-differs-from-the-replay/after-a-refused-or-adopted-candidate/{:?}", c.kind), format!("{}: the node's spendable in-window outputs add up to {}, the replay of genesis..tip to {}", ctx, mine, reference), ctx.clone());
                    return r;
                }
                r.outcome("failed-reorg-supply:conserved");
            }
        }
        r
    });
    for r in results {
        rep.merge(r);
    }
}

pub fn cases(tier: &Tier) -> Vec<Case> {
    let amax = if tier.thorough { 3 } else { 2 };
    let mut v = vec![];
    for a in 0..=amax {
        for b in [a + 1, a + 2] {
            if b > 4 {
                continue;
            }
            for pos in 0..b {
                for kind in KINDS {
                    if kind == Bad::GtDensity && !(b == 4 && pos == 3) {
                        continue;
                    }
                    if kind == Bad::UnknownParent && pos != b - 1 {
                        continue;
                    }
                    for own in [false, true] {
                        if own && !(tier.thorough || pos == b - 1) {
                            continue;
                        }
                        let slows: Vec<u64> = if b == a + 2 && a >= 1 { vec![200, 300, 400, 625] } else { vec![200] };
                        for slow in slows {
                            v.push(Case { g: 10, slow, a, b, pos, kind, own, payer: false, pruned: false, loading_swap: false });
                            if !own && (kind == Bad::SignedField || kind == Bad::TxSpent || kind == Bad::TxSig) {
                                v.push(Case { g: 10, slow, a, b, pos, kind, own, payer: false, pruned: true, loading_swap: false });
                                v.push(Case { g: 10, slow, a, b, pos, kind, own, payer: true, pruned: true, loading_swap: false });
                            }
                            if kind == Bad::SignedField || (tier.thorough && kind == Bad::TxSpent) {
                                v.push(Case { g: 3, slow, a, b, pos, kind, own, payer: false, pruned: false, loading_swap: false });
                            }
                            if !own && (kind == Bad::SignedField || kind == Bad::TxSpent || kind == Bad::GtDensity) {
                                v.push(Case { g: 10, slow, a, b, pos, kind, own, payer: true, pruned: false, loading_swap: false });
                            }
                        }
                    }
                }
            }
        }
    }
    // a loading node that gets the second candidate before the first, nothing to unwind (a = 0),
    // third candidate invalid: the stored child is wound with it and unwound again. At genesis
    // period 3 the child has id 6, the first slot of the ring
    for g in [10u64, 3] {
        for kind in [Bad::SignedField, Bad::TxSpent, Bad::TxSig] {
            v.push(Case { g, slow: 200, a: 0, b: 3, pos: 2, kind, own: false, payer: false, pruned: false, loading_swap: true });
        }
    }
    v
}

pub fn main(tier: Tier, replay: Option<String>) -> i32 {
    let mut rep = Report::new("C04", tier.clone(), "model_checking");
    if let Some(p) = replay {
        let s = std::fs::read_to_string(p).expect("replay file");
        let v: Value = serde_json::from_str(&s).expect("json");
        let ctx = &v["case"]["ctx"];
        let kind = KINDS.iter().find(|k| format!("{:?}", k) == ctx["kind"].as_str().unwrap()).cloned().unwrap();
        let c = Case { g: ctx["g"].as_u64().unwrap_or(10), slow: ctx["slow"].as_u64().unwrap_or(200), a: ctx["a"].as_u64().unwrap() as usize, b: ctx["b"].as_u64().unwrap() as usize, pos: ctx["pos"].as_u64().unwrap() as usize, kind, own: ctx["own_creator"].as_bool().unwrap(), payer: ctx["node_is_payer"].as_bool().unwrap_or(false), pruned: ctx["pruned"].as_bool().unwrap_or(false), loading_swap: ctx["loading_swap"].as_bool().unwrap_or(false) };
        let mut outs = vec![];
        for _ in 0..2 {
            let mut r = rep.child();
            let mut seen = BTreeSet::new();
            run_case(&c, &mut r, &mut seen);
            outs.push(r.violations.iter().map(|v| format!("{} :: {}", v.key, v.detail)).collect::<Vec<_>>());
        }
        if outs[0] != outs[1] {
            eprintln!("MACHINERY-ERROR: replay not deterministic");
            return 2;
        }
        for l in outs[0].iter() {
            println!("replayed violation: {}", l);
        }
        return if outs[0].is_empty() { 0 } else { 1 };
    }
    let cs = cases(&tier);
    rep.bounds = json!({"a_max": if tier.thorough {3} else {2}, "b": "a+1, a+2", "positions": "every position of the candidate", "kinds": KINDS.iter().map(|k| format!("{:?}", k)).collect::<Vec<_>>(), "creator": ["foreign", "own"], "step_bound": "2*(a+b)+2"});
    rep.rule = "fork shapes (a,b) x position of the offending block x kind of invalidity x own/foreign creator; distinct = (a, kind, position, creator) classes in which the node answered FailedNotValid".into();
    rep.assumptions = vec![
        "candidate blocks are delivered in order through Blockchain::add_block; the offending block's descendants are re-parented honest blocks (re-signed by the creator key the harness owns)".into(),
        "the pool is not part of the no-trace comparison (the property lists tip, spendable set, index, stored blocks, wallet); pool changes are reported as info".into(),
    ];
    let results = par_map(&cs, workers(), |_, c| {
        let mut r = rep.child();
        let mut seen = BTreeSet::new();
        r.evaluations += 1;
        run_case(c, &mut r, &mut seen);
        if c.a == 2 && c.pos == 1 && c.kind == Bad::SignedField && !c.own {
            r.sample(json!({"a": c.a, "b": c.b, "pos": c.pos, "kind": format!("{:?}", c.kind), "deliveries": "S*,O*,N1,N2x,N3r"}));
        }
        (r, seen)
    });
    let mut all = BTreeSet::new();
    for (r, s) in results {
        rep.merge(r);
        all.extend(s);
    }
    rep.states = all.len() as u64;
    rep.required_outcomes = vec!["liveness-ok".into(), "rejected-after-winding-past-old-tip".into(), "rejected:SignedField:after-winding-1".into(), "rejected:CreatorSig:after-winding-0".into(), "sibling-refused:stored-company-at-its-height".into(), "sibling-refused:alone-at-its-height".into()];
    rep.finish()
}
