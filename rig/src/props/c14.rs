//! C14 — the pool stays consistent with the ledger; never loses or locks funds.
//! Breadth-first search over operation sequences on the real Mempool / Blockchain; a state is
//! the history that reaches it, deduplicated by the observable digest.

use std::collections::{BTreeMap, BTreeSet, VecDeque};

use saito_core::core::consensus::block::Block;
use saito_core::core::consensus::slip::Slip;
use saito_core::core::consensus::transaction::{Transaction, TransactionType};
use saito_core::core::defs::SaitoUTXOSetKey;
use serde_json::json;

use crate::exec::{run, Outcome};
use crate::node::*;
use crate::prod::*;
use crate::report::{par_map, workers, Report, Tier};
use crate::seams::key;

#[derive(Clone, Copy, Debug, PartialEq, Eq, PartialOrd, Ord)]
pub enum Op {
    SubmitA,
    SubmitAConflict,
    SubmitB2,
    /// same as B2 with the inputs in the other order (the conflicting input is not the first)
    SubmitB2Rev,
    SubmitC,
    PeerConfirmsA,
    PeerSpendsU1,
    PeerEmpty,
    Bundle,
    BundleTooEarly,
    OwnInvalidBlock,
    ReorgAway,
    /// like ReorgAway, but the first block of the winning fork spends u1 (by another transaction
    /// than the pooled ones): the reorganisation adds two blocks, the spender is not the last one
    ReorgAwaySpendsU1,
    /// a payment that spends an output created by the current tip block (it becomes invalid when
    /// that block is unwound)
    SubmitSpendOfTipOutput,
}
pub const OPS: [Op; 14] = [
    Op::SubmitA,
    Op::SubmitAConflict,
    Op::SubmitB2,
    Op::SubmitB2Rev,
    Op::SubmitC,
    Op::PeerConfirmsA,
    Op::PeerSpendsU1,
    Op::PeerEmpty,
    Op::Bundle,
    Op::BundleTooEarly,
    Op::OwnInvalidBlock,
    Op::ReorgAway,
    Op::ReorgAwaySpendsU1,
    Op::SubmitSpendOfTipOutput,
];

struct W {
    p: Prod,
    u1: Slip,
    u2: Slip,
    u3: Slip,
    fork_ctr: u64,
}

/// genesis period of the world being searched: 10 (nothing ages inside the bound) or 3 (on the
/// 3-block chain the genesis outputs u1..u3 sit exactly on the window edge: admissible now,
/// too old after one more block)
static G: std::sync::atomic::AtomicU64 = std::sync::atomic::AtomicU64::new(10);

fn init() -> Result<W, String> {
    let mut p = Prod::new(G.load(std::sync::atomic::Ordering::SeqCst), 5000, 0)?;
    // two blocks so that a reorg has something to undo
    for i in 0..2 {
        let ts = p.tip_ts + 10_000;
        let t = make_tx(&[], &[(key(5).public, 0)], &key(5), ts, format!("i{}", i).as_bytes());
        let _ = p.submit(t);
        match p.bundle(ts, i == 0) {
            Produced::Block(b) => {
                p.commit(&b);
            }
            _ => return Err("init bundle failed".into()),
        }
    }
    let k1 = p.ledger.unspent_of(&key(1).public);
    let k2 = p.ledger.unspent_of(&key(2).public);
    Ok(W { u1: k1[0].clone(), u2: k1[1].clone(), u3: k2[0].clone(), p, fork_ctr: 0 })
}

fn tx_a(w: &W, salt: u64) -> Transaction {
    // routed to the producer with a fee so that it carries work
    let mut t = make_tx(&[w.u1.clone()], &[(key(2).public, 1000 + salt), (key(1).public, w.u1.amount - 1000 - salt - 50_000)], &key(1), 100 + salt, b"A");
    add_hops(&mut t, &[key(1)], &key(0).public);
    t
}
fn tx_b2(w: &W) -> Transaction {
    make_tx(&[w.u1.clone(), w.u2.clone()], &[(key(2).public, w.u1.amount + w.u2.amount - 10)], &key(1), 102, b"B")
}
fn tx_b2rev(w: &W) -> Transaction {
    make_tx(&[w.u2.clone(), w.u1.clone()], &[(key(2).public, w.u1.amount + w.u2.amount - 11)], &key(1), 104, b"Brev")
}
fn tx_c(w: &W) -> Transaction {
    make_tx(&[w.u3.clone()], &[(key(1).public, w.u3.amount)], &key(2), 103, b"C")
}

/// a block by a peer (the twin's key) on the current tip carrying `txs`
fn peer_block(w: &mut W, txs: Vec<Transaction>, on_prefix: Option<usize>, salt: u64) -> Result<Vec<u8>, String> {
    let prefix = on_prefix.unwrap_or(w.p.chain.len());
    let mut n = LedgerNode::new(key(7), w.p.cfg.clone());
    for b in w.p.chain.iter().take(prefix) {
        let _ = n.add_block_bytes(b);
    }
    let parent = decode_block(&w.p.chain[prefix - 1]);
    let ts = parent.timestamp + 10_000 + salt;
    let gt = if (parent.id + 1) % 2 == 0 {
        let mut t = golden_ticket_tx(parent.hash, parent.difficulty, &key(7), 0);
        t.generate(&key(7).public, 0, 0);
        Some(t)
    } else {
        None
    };
    let mut list = txs;
    if list.is_empty() {
        list.push(make_tx(&[], &[(key(5).public, 0)], &key(5), ts, format!("pe{}", salt).as_bytes()));
    }
    let mut gen = vec![];
    for mut t in list {
        t.generate(&key(7).public, 0, 0);
        gen.push(t);
    }
    let bc = n.blockchain.clone();
    let cfg = n.cfg.clone();
    let storage = &n.storage;
    let r = run(async {
        let bc = bc.read().await;
        let mut map = txmap(gen);
        Block::create(&mut map, parent.hash, &bc, ts, &key(7).public, &key(7).private, gt, &cfg, storage).await
    });
    match r {
        Outcome::Done(Ok(b)) => Ok(block_bytes(&b)),
        o => Err(format!("peer block: {:?}", o.label())),
    }
}

fn deliver(w: &mut W, bytes: &[u8]) -> Outcome<AddRes> {
    let r = w.p.node.add_block_bytes(bytes);
    if let Outcome::Done(AddRes::AddedLongest) = r {
        let _ = w.p.twin.add_block_bytes(bytes);
        let blk = decode_block(bytes);
        // keep the reference ledger in step (rebuild on reorg)
        if blk.previous_block_hash == w.p.tip_hash {
            w.p.ledger.apply(&blk);
            w.p.chain.push(bytes.to_vec());
        }
        w.p.tip_ts = blk.timestamp;
        w.p.tip_hash = blk.hash;
        w.p.tip_id = blk.id;
        w.p.tip_difficulty = blk.difficulty;
    }
    r
}

fn pool_inputs(n: &LedgerNode) -> Vec<(Vec<u8>, Vec<SaitoUTXOSetKey>, u64, Transaction)> {
    let mp = n.mempool.try_read().unwrap();
    let mut v: Vec<_> = mp
        .transactions
        .values()
        .map(|t| (t.signature.to_vec(), t.from.iter().filter(|s| s.amount > 0).map(|s| s.get_utxoset_key()).collect::<Vec<_>>(), t.total_work_for_me, t.clone()))
        .collect();
    v.sort_by(|a, b| a.0.cmp(&b.0));
    v
}

/// apply one operation; returns false if the op is not applicable in this state
fn apply(w: &mut W, op: Op, rep: &mut Report, hist: &[Op]) -> bool {
    let ctx = json!({"history": hist.iter().map(|o| format!("{:?}", o)).collect::<Vec<_>>()});
    let before = w.p.node.obs();
    match op {
        Op::SubmitA | Op::SubmitAConflict | Op::SubmitB2 | Op::SubmitB2Rev | Op::SubmitC => {
            let t = match op {
                Op::SubmitA => tx_a(w, 0),
                Op::SubmitAConflict => tx_a(w, 7),
                Op::SubmitB2 => tx_b2(w),
                Op::SubmitB2Rev => tx_b2rev(w),
                _ => tx_c(w),
            };
            if let o @ (Outcome::Panicked(_) | Outcome::Stalled) = w.p.submit(t) {
                rep.violate("abort/submit", o.label(), ctx);
            }
            true
        }
        Op::SubmitSpendOfTipOutput => {
            let tip_id = w.p.tip_id;
            let mut found = None;
            for who in [key(1), key(2), key(3)] {
                if let Some(sl) = w.p.ledger.unspent_of(&who.public).into_iter().find(|s| s.block_id == tip_id && s.amount > 10) {
                    found = Some((who, sl));
                    break;
                }
            }
            let Some((who, sl)) = found else { return false };
            let t = make_tx(&[sl.clone()], &[(who.public, sl.amount)], &who, 160, b"spend-of-tip-output");
            if let o @ (Outcome::Panicked(_) | Outcome::Stalled) = w.p.submit(t) {
                rep.violate("abort/submit", o.label(), ctx);
            }
            true
        }
        Op::PeerConfirmsA | Op::PeerSpendsU1 | Op::PeerEmpty => {
            let txs = match op {
                Op::PeerConfirmsA => vec![tx_a(w, 0)],
                Op::PeerSpendsU1 => vec![make_tx(&[w.u1.clone()], &[(key(3).public, w.u1.amount)], &key(1), 140, b"other")],
                _ => vec![],
            };
            // only meaningful while u1 is unspent on the chain and still inside the window of the
            // block the other producer is making
            let g = w.p.cfg.consensus.genesis_period;
            if op != Op::PeerEmpty && (!w.p.ledger.utxo.contains(&w.u1.get_utxoset_key()) || w.u1.block_id + g < w.p.tip_id + 1) {
                return false;
            }
            w.fork_ctr += 1;
            let salt = w.fork_ctr;
            match peer_block(w, txs, None, salt) {
                Ok(b) => match deliver(w, &b) {
                    Outcome::Done(AddRes::AddedLongest) => true,
                    o => {
                        rep.violate("peer-block-refused", format!("{:?}: {:?}", op, o), ctx);
                        false
                    }
                },
                Err(e) => {
                    rep.machinery(format!("{} ({})", e, ctx));
                    false
                }
            }
        }
        Op::Bundle | Op::BundleTooEarly => {
            let ts = if op == Op::Bundle { w.p.tip_ts + 10_000 } else { w.p.tip_ts + 10 };
            let pool_before = pool_inputs(&w.p.node);
            match w.p.bundle(ts, (w.p.tip_id + 1) % 2 == 0) {
                Produced::Block(bytes) => {
                    let blk = decode_block(&bytes);
                    let r = deliver(w, &bytes);
                    if !matches!(r, Outcome::Done(AddRes::AddedLongest)) {
                        rep.violate("bundled-block-invalid", format!("{:?}", r), ctx.clone());
                        return true;
                    }
                    let pool_after = pool_inputs(&w.p.node);
                    let bundled: BTreeSet<Vec<u8>> = blk.transactions.iter().map(|t| t.signature.to_vec()).collect();
                    let expect: Vec<Vec<u8>> = pool_before.iter().map(|x| x.0.clone()).filter(|s| !bundled.contains(s)).collect();
                    let got: Vec<Vec<u8>> = pool_after.iter().map(|x| x.0.clone()).collect();
                    if expect != got {
                        rep.violate("bundle-removed-other-than-bundled", format!("pool before {} bundled {} after {}", pool_before.len(), bundled.len(), got.len()), ctx);
                    }
                    rep.outcome("bundled");
                }
                Produced::NoBlock => {
                    let after = w.p.node.obs();
                    if before.pool_txs != after.pool_txs || before.pool_utxo_map != after.pool_utxo_map || before.pool_work != after.pool_work {
                        rep.violate("no-bundle-but-pool-changed", format!("txs {}->{} reservations {}->{} work {}->{}", before.pool_txs.len(), after.pool_txs.len(), before.pool_utxo_map.len(), after.pool_utxo_map.len(), before.pool_work, after.pool_work), ctx);
                    }
                    rep.outcome("no-bundle");
                }
                Produced::Abort(m) => rep.violate("abort/bundle", m, ctx),
            }
            true
        }
        Op::OwnInvalidBlock => {
            // the node's own producer output, corrupted before it is added (e.g. disk/bit error):
            // add_block_failure must put the transactions back
            let ts = w.p.tip_ts + 10_000;
            let pool_before = pool_inputs(&w.p.node);
            if pool_before.is_empty() {
                return false;
            }
            match w.p.bundle(ts, (w.p.tip_id + 1) % 2 == 0) {
                Produced::Block(bytes) => {
                    let mut blk = decode_block(&bytes);
                    blk.burnfee += 1;
                    blk.sign(&w.p.node.key.private);
                    blk.generate().unwrap();
                    let r = w.p.node.add_block(blk.clone());
                    if !matches!(r, Outcome::Done(AddRes::Invalid)) {
                        rep.violate("corrupted-own-block-not-refused", format!("{:?}", r), ctx.clone());
                    }
                    let pool_after = pool_inputs(&w.p.node);
                    let want: BTreeSet<Vec<u8>> = pool_before.iter().filter(|x| x.3.transaction_type == TransactionType::Normal).map(|x| x.0.clone()).collect();
                    let got: BTreeSet<Vec<u8>> = pool_after.iter().map(|x| x.0.clone()).collect();
                    if !want.is_subset(&got) {
                        rep.violate("failed-own-block-loses-transactions", format!("{} of {} transactions back in the pool", got.len(), want.len()), ctx);
                    }
                    rep.outcome("own-block-failed");
                }
                _ => return false,
            }
            true
        }
        Op::ReorgAway | Op::ReorgAwaySpendsU1 => {
            // two peer blocks on the parent of the tip: the tip's transactions are un-confirmed
            let n = w.p.chain.len();
            if n < 3 {
                return false;
            }
            let mut first_txs = vec![];
            if op == Op::ReorgAwaySpendsU1 {
                // u1 must be unspent below the fork point and inside the window of the fork's first block
                let mut l = RefLedger::default();
                for b in w.p.chain[..n - 1].iter() {
                    l.apply(&decode_block(b));
                }
                let g = w.p.cfg.consensus.genesis_period;
                if !l.utxo.contains(&w.u1.get_utxoset_key()) || w.u1.block_id + g < n as u64 {
                    return false;
                }
                first_txs.push(make_tx(&[w.u1.clone()], &[(key(3).public, w.u1.amount)], &key(1), 150, b"fork-spends-u1"));
            }
            w.fork_ctr += 1;
            let salt = 1000 + w.fork_ctr;
            let b1 = match peer_block(w, first_txs, Some(n - 1), salt) {
                Ok(b) => b,
                Err(_) => return false,
            };
            let r1 = w.p.node.add_block_bytes(&b1);
            let _ = w.p.twin.add_block_bytes(&b1);
            if !matches!(r1, Outcome::Done(AddRes::AddedSide)) {
                return false;
            }
            // second block on top of b1
            let saved: Vec<Vec<u8>> = w.p.chain.clone();
            w.p.chain.truncate(n - 1);
            w.p.chain.push(b1.clone());
            let b2 = peer_block(w, vec![], None, salt + 1);
            match b2 {
                Ok(b2) => {
                    let r2 = w.p.node.add_block_bytes(&b2);
                    let _ = w.p.twin.add_block_bytes(&b2);
                    if matches!(r2, Outcome::Done(AddRes::AddedLongest)) {
                        w.p.chain.push(b2.clone());
                        // rebuild the reference ledger for the new chain
                        let mut l = RefLedger::default();
                        for b in w.p.chain.iter() {
                            l.apply(&decode_block(b));
                        }
                        l.missing_inputs.clear();
                        w.p.ledger = l;
                        let blk = decode_block(&b2);
                        w.p.tip_ts = blk.timestamp;
                        w.p.tip_hash = blk.hash;
                        w.p.tip_id = blk.id;
                        w.p.tip_difficulty = blk.difficulty;
                        rep.outcome("reorg");
                        true
                    } else {
                        w.p.chain = saved;
                        rep.violate("reorg-refused", format!("{:?}", r2), ctx);
                        false
                    }
                }
                Err(_) => {
                    w.p.chain = saved;
                    false
                }
            }
        }
    }
}

fn invariants(w: &mut W, rep: &mut Report, hist: &[Op]) {
    let ctx = json!({"history": hist.iter().map(|o| format!("{:?}", o)).collect::<Vec<_>>()});
    let last = hist.last().map(|o| format!("{:?}", o)).unwrap_or_default();
    let pool = pool_inputs(&w.p.node);
    // I1
    let mut seen: BTreeMap<SaitoUTXOSetKey, usize> = BTreeMap::new();
    for (i, (_, ins, _, _)) in pool.iter().enumerate() {
        for k in ins {
            if let Some(j) = seen.insert(*k, i) {
                if j != i {
                    rep.violate(&format!("two-pooled-transactions-share-an-input/after-{}", last), format!("{:?}", hist), ctx.clone());
                }
            }
        }
    }
    // I2
    {
        let bc = w.p.node.blockchain.try_read().unwrap();
        for (_, _, _, t) in pool.iter() {
            let mut t = t.clone();
            t.generate(&w.p.node.key.public, 0, 0);
            if !t.validate(&bc.utxoset, &bc, true) {
                rep.violate(&format!("pooled-transaction-invalid-against-ledger/after-{}", last), format!("{:?}", hist), ctx.clone());
            }
        }
    }
    // I5
    let work: u64 = pool.iter().map(|x| x.2).sum();
    let cached = w.p.node.obs().pool_work;
    if work != cached {
        rep.violate(&format!("routing-work-cache-wrong/after-{}", last), format!("cached {} sum {} ({:?})", cached, work, hist), ctx.clone());
    }
    // I3 probe (destructive; the state is rebuilt for expansion anyway)
    let spent_by_pool: BTreeSet<SaitoUTXOSetKey> = pool.iter().flat_map(|x| x.1.clone()).collect();
    let g = w.p.cfg.consensus.genesis_period;
    for who in [key(1), key(2)] {
        for s in w.p.ledger.unspent_of(&who.public) {
            if spent_by_pool.contains(&s.get_utxoset_key()) || s.block_id + g <= w.p.tip_id + 1 || s.amount < 10 {
                continue;
            }
            let probe = make_tx(&[s.clone()], &[(who.public, s.amount)], &who, 999, b"probe");
            match w.p.submit(probe) {
                Outcome::Done(true) => {}
                Outcome::Done(false) => {
                    let which = if s.get_utxoset_key() == w.u1.get_utxoset_key() { "u1" } else if s.get_utxoset_key() == w.u2.get_utxoset_key() { "u2" } else if s.get_utxoset_key() == w.u3.get_utxoset_key() { "u3" } else { "other" };
                    rep.violate(&format!("unspent-output-locked/{}/after-{}", which, last), format!("output {}-{}-{} of {} is unspent, not spent by any pooled transaction, yet a fresh spend is refused ({:?})", s.block_id, s.tx_ordinal, s.slip_index, crate::seams::key_name(&who.public), hist), ctx.clone());
                }
                o => rep.violate("abort/probe", o.label(), ctx.clone()),
            }
        }
    }
}

fn replay(hist: &[Op], rep: &mut Report, check: bool) -> Option<(W, bool)> {
    let mut w = match init() {
        Ok(w) => w,
        Err(e) => {
            rep.machinery(e);
            return None;
        }
    };
    let mut applicable = true;
    for (i, op) in hist.iter().enumerate() {
        let mut scratch = rep.child();
        let r = if i + 1 == hist.len() && check { apply(&mut w, *op, rep, hist) } else { apply(&mut w, *op, &mut scratch, &hist[..=i]) };
        if !r {
            applicable = false;
            break;
        }
    }
    Some((w, applicable))
}

pub fn main(tier: Tier, _replay: Option<String>) -> i32 {
    let mut rep = Report::new("C14", tier.clone(), "model_checking");
    let depth = if tier.thorough { 6 } else { 4 };
    rep.bounds = json!({"depth": depth, "alphabet": OPS.iter().map(|o| format!("{:?}", o)).collect::<Vec<_>>()});
    rep.rule = "breadth-first search over operation sequences (11-symbol alphabet) on the real pool and chain from a 3-block chain; a state is the history reaching it, deduplicated by the digest of the full observable state; invariants + destructive spendability probe in every state".into();
    rep.assumptions = vec!["u1,u2 are outputs of K1, u3 of K2; transaction A spends u1 (routed to the producer, fee 50,000), A' conflicts on u1, B spends u1+u2, C spends u3".into()];
    let mut total_states = 0u64;
    let mut all_distinct: BTreeSet<String> = BTreeSet::new();
    for g in [10u64, 3] {
    G.store(g, std::sync::atomic::Ordering::SeqCst);
    let mut seen: crate::audit::MergeAudit<Vec<Op>> = crate::audit::MergeAudit::new();
    let mut frontier: Vec<Vec<Op>> = vec![vec![]];
    {
        let mut r0 = rep.child();
        if let Some((mut w, _)) = replay(&[], &mut r0, true) {
            seen.see(state_digest(&w), &vec![]);
            invariants(&mut w, &mut r0, &[]);
        }
        rep.merge(r0);
    }
    let mut level = 0;
    while level < depth && !frontier.is_empty() {
        level += 1;
        let mut cands: Vec<Vec<Op>> = vec![];
        for h in frontier.iter() {
            for op in OPS {
                let mut x = h.clone();
                x.push(op);
                cands.push(x);
            }
        }
        let results = par_map(&cands, workers(), |_, h| {
            let mut r = rep.child();
            r.evaluations += 1;
            r.transitions += 1;
            let Some((mut w, applicable)) = replay(h, &mut r, true) else { return (r, None) };
            if !applicable {
                r.outcome("op-not-applicable");
                return (r, None);
            }
            let d = state_digest(&w);
            invariants(&mut w, &mut r, h);
            r.traces_validated += 1;
            (r, Some(d))
        });
        let mut next = vec![];
        for (h, (r, d)) in cands.into_iter().zip(results.into_iter()) {
            rep.merge(r);
            if let Some(d) = d {
                if seen.see(d, &h) {
                    next.push(h);
                }
            }
        }
        rep.outcome_n(&format!("g{}:level-{}-new-states", g, level), next.len() as u64);
        frontier = next;
    }
    total_states += seen.len() as u64;
    all_distinct.extend(seen.rep_of.keys().map(|h| hex::encode(&h[0..8])));
    // canonicalisation audit: merged histories must agree with their representative one step on
    {
        let quiet = Report::new("C14", tier.clone(), "model_checking");
        seen.audit(if tier.thorough { 3000 } else { 400 }, &format!("pool-bfs-g{}", g), |h: &Vec<Op>| {
            OPS.iter()
                .map(|op| {
                    let mut x = h.clone();
                    x.push(*op);
                    let mut r = quiet.child();
                    let d = match replay(&x, &mut r, true) {
                        Some((w, true)) => Some(state_digest(&w)),
                        _ => None,
                    };
                    (format!("{:?}", op), d)
                })
                .collect()
        }, &mut rep);
    }
    }
    rep.states = total_states;
    rep.distinct = all_distinct;
    rep.sample(json!({"history": ["SubmitB2", "PeerSpendsU1", "Bundle"]}));
    rep.required_outcomes = vec!["bundled".into(), "no-bundle".into(), "reorg".into(), "own-block-failed".into()];
    let _ = VecDeque::<u8>::new();
    rep.finish()
}

/// observable digest plus what decides the order in which the producer's Block::create walks the
/// pool: the iteration order of the pool's hash table (it depends on how the table was filled, not
/// only on what it holds) and its capacity. Found by the canonicalisation audit at depth 6: two
/// histories that pooled the same transactions in different orders bundled different blocks.
fn state_digest(w: &W) -> Hash {
    let mut bytes = w.p.node.obs().digest().to_vec();
    if let Ok(mp) = w.p.node.mempool.try_read() {
        for k in mp.transactions.keys() {
            bytes.extend_from_slice(&k[..8]);
        }
        bytes.extend_from_slice(&(mp.transactions.capacity() as u64).to_be_bytes());
    }
    saito_core::core::util::crypto::hash(&bytes)
}
