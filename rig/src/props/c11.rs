//! C11 — no sequence of peer inputs crashes or stalls the node.
//!
//! One real FullNode (routing + verification + consensus handlers) with a short chain, an honest
//! peer H running a fixed script, and three hostile senders: Xa (authenticated), Xu (connected,
//! handshake never completed) and an index the node has never seen.  Explicit-state BFS over
//! histories of { next honest step, hostile symbol, delivery of one internal channel head };
//! state = history, deduplicated by a digest of everything that can influence the future.
//! Oracles: every handler call returns; the honest-visible projection of every quiescent end
//! state is one that the hostile-free runs also reach.

use std::collections::{BTreeMap, BTreeSet};

use saito_core::core::consensus::block::Block;
use saito_core::core::consensus::slip::SlipType;
use saito_core::core::consensus::transaction::{Transaction, TransactionType};
use saito_core::core::consensus_thread::ConsensusEvent;
use saito_core::core::io::network::PeerDisconnectType;
use saito_core::core::io::network_event::NetworkEvent;
use saito_core::core::msg::api_message::ApiMessage;
use saito_core::core::msg::ghost_chain_sync::GhostChainSync;
use saito_core::core::msg::handshake::HandshakeChallenge;
use saito_core::core::msg::message::Message;
use saito_core::core::routing_thread::RoutingEvent;
use saito_core::core::util::crypto::hash;
use saito_core::core::verification_thread::VerifyRequest;
use serde_json::json;

use crate::exec::Outcome;
use crate::factory::World;
use crate::fullnode::{Chan, FullNode};
use crate::netx::*;
use crate::node::*;
use crate::props::c04::{make_bad, Bad};
use crate::report::{par_map, workers, Report, Tier};
use crate::seams::{key, Cfg, ManualClock, MemIO, Out};

pub const H: u64 = 4;
/// a hostile operator the node dialed itself (entry of its peer list); never identifies itself
pub const XD: u64 = 1;
pub const XA: u64 = 2;
pub const XU: u64 = 3;
pub const UNKNOWN: u64 = 77;

/// hostile block buffers served for an announced hash
#[derive(Clone, Copy, Debug, PartialEq, Eq, PartialOrd, Ord)]
pub enum Blk {
    Garbage,
    Truncated,
    HeaderOnly,
    WrongHash,
    WrongId,
    TxSig,
    CreatorSig,
    SignedField,
    UnknownParent,
    TxSpent,
    MerkleAppend,
    Gt96,
    GtLong,
    AtrGarbage,
    FeeGarbage,
    Id0,
    IdMax,
    OrphanLowId,
    ZeroParentLowId,
    ZeroParentHighId,
    FetchFails,
    /// creator signature / a transaction signature with every byte 0xFF (not a curve point's range)
    CreatorSigFf,
    TxSigFf,
}
pub const BLKS: [Blk; 23] = [
    Blk::Garbage,
    Blk::Truncated,
    Blk::HeaderOnly,
    Blk::WrongHash,
    Blk::WrongId,
    Blk::TxSig,
    Blk::CreatorSig,
    Blk::SignedField,
    Blk::UnknownParent,
    Blk::TxSpent,
    Blk::MerkleAppend,
    Blk::Gt96,
    Blk::GtLong,
    Blk::AtrGarbage,
    Blk::FeeGarbage,
    Blk::Id0,
    Blk::IdMax,
    Blk::OrphanLowId,
    Blk::ZeroParentLowId,
    Blk::ZeroParentHighId,
    Blk::CreatorSigFf,
    Blk::TxSigFf,
    Blk::FetchFails,
];

#[derive(Clone, Copy, Debug, PartialEq, Eq, PartialOrd, Ord)]
pub enum Txk {
    Gt96,
    GtBadTarget,
    NoFrom,
    NoFromNoTo,
    AtrType,
    FeeType,
    IssuanceType,
    BlockStakeType,
    Theft,
    Wrap,
    BadSig,
    GarbagePath,
    Spent,
    /// signature bytes outside the curve's range: both halves, r only, s only all 0xFF; and a hop
    /// signature of that kind on an otherwise honest transaction
    SigAllFf,
    SigRFf,
    SigSFf,
    HopSigFf,
}
pub const TXKS: [Txk; 17] = [
    Txk::Gt96,
    Txk::GtBadTarget,
    Txk::NoFrom,
    Txk::NoFromNoTo,
    Txk::AtrType,
    Txk::FeeType,
    Txk::IssuanceType,
    Txk::BlockStakeType,
    Txk::Theft,
    Txk::Wrap,
    Txk::BadSig,
    Txk::GarbagePath,
    Txk::Spent,
    Txk::SigAllFf,
    Txk::SigRFf,
    Txk::SigSFf,
    Txk::HopSigFf,
];

#[derive(Clone, Copy, Debug, PartialEq, Eq, PartialOrd, Ord)]
pub enum Msg {
    BlockTag,
    ChainReqZero,
    ChainReqHuge,
    ChainReqMid,
    GhostReqZero,
    GhostReqHuge,
    GhostEmpty,
    GhostFake,
    GhostFakeTxs,
    GhostHugeIds,
    KeyList,
    KeyListBurst,
    HsResponseGarbage,
    HsResponseOtherKey,
    HsResponseSigFf,
    HsChallenge,
    HsBurst,
    Services,
    Ping,
    Spv,
    App,
    ResultMsg,
    ErrorMsg,
    HeaderId0,
    HeaderIdMax,
    HeaderKnown,
    Undecodable,
    Empty,
    TruncatedTx,
    TruncatedBlock,
}
pub const MSGS: [Msg; 30] = [
    Msg::BlockTag,
    Msg::ChainReqZero,
    Msg::ChainReqHuge,
    Msg::ChainReqMid,
    Msg::GhostReqZero,
    Msg::GhostReqHuge,
    Msg::GhostEmpty,
    Msg::GhostFake,
    Msg::GhostFakeTxs,
    Msg::GhostHugeIds,
    Msg::KeyList,
    Msg::KeyListBurst,
    Msg::HsResponseGarbage,
    Msg::HsResponseOtherKey,
    Msg::HsResponseSigFf,
    Msg::HsChallenge,
    Msg::HsBurst,
    Msg::Services,
    Msg::Ping,
    Msg::Spv,
    Msg::App,
    Msg::ResultMsg,
    Msg::ErrorMsg,
    Msg::HeaderId0,
    Msg::HeaderIdMax,
    Msg::HeaderKnown,
    Msg::Undecodable,
    Msg::Empty,
    Msg::TruncatedTx,
    Msg::TruncatedBlock,
];

#[derive(Clone, Copy, Debug, PartialEq, Eq, PartialOrd, Ord)]
pub enum Conn {
    DisconnectExternal,
    DisconnectInternal,
    ConnectAgain,
    ConnectErr,
}
pub const CONNS: [Conn; 4] = [Conn::DisconnectExternal, Conn::DisconnectInternal, Conn::ConnectAgain, Conn::ConnectErr];

#[derive(Clone, Copy, Debug, PartialEq, Eq, PartialOrd, Ord)]
pub enum Hostile {
    M(u64, Msg),
    T(u64, Txk),
    B(Blk),
    InvalidBlockBurst,
    C(u64, Conn),
    /// the hostile operator reflects the node's own handshake: the challenge the node issued on
    /// the given accepted connection is sent to the node on the connection it dialed (XD), and the
    /// node's signed answer is delivered back on the accepted connection
    Reflect(u64),
}

#[derive(Clone, Copy, Debug, PartialEq, Eq, PartialOrd, Ord)]
pub enum Ev {
    Honest,
    X(Hostile),
    Int(Chan),
}

pub fn alphabet() -> Vec<Hostile> {
    let mut v = vec![];
    for p in [XA, XU, UNKNOWN] {
        for m in MSGS {
            if p == UNKNOWN && !matches!(m, Msg::BlockTag | Msg::GhostReqZero | Msg::KeyList | Msg::HsChallenge | Msg::ChainReqZero | Msg::Undecodable) {
                continue;
            }
            v.push(Hostile::M(p, m));
        }
    }
    for p in [XA, XU] {
        for t in TXKS {
            v.push(Hostile::T(p, t));
        }
    }
    for b in BLKS {
        v.push(Hostile::B(b));
    }
    v.push(Hostile::InvalidBlockBurst);
    v.push(Hostile::Reflect(XU));
    v.push(Hostile::Reflect(XA));
    for p in [XA, XU, UNKNOWN] {
        for c in CONNS {
            v.push(Hostile::C(p, c));
        }
    }
    v
}

pub struct Uni {
    pub w: World,
    pub base: Vec<usize>,
    pub h4: usize,
    /// valid sibling of H4 the hostile blocks are derived from (never delivered intact)
    pub x4: Block,
    pub honest_tx: Transaction,
    pub spent_tx: Transaction,
    pub hostile_hashes: BTreeSet<Hash>,
}

pub fn universe() -> Result<Uni, String> {
    let mut w = World::standard(10);
    let a = w.honest_child(0, 0, "B2")?;
    let b = w.honest_child(a, 0, "B3")?;
    let h4 = w.honest_child(b, 1, "H4")?;
    // sibling with a normal transaction and a golden ticket, produced by the world's creator
    let ts = w.child_ts(b, 7);
    let t = w.payment(b, &key(2), &key(1).public, 700, 0, ts).ok_or("no K2 funds")?;
    let x4 = w.produce(b, ts, Some(key(0)), vec![t])?;
    // honest transaction: K2 pays K1 with a fee (not conflicting with H4's K1 payment)
    let honest_tx = w.payment(h4, &key(2), &key(1).public, 2000, 500, w.blocks[h4].ts + 50).ok_or("no K2 funds at H4")?;
    // a transaction whose input is already spent on the base chain (B2's payment)
    let b2 = decode_block(&w.blocks[a].bytes);
    let spent_tx = b2.transactions.iter().find(|t| t.transaction_type == TransactionType::Normal).cloned().ok_or("no normal tx in B2")?;
    let mut u = Uni { w, base: vec![0, a, b], h4, x4, honest_tx, spent_tx, hostile_hashes: BTreeSet::new() };
    u.hostile_hashes = BLKS.iter().map(|k| hostile_block(&u, *k).0).collect();
    Ok(u)
}

pub struct Sim {
    pub n: FullNode,
    /// position in the honest script
    pub pos: usize,
    pub h_inflight: bool,
    pub hostile_used: usize,
    /// everything the node sent to H (kind, digest of the content)
    pub sent_to_h: Vec<String>,
    pub relayed_hostile: u32,
    pub x_fetch_rounds: u32,
    pub lite: bool,
}

pub const SCRIPT_LEN: usize = 7;

pub fn start(u: &Uni, lite: bool) -> Result<Sim, String> {
    start_with(u, lite, true)
}

/// `with_chain` = false: a node that has not stored any block yet
pub fn start_with(u: &Uni, lite: bool, with_chain: bool) -> Result<Sim, String> {
    let mut cfg = Cfg::new(10, crate::factory::HEARTBEAT);
    cfg.spv = lite;
    // one entry in the node's own peer list: the connection it dials (index XD)
    cfg.peers = vec![saito_core::core::util::configuration::PeerConfig { host: "hostile-d".into(), port: 1, protocol: "http".into(), synctype: "full".into() }];
    let mut n = FullNode::new(key(9), cfg, MemIO::new(), ManualClock::new(10_000_000));
    n.consensus.produce_blocks_by_timer = true;
    if !n.init().is_done() {
        return Err("init".into());
    }
    for &i in u.base.iter().filter(|_| with_chain) {
        let bc = n.blockchain.clone();
        let mp = n.mempool.clone();
        let cfg = n.cfg.clone();
        let blk = decode_block(&u.w.blocks[i].bytes);
        let storage = &mut n.consensus.storage;
        let r = crate::exec::run(async {
            let mut bc = bc.write().await;
            let mut mp = mp.write().await;
            bc.add_block(blk, storage, &mut mp, &cfg).await;
        });
        if !r.is_done() {
            return Err("base chain".into());
        }
    }
    n.pump();
    n.q_routing.clear();
    // the dialed connection comes up; its far end stays silent
    if !n.tick_routing(2_000).is_done() {
        return Err("dial tick".into());
    }
    if !n.io.take_outbox().into_iter().any(|o| matches!(o, Out::Connect { .. })) {
        return Err("the node did not dial its configured peer".into());
    }
    match n.net(NetworkEvent::PeerConnectionResult { result: Ok((XD, None)) }) {
        Outcome::Done(()) => {}
        o => return Err(format!("connect XD: {}", o.label())),
    }
    n.pump();
    n.q_routing.clear();
    connect_and_handshake(&mut n, H, &key(11), "http://honest")?;
    connect_and_handshake(&mut n, XA, &key(3), "http://hostile")?;
    match n.net(NetworkEvent::PeerConnectionResult { result: Ok((XU, None)) }) {
        Outcome::Done(()) => {}
        o => return Err(format!("connect XU: {}", o.label())),
    }
    n.io.take_outbox();
    Ok(Sim { n, pos: 0, h_inflight: false, hostile_used: 0, sent_to_h: vec![], relayed_hostile: 0, x_fetch_rounds: 0, lite })
}

fn hostile_tx(u: &Uni, k: Txk) -> Transaction {
    let atk = key(3);
    let ts = 1_500_000;
    let k1_slip = u.w.ledgers[u.base[2]].unspent_of(&key(1).public).into_iter().next().expect("K1 slip");
    match k {
        Txk::Gt96 | Txk::GtBadTarget => {
            let tip = u.w.blocks[u.base[2]].hash;
            let mut t = golden_ticket_tx(if k == Txk::Gt96 { tip } else { [0x42; 32] }, 0, &atk, 0);
            if k == Txk::Gt96 {
                t.data.truncate(96);
            }
            t.sign(&atk.private);
            t
        }
        Txk::NoFrom => {
            let mut t = make_tx(&[], &[(atk.public, 0)], &atk, ts, b"nofrom");
            t.from.clear();
            t.sign(&atk.private);
            t
        }
        Txk::NoFromNoTo => {
            let mut t = make_tx(&[], &[(atk.public, 0)], &atk, ts, b"nofromnoto");
            t.from.clear();
            t.to.clear();
            t.sign(&atk.private);
            t
        }
        Txk::AtrType | Txk::FeeType | Txk::IssuanceType | Txk::BlockStakeType => {
            let mut t = make_tx(&[k1_slip.clone()], &[(atk.public, k1_slip.amount)], &atk, ts, b"typed");
            t.transaction_type = match k {
                Txk::AtrType => TransactionType::ATR,
                Txk::FeeType => TransactionType::Fee,
                Txk::IssuanceType => TransactionType::Issuance,
                _ => TransactionType::BlockStake,
            };
            if k == Txk::BlockStakeType {
                for s in t.to.iter_mut() {
                    s.slip_type = SlipType::BlockStake;
                }
            }
            t.sign(&atk.private);
            t
        }
        Txk::Theft => make_tx(&[k1_slip.clone()], &[(atk.public, k1_slip.amount)], &atk, ts, b"theft"),
        Txk::Wrap => {
            let mut t = make_tx(&[], &[(atk.public, u64::MAX), (atk.public, 2)], &atk, ts, b"wrap");
            t.sign(&atk.private);
            t
        }
        Txk::BadSig => {
            let mut t = u.honest_tx.clone();
            t.signature[3] ^= 1;
            t
        }
        Txk::SigAllFf | Txk::SigRFf | Txk::SigSFf => {
            let mut t = u.honest_tx.clone();
            let (a, b) = match k {
                Txk::SigAllFf => (0, 64),
                Txk::SigRFf => (0, 32),
                _ => (32, 64),
            };
            for x in t.signature[a..b].iter_mut() {
                *x = 0xFF;
            }
            t
        }
        Txk::HopSigFf => {
            let mut t = u.honest_tx.clone();
            t.path.clear();
            add_hops(&mut t, &[atk], &key(5).public);
            if let Some(h) = t.path.last_mut() {
                h.sig = [0xFF; 64];
            }
            t
        }
        Txk::GarbagePath => {
            let mut t = make_tx(&[], &[(atk.public, 0)], &atk, ts, b"path");
            add_hops(&mut t, &[atk, key(4)], &key(5).public);
            if let Some(h) = t.path.last_mut() {
                h.sig[5] ^= 1;
            }
            t
        }
        Txk::Spent => u.spent_tx.clone(),
    }
}

/// hostile block (announced hash, announced id, served buffer or None for a failing fetch)
fn hostile_block(u: &Uni, k: Blk) -> ([u8; 32], u64, Option<Vec<u8>>) {
    let x = &u.x4;
    let good = block_bytes(x);
    let bad = |kind: Bad| {
        let b = make_bad(&u.w, x, kind, &u.spent_tx);
        (b.hash, b.id, Some(block_bytes(&b)))
    };
    match k {
        Blk::Garbage => ([0x31; 32], 4, Some(vec![0xAB; 10])),
        Blk::Truncated => (x.hash, x.id, Some(good[..good.len() - 1].to_vec())),
        Blk::HeaderOnly => (x.hash, x.id, Some(good[..good.len().min(389)].to_vec())),
        Blk::WrongHash => ([0x32; 32], x.id, Some(good)),
        Blk::WrongId => (x.hash, x.id + 1, Some(good)),
        Blk::TxSig => bad(Bad::TxSig),
        Blk::CreatorSig => bad(Bad::CreatorSig),
        Blk::SignedField => bad(Bad::SignedField),
        Blk::UnknownParent => bad(Bad::UnknownParent),
        Blk::TxSpent => bad(Bad::TxSpent),
        Blk::MerkleAppend => bad(Bad::MerkleAppend),
        Blk::Gt96 | Blk::GtLong | Blk::AtrGarbage | Blk::FeeGarbage | Blk::Id0 | Blk::IdMax | Blk::OrphanLowId | Blk::ZeroParentLowId | Blk::ZeroParentHighId => {
            let mut b = x.clone();
            b.created_hashmap_of_slips_spent_this_block = false;
            b.slips_spent_this_block.clear();
            match k {
                Blk::Gt96 => {
                    let i = b.transactions.iter().position(|t| t.transaction_type == TransactionType::GoldenTicket).expect("gt");
                    b.transactions[i].data.truncate(96);
                    b.transactions[i].sign(&key(0).private);
                }
                Blk::GtLong => {
                    // a payload longer than the fixed golden-ticket size, re-signed by the miner
                    let i = b.transactions.iter().position(|t| t.transaction_type == TransactionType::GoldenTicket).expect("gt");
                    b.transactions[i].data.resize(130, 0x5A);
                    b.transactions[i].sign(&key(0).private);
                }
                Blk::AtrGarbage => {
                    let mut t = make_tx(&[], &[(key(3).public, 5)], &key(0), x.timestamp, b"not a transaction");
                    t.transaction_type = TransactionType::ATR;
                    t.sign(&key(0).private);
                    b.transactions.push(t);
                }
                Blk::Id0 => b.id = 0,
                Blk::IdMax => b.id = u64::MAX,
                Blk::ZeroParentLowId => {
                    // claims to be a first block (no parent) at a height below the node's tip
                    b.id = 2;
                    b.previous_block_hash = [0; 32];
                }
                Blk::ZeroParentHighId => {
                    b.id = 9;
                    b.previous_block_hash = [0; 32];
                }
                Blk::OrphanLowId => {
                    // a parentless block that claims a height below the node's tip
                    b.id = 2;
                    b.previous_block_hash = [0x78; 32];
                }
                _ => {
                    let mut t = make_tx(&[], &[(key(3).public, 5)], &key(0), x.timestamp, b"fee");
                    t.transaction_type = TransactionType::Fee;
                    t.sign(&key(0).private);
                    b.transactions.push(t);
                }
            }
            b.merkle_root = [0; 32];
            b.merkle_root = b.generate_merkle_root(false, false);
            b.sign(&key(0).private);
            // a block whose derived data cannot be generated has no hash of its own: announce any
            if b.generate().is_err() {
                b.hash = [0x34; 32];
            }
            (b.hash, b.id, Some(block_bytes(&b)))
        }
        Blk::FetchFails => ([0x33; 32], 4, None),
        Blk::CreatorSigFf => {
            let mut b = x.clone();
            b.signature = [0xFF; 64];
            if b.generate().is_err() {
                b.hash = [0x36; 32];
            }
            (b.hash, b.id, Some(block_bytes(&b)))
        }
        Blk::TxSigFf => {
            let mut b = x.clone();
            if let Some(t) = b.transactions.iter_mut().find(|t| t.transaction_type == TransactionType::Normal) {
                t.signature = [0xFF; 64];
            }
            if b.generate().is_err() {
                b.hash = [0x37; 32];
            }
            (b.hash, b.id, Some(block_bytes(&b)))
        }
    }
}

/// wire form of a BlockchainRequest message (its fields are crate-private)
pub fn chain_req(id: u64, h: [u8; 32], fork: [u8; 32]) -> Vec<u8> {
    let mut v = vec![5u8];
    v.extend_from_slice(&id.to_be_bytes());
    v.extend_from_slice(&h);
    v.extend_from_slice(&fork);
    v
}

/// one line per message the node sends to H; announcements of hostile blocks are kept apart:
/// a structurally plausible block on a side chain is stored unvalidated and relayed by design
/// (it is not rejected input), so they are not part of the honest-visible comparison
fn record_to_h(u: &Uni, s: &mut Sim, buffer: &[u8]) {
    let line = match Message::deserialize(buffer.to_vec()) {
        Ok(Message::BlockHeaderHash(h, id)) => {
            if u.hostile_hashes.contains(&h) {
                s.relayed_hostile += 1;
                return;
            }
            format!("Header({}:{})", id, hx(&h[..6]))
        }
        Ok(Message::Transaction(t)) => format!("Tx({})", hx(&t.signature[..6])),
        Ok(m) => format!("{}({})", m.get_type_value(), hx(&hash(buffer)[..6])),
        Err(_) => format!("undecodable({})", hx(&hash(buffer)[..6])),
    };
    s.sent_to_h.push(line);
}

fn hostile_msg(u: &Uni, m: Msg) -> Vec<Vec<u8>> {
    let b3 = &u.w.blocks[u.base[2]];
    let one = |m: Message| vec![m.serialize()];
    match m {
        Msg::BlockTag => one(Message::Block(decode_block(&u.w.blocks[u.h4].bytes))),
        Msg::ChainReqZero => vec![chain_req(0, [0; 32], [0; 32])],
        Msg::ChainReqHuge => vec![chain_req(u64::MAX, [0xff; 32], [0xff; 32])],
        Msg::ChainReqMid => vec![chain_req(2, [0x12; 32], [0x34; 32])],
        Msg::GhostReqZero => one(Message::GhostChainRequest(0, [0; 32], [0; 32])),
        Msg::GhostReqHuge => one(Message::GhostChainRequest(u64::MAX, [0xff; 32], [0xff; 32])),
        Msg::GhostEmpty => one(Message::GhostChain(GhostChainSync { start: [0; 32], prehashes: vec![], previous_block_hashes: vec![], block_ids: vec![], block_ts: vec![], txs: vec![], gts: vec![] })),
        Msg::GhostFake | Msg::GhostFakeTxs => {
            let t = m == Msg::GhostFakeTxs;
            one(Message::GhostChain(GhostChainSync {
                start: b3.hash,
                prehashes: vec![[0x61; 32], [0x62; 32]],
                previous_block_hashes: vec![b3.hash, [0x63; 32]],
                block_ids: vec![b3.id + 1, b3.id + 2],
                block_ts: vec![b3.ts + 1, b3.ts + 2],
                txs: vec![t, t],
                gts: vec![true, true],
            }))
        }
        Msg::GhostHugeIds => one(Message::GhostChain(GhostChainSync {
            start: [0x64; 32],
            prehashes: vec![[0x65; 32]],
            previous_block_hashes: vec![[0x64; 32]],
            block_ids: vec![u64::MAX],
            block_ts: vec![u64::MAX],
            txs: vec![false],
            gts: vec![false],
        })),
        Msg::KeyList => one(Message::KeyListUpdate(vec![key(1).public, key(11).public])),
        Msg::KeyListBurst => (0..102).map(|_| Message::KeyListUpdate(vec![key(5).public]).serialize()).collect(),
        Msg::HsResponseGarbage => {
            let mut r = response(&key(3), &[0x44; 32], [0x45; 32], "http://hostile");
            r.signature[4] ^= 1;
            one(Message::HandshakeResponse(r))
        }
        Msg::HsResponseSigFf => {
            let mut r = response(&key(3), &[0x44; 32], [0x45; 32], "http://hostile");
            r.signature = [0xFF; 64];
            one(Message::HandshakeResponse(r))
        }
        Msg::HsResponseOtherKey => one(Message::HandshakeResponse(response(&key(4), &[0x44; 32], [0x45; 32], "http://other"))),
        Msg::HsChallenge => one(Message::HandshakeChallenge(HandshakeChallenge { challenge: [0x46; 32] })),
        Msg::HsBurst => (0..102).map(|_| Message::HandshakeChallenge(HandshakeChallenge { challenge: [0x47; 32] }).serialize()).collect(),
        Msg::Services => one(Message::Services(vec![])),
        Msg::Ping => one(Message::Ping()),
        Msg::Spv => one(Message::SPVChain()),
        Msg::App => one(Message::ApplicationMessage(ApiMessage { msg_index: 1, data: vec![1, 2, 3] })),
        Msg::ResultMsg => one(Message::Result(ApiMessage { msg_index: u32::MAX, data: vec![] })),
        Msg::ErrorMsg => one(Message::Error(ApiMessage { msg_index: 0, data: vec![9; 40] })),
        Msg::HeaderId0 => one(Message::BlockHeaderHash([0x56; 32], 0)),
        Msg::HeaderIdMax => one(Message::BlockHeaderHash([0x57; 32], u64::MAX)),
        Msg::HeaderKnown => one(Message::BlockHeaderHash(b3.hash, b3.id)),
        Msg::Undecodable => vec![vec![0xff, 1, 2, 3]],
        Msg::Empty => vec![vec![]],
        Msg::TruncatedTx => vec![vec![4, 0, 0, 0, 1, 0, 0, 0, 1, 9, 9]],
        Msg::TruncatedBlock => {
            let mut v = vec![3u8];
            v.extend_from_slice(&u.w.blocks[u.h4].bytes[..200]);
            vec![v]
        }
    }
}

struct StepCtx<'a> {
    rep: &'a mut Report,
    hist: &'a [Ev],
    lite: bool,
}

fn check(o: Outcome<()>, what: &str, c: &mut StepCtx) -> bool {
    if o.is_done() {
        return true;
    }
    let kind = match &o {
        Outcome::Stalled => "stall",
        _ => "abort",
    };
    let ctx = json!({"lite": c.lite, "history": c.hist.iter().map(|e| format!("{:?}", e)).collect::<Vec<_>>()});
    c.rep.violate(&format!("handler-{}/{}", kind, what), format!("{}: {} after {:?}", what, o.label(), c.hist), ctx);
    false
}

/// what the environment does after every external step: record traffic to H, notice the honest
/// fetch, answer the node's own disconnect requests, fail fetches the hostile peer does not serve
fn after_step(s: &mut Sim, u: &Uni, what: &str, c: &mut StepCtx) -> bool {
    for _round in 0..4 {
        let out = s.n.io.take_outbox();
        if out.is_empty() {
            return true;
        }
        let mut follow: Vec<NetworkEvent> = vec![];
        for o in out {
            match o {
                Out::Send { peer, buffer } if peer == H => record_to_h(u, s, &buffer),
                Out::SendAll { buffer, excluded } if !excluded.contains(&H) => record_to_h(u, s, &buffer),
                Out::Fetch { hash, peer, block_id, .. } => {
                    if peer == H && hash == u.w.blocks[u.h4].hash {
                        s.h_inflight = true;
                    } else if peer == H {
                        // H does not have it
                        follow.push(NetworkEvent::BlockFetchFailed { block_hash: hash, peer_index: peer, block_id });
                    } else if s.x_fetch_rounds < 6 {
                        s.x_fetch_rounds += 1;
                        follow.push(NetworkEvent::BlockFetchFailed { block_hash: hash, peer_index: peer, block_id });
                    }
                }
                Out::Disconnect { peer } => {
                    follow.push(NetworkEvent::PeerDisconnected { peer_index: peer, disconnect_type: PeerDisconnectType::InternalDisconnect });
                }
                _ => {}
            }
        }
        for ev in follow {
            let o = s.n.net(ev);
            if !check(o, &format!("{}+follow-up", what), c) {
                return false;
            }
        }
    }
    true
}

/// returns Some(true) applied, Some(false) aborted (violation recorded), None not enabled
pub fn apply(u: &Uni, s: &mut Sim, ev: Ev, rep: &mut Report, hist: &[Ev]) -> Option<bool> {
    let mut c = StepCtx { rep, hist, lite: s.lite };
    match ev {
        Ev::Honest => {
            if s.pos >= SCRIPT_LEN {
                return None;
            }
            let h4 = &u.w.blocks[u.h4];
            let o = match s.pos {
                0 => s.n.net(incoming(H, &Message::BlockHeaderHash(h4.hash, h4.id))),
                1 => {
                    if !s.h_inflight {
                        return None;
                    }
                    s.h_inflight = false;
                    s.n.net(NetworkEvent::BlockFetched { block_hash: h4.hash, block_id: h4.id, peer_index: H, buffer: h4.bytes.clone() })
                }
                2 => {
                    let mut t = u.honest_tx.clone();
                    add_hops(&mut t, &[key(2), key(11)], &s.n.key.public);
                    s.n.net(incoming(H, &Message::Transaction(t)))
                }
                3 => s.n.tick_consensus(200_000),
                4 => s.n.tick_routing(2_000),
                5 => s.n.net(incoming_raw(H, chain_req(0, [0; 32], [0; 32]))),
                _ => s.n.tick_routing(6_000),
            };
            let what = format!("honest-step-{}", s.pos);
            s.pos += 1;
            if !check(o, &what, &mut c) {
                return Some(false);
            }
            Some(after_step(s, u, &what, &mut c))
        }
        Ev::Int(ch) => {
            let o = s.n.step(ch)?;
            let what = format!("internal-{:?}", ch);
            if !check(o, &what, &mut c) {
                return Some(false);
            }
            Some(after_step(s, u, &what, &mut c))
        }
        Ev::X(hx) => {
            s.hostile_used += 1;
            let what = match hx {
                Hostile::M(p, m) => format!("{:?}/{}", m, who(p)),
                Hostile::T(p, t) => format!("Tx{:?}/{}", t, who(p)),
                Hostile::B(b) => format!("Block{:?}", b),
                Hostile::InvalidBlockBurst => "InvalidBlockBurst".to_string(),
                Hostile::C(p, x) => format!("{:?}/{}", x, who(p)),
                Hostile::Reflect(p) => format!("ReflectOwnHandshake/{}", who(p)),
            };
            match hx {
                Hostile::M(p, m) => {
                    for buf in hostile_msg(u, m) {
                        let o = s.n.net(incoming_raw(p, buf));
                        if !check(o, &what, &mut c) {
                            return Some(false);
                        }
                    }
                }
                Hostile::T(p, t) => {
                    let o = s.n.net(incoming(p, &Message::Transaction(hostile_tx(u, t))));
                    if !check(o, &what, &mut c) {
                        return Some(false);
                    }
                }
                Hostile::B(k) => {
                    if !announce_and_serve(u, s, k, &what, &mut c) {
                        return Some(false);
                    }
                }
                Hostile::InvalidBlockBurst => {
                    for i in 0..11u8 {
                        let hsh = [0x80 + i; 32];
                        let o = s.n.net(incoming(XA, &Message::BlockHeaderHash(hsh, 4)));
                        if !check(o, &what, &mut c) {
                            return Some(false);
                        }
                        let asked = s.n.io.take_outbox().iter().any(|o| matches!(o, Out::Fetch { hash, peer, .. } if *peer == XA && *hash == hsh));
                        if asked {
                            let o = s.n.net(NetworkEvent::BlockFetched { block_hash: hsh, block_id: 4, peer_index: XA, buffer: vec![i; 12] });
                            if !check(o, &what, &mut c) {
                                return Some(false);
                            }
                            // the verification task sees it at once (burst symbol)
                            while s.n.q_verify.iter().any(|r| matches!(r, VerifyRequest::Block(_, p, _, _) if *p == XA)) {
                                let Some(o) = s.n.step(Chan::Verify) else { break };
                                if !check(o, &what, &mut c) {
                                    return Some(false);
                                }
                            }
                        }
                    }
                }
                Hostile::Reflect(p) => {
                    // the challenge outstanding on the accepted connection (the operator saw it on
                    // the wire; a connection that is already authenticated has none: a fixed value)
                    let ch = {
                        let peers = s.n.peers.try_read().expect("peers lock");
                        peers.index_to_peers.get(&p).and_then(|x| x.challenge_for_peer).unwrap_or([0x48; 32])
                    };
                    let kept = s.n.io.take_outbox();
                    let o = s.n.net(incoming(XD, &Message::HandshakeChallenge(HandshakeChallenge { challenge: ch })));
                    if !check(o, &what, &mut c) {
                        return Some(false);
                    }
                    let out = s.n.io.take_outbox();
                    let mut answer: Option<Vec<u8>> = None;
                    let mut rest = kept;
                    for o in out {
                        match &o {
                            Out::Send { peer, buffer } if *peer == XD && matches!(Message::deserialize(buffer.clone()), Ok(Message::HandshakeResponse(_))) => answer = Some(buffer.clone()),
                            _ => rest.push(o),
                        }
                    }
                    s.n.io.put_back_outbox(rest);
                    if let Some(buf) = answer {
                        let o = s.n.net(incoming_raw(p, buf));
                        if !check(o, &what, &mut c) {
                            return Some(false);
                        }
                        c.rep.outcome("reflected-handshake-delivered");
                    } else {
                        c.rep.outcome("reflection:node-did-not-answer-on-the-dialed-connection");
                    }
                }
                Hostile::C(p, x) => {
                    let ev = match x {
                        Conn::DisconnectExternal => NetworkEvent::PeerDisconnected { peer_index: p, disconnect_type: PeerDisconnectType::ExternalDisconnect },
                        Conn::DisconnectInternal => NetworkEvent::PeerDisconnected { peer_index: p, disconnect_type: PeerDisconnectType::InternalDisconnect },
                        Conn::ConnectAgain => NetworkEvent::PeerConnectionResult { result: Ok((p, Some("10.0.0.9".to_string()))) },
                        Conn::ConnectErr => NetworkEvent::PeerConnectionResult { result: Err(std::io::Error::from(std::io::ErrorKind::ConnectionRefused)) },
                    };
                    let o = s.n.net(ev);
                    if !check(o, &what, &mut c) {
                        return Some(false);
                    }
                    // a disconnect the node asked for itself is already reported; do not loop
                    let out = s.n.io.take_outbox();
                    for o in out {
                        match o {
                            Out::Send { peer, buffer } if peer == H => record_to_h(u, s, &buffer),
                            Out::SendAll { buffer, excluded } if !excluded.contains(&H) => record_to_h(u, s, &buffer),
                            _ => {}
                        }
                    }
                    return Some(true);
                }
            }
            Some(after_step(s, u, &what, &mut c))
        }
    }
}

fn who(p: u64) -> &'static str {
    match p {
        XA => "authenticated",
        XU => "unauthenticated",
        XD => "dialed",
        _ => "unknown-index",
    }
}

fn announce_and_serve(u: &Uni, s: &mut Sim, k: Blk, what: &str, c: &mut StepCtx) -> bool {
    let (hsh, id, buf) = hostile_block(u, k);
    let o = s.n.net(incoming(XA, &Message::BlockHeaderHash(hsh, id)));
    if !check(o, what, c) {
        return false;
    }
    // leave other outbox items for after_step: only look, do not take
    let out = s.n.io.take_outbox();
    let mut asked = false;
    for o in out.iter() {
        match o {
            Out::Fetch { hash, peer, .. } if *peer == XA && *hash == hsh => asked = true,
            Out::Fetch { hash, peer, .. } if *peer == H && *hash == u.w.blocks[u.h4].hash => s.h_inflight = true,
            Out::Send { peer, buffer } if *peer == H => record_to_h(u, s, buffer),
            Out::SendAll { buffer, excluded } if !excluded.contains(&H) => record_to_h(u, s, buffer),
            _ => {}
        }
    }
    if !asked {
        c.rep.outcome("hostile-announce-not-fetched");
        return true;
    }
    let ev = match buf {
        Some(b) => NetworkEvent::BlockFetched { block_hash: hsh, block_id: id, peer_index: XA, buffer: b },
        None => NetworkEvent::BlockFetchFailed { block_hash: hsh, peer_index: XA, block_id: id },
    };
    let o = s.n.net(ev);
    check(o, what, c)
}

fn queue_summary(s: &Sim) -> String {
    let v: Vec<String> = s
        .n
        .q_verify
        .iter()
        .map(|r| match r {
            VerifyRequest::Transaction(t) => format!("vt{}", hx(&t.signature[..6])),
            VerifyRequest::Transactions(t) => format!("vts{}", t.len()),
            VerifyRequest::Block(b, p, h, i) => format!("vb{}:{}:{}:{}", hx(&hash(b)[..6]), p, hx(&h[..4]), i),
        })
        .collect();
    let c: Vec<String> = s
        .n
        .q_consensus
        .iter()
        .map(|r| match r {
            ConsensusEvent::NewGoldenTicket { golden_ticket } => format!("cg{}", hx(&golden_ticket.target[..4])),
            ConsensusEvent::BlockFetched { peer_index, block } => format!("cb{}:{}", peer_index, hx(&block.hash[..6])),
            ConsensusEvent::NewTransaction { transaction } => format!("ct{}", hx(&transaction.signature[..6])),
            ConsensusEvent::NewTransactions { transactions } => format!("cts{}", transactions.len()),
        })
        .collect();
    let r: Vec<String> = s
        .n
        .q_routing
        .iter()
        .map(|r| match r {
            RoutingEvent::BlockchainUpdated(h) => format!("ru{}", hx(&h[..6])),
            RoutingEvent::BlockFetchRequest(p, h, i) => format!("rf{}:{}:{}", p, hx(&h[..6]), i),
            RoutingEvent::BlockchainRequest(p) => format!("rr{}", p),
        })
        .collect();
    format!("{:?}{:?}{:?}", v, c, r)
}

fn peers_summary(s: &Sim, only: Option<u64>) -> String {
    let p = s.n.peers.try_read().expect("peers");
    let mut v: Vec<String> = p
        .index_to_peers
        .values()
        .filter(|x| only.map(|o| o == x.index).unwrap_or(true))
        .map(|x| {
            format!(
                "{}:{:?}:{}:{}:{}:k{}:s{}:{:?}:{:?}:{:?}:{}",
                x.index,
                std::mem::discriminant(&x.peer_status),
                x.public_key.map(|k| hx(&k[..5])).unwrap_or_default(),
                x.challenge_for_peer.is_some(),
                x.block_fetch_url,
                x.key_list.len(),
                x.services.len(),
                if only.is_some() { String::new() } else { format!("{:?}", x.key_list_limiter) },
                if only.is_some() { String::new() } else { format!("{:?}", x.handshake_limiter) },
                if only.is_some() { String::new() } else { format!("{:?}", x.invalid_block_limiter) },
                x.disconnected_at
            )
        })
        .collect();
    v.sort();
    let mut a: Vec<String> = p.address_to_peers.iter().filter(|(_, i)| only.map(|o| o == **i).unwrap_or(true)).map(|(k, i)| format!("{}>{}", hx(&k[..5]), i)).collect();
    a.sort();
    format!("{:?}{:?}", v, a)
}

pub fn digest(s: &Sim) -> Hash {
    let mut o = s.n.obs();
    o.files.clear();
    let snap = s.n.routing.blockchain_sync_state.verif_snapshot();
    let pend: Vec<String> = s.n.consensus.txs_for_mempool.iter().map(|t| hx(&t.signature[..6])).collect();
    hash(format!("{}|{:?}|{}|{}|{:?}|{}|{}|{}|{:?}|{}", hx(&o.digest()), snap, queue_summary(s), peers_summary(s, None), pend, s.pos, s.h_inflight, s.hostile_used, s.sent_to_h, s.n.clock.get()).as_bytes())
}

/// what honest peers can observe of the node at quiescence, as named components
pub fn honest_projection(s: &Sim) -> String {
    let o = s.n.obs();
    let mut sent = s.sent_to_h.clone();
    sent.sort();
    let (tip_id, tip_hash, blocks, utxo, supply) = o.chain_part();
    let chain: Vec<String> = blocks.iter().map(|(i, h)| format!("{}:{}", i, hx(&h[..6]))).collect();
    let utxo_d = hx(&hash(format!("{:?}", utxo).as_bytes())[..8]);
    let pool: Vec<String> = o.pool_txs.iter().map(|t| format!("{:?}", t)).collect();
    format!(
        "tip={}:{};chain={};utxo={}/{};supply={:?};pool={};peerH={};sent={}",
        tip_id,
        hx(&tip_hash[..6]),
        chain.join(","),
        utxo.len(),
        utxo_d,
        supply,
        pool.join(","),
        peers_summary(s, Some(H)),
        sent.join(",")
    )
}

/// replays a history to its quiescent end, then gives the node six more producer timers (each two
/// heartbeats later, internal channels drained in their default order) and returns the projection
fn settle(u: &Uni, lite: bool, hist: &[Ev]) -> Option<(String, usize)> {
    let mut scratch = Report::new("C11", Tier { thorough: false, seed: 0 }, "model_checking");
    let (mut s, ok) = replay(u, lite, hist, &mut scratch)?;
    if !ok {
        return None;
    }
    for _ in 0..6 {
        let mut c = StepCtx { rep: &mut scratch, hist, lite };
        let o = s.n.tick_consensus(200_000);
        if !check(o, "settle-timer", &mut c) {
            return None;
        }
        if !after_step(&mut s, u, "settle-timer", &mut c) {
            return None;
        }
        let mut guard = 0;
        while let Some(ch) = s.n.pending().first().cloned() {
            guard += 1;
            if guard > 200 {
                return None;
            }
            let Some(o) = s.n.step(ch) else { break };
            if !check(o, "settle-internal", &mut c) {
                return None;
            }
            if !after_step(&mut s, u, "settle-internal", &mut c) {
                return None;
            }
        }
    }
    let queued = s.n.mempool.try_read().map(|m| m.blocks_queue.len()).unwrap_or(0);
    Some((honest_projection(&s), queued))
}

/// names of the components in which `a` differs from the closest element of `refs`
fn projection_diff(a: &str, refs: &BTreeSet<String>) -> String {
    let pa: Vec<&str> = a.split(';').collect();
    let mut best: Option<Vec<String>> = None;
    for r in refs.iter() {
        let pr: Vec<&str> = r.split(';').collect();
        let d: Vec<String> = pa.iter().zip(pr.iter()).filter(|(x, y)| x != y).map(|(x, y)| format!("[{}] instead of [{}]", x, y)).collect();
        if best.as_ref().map(|b| d.len() < b.len()).unwrap_or(true) {
            best = Some(d);
        }
    }
    best.unwrap_or_default().join(" ; ")
}

fn enabled(s: &Sim, alpha: &[Hostile], max_hostile: usize) -> Vec<Ev> {
    let mut v = vec![];
    for c in s.n.pending() {
        v.push(Ev::Int(c));
    }
    if s.pos < SCRIPT_LEN && (s.pos != 1 || s.h_inflight) {
        v.push(Ev::Honest);
    }
    if s.hostile_used < max_hostile {
        for h in alpha {
            v.push(Ev::X(*h));
        }
    }
    v
}

fn replay(u: &Uni, lite: bool, hist: &[Ev], rep: &mut Report) -> Option<(Sim, bool)> {
    let mut s = match start(u, lite) {
        Ok(s) => s,
        Err(e) => {
            rep.machinery(format!("start: {}", e));
            return None;
        }
    };
    for (i, ev) in hist.iter().enumerate() {
        let last = i + 1 == hist.len();
        let mut scratch = rep.child();
        let r = if last { apply(u, &mut s, *ev, rep, hist) } else { apply(u, &mut s, *ev, &mut scratch, &hist[..=i]) };
        match r {
            Some(true) => {}
            Some(false) => return Some((s, false)),
            None => return None,
        }
    }
    Some((s, true))
}

fn label(ev: &Ev) -> String {
    format!("{:?}", ev)
}

/// a handler that asks for a lock while it holds one that ranks later can be parked for good by
/// the task that takes them in the documented order
fn lock_order(trace: Vec<saito_core::core::verif_lock::LockEvent>, h: &[Ev], r: &mut Report) {
    for ev in trace {
        if ev.rank == 0 {
            continue;
        }
        if let Some((hr, _, hf)) = ev.held.iter().find(|(hr, _, _)| *hr != 0 && *hr > ev.rank) {
            let file = ev.file.rsplit('/').next().unwrap_or(ev.file);
            r.violate(&format!("handler-requests-a-lock-out-of-order/{}", file), format!("{}:{} asks for the lock of rank {} while holding rank {} (taken in {}) in a handler reached by {:?}", ev.file, ev.line, ev.rank, hr, hf, h.iter().rev().take(3).rev().collect::<Vec<_>>()), json!({"file": ev.file, "line": ev.line, "rank": ev.rank, "held_rank": hr}));
        }
    }
}

pub struct Explored {
    pub terminals: BTreeMap<String, Vec<Ev>>,
}

/// breadth-first search with at most `max_hostile` hostile symbols per history
pub fn explore(u: &Uni, lite: bool, alpha: &[Hostile], max_hostile: usize, rep: &mut Report, honest_terminals: Option<&BTreeSet<String>>, state_cap: usize) -> Explored {
    let mut seen: crate::audit::MergeAudit<Vec<Ev>> = crate::audit::MergeAudit::new();
    let mut frontier: Vec<Vec<Ev>> = vec![vec![]];
    let mut terminals: BTreeMap<String, Vec<Ev>> = BTreeMap::new();
    let mut level = 0;
    while !frontier.is_empty() {
        level += 1;
        // expand: replay each frontier history once to learn its enabled events
        let results = par_map(&frontier, workers(), |_, h| {
            let mut r = rep.child();
            // every lock request of the handlers run for this history is recorded (cfg-guarded shim):
            // a handler that asks for a lock while it holds one that ranks later can be parked for
            // good by the task that takes them in the documented order -- it would never return
            saito_core::core::verif_lock::trace_start();
            let Some((s, ok)) = replay(u, lite, h, &mut r) else {
                let _ = saito_core::core::verif_lock::trace_take();
                return (r, vec![]);
            };
            lock_order(saito_core::core::verif_lock::trace_take(), h, &mut r);
            if !ok {
                return (r, vec![]);
            }
            let evs = enabled(&s, alpha, max_hostile);
            let mut out = vec![];
            for ev in evs {
                let mut hh = h.clone();
                hh.push(ev);
                r.evaluations += 1;
                r.transitions += 1;
                // the extended history is traced as well: an event that leaves the node's state as it
                // was (a request that is only answered) is dropped as a duplicate below and would
                // otherwise never be replayed under the trace
                saito_core::core::verif_lock::trace_start();
                let res = replay(u, lite, &hh, &mut r);
                lock_order(saito_core::core::verif_lock::trace_take(), &hh, &mut r);
                let Some((s2, ok)) = res else {
                    r.outcome("event-not-enabled");
                    continue;
                };
                if !ok {
                    r.outcome("aborted");
                    continue;
                }
                r.traces_validated += 1;
                let quiescent = s2.pos >= SCRIPT_LEN && s2.n.pending().is_empty();
                let proj = if quiescent { Some(honest_projection(&s2)) } else { None };
                out.push((hh, digest(&s2), proj));
            }
            (r, out)
        });
        let mut next = vec![];
        for (r, outs) in results {
            rep.merge(r);
            for (h, d, proj) in outs {
                if let Some(p) = proj {
                    // a lite node takes its view of the chain from the peers it authenticated: a ghost
                    // chain from such a peer is accepted input, not rejected input
                    // (nor is a block it serves: Block::validate accepts every block in SPV mode)
                    let trusted_ghost = lite && h.iter().any(|e| matches!(e, Ev::X(Hostile::M(XA, Msg::GhostEmpty | Msg::GhostFake | Msg::GhostFakeTxs | Msg::GhostHugeIds)) | Ev::X(Hostile::B(_))));
                    if let Some(ht) = honest_terminals.filter(|_| !trusted_ghost) {
                        if !ht.contains(&p) {
                            let hostile: Vec<String> = h.iter().filter_map(|e| if let Ev::X(x) = e { Some(format!("{:?}", x)) } else { None }).collect();
                            let diff = projection_diff(&p, ht);
                            // which components differ (tip, chain, utxo, supply, pool, peerH, sent)
                            let comps: Vec<String> = diff.split(" ; ").filter_map(|d| d.trim_start_matches('[').split('=').next().map(|x| x.to_string())).collect();
                            // a pending transaction that is merely bundled later is not a changed view:
                            // give the node further producer timers and compare again
                            let mut later = String::new();
                            let mut class = "honest-view-changed-by-rejected-input";
                            if comps == vec!["pool".to_string()] {
                                match settle(u, lite, &h) {
                                    Some((p2, _)) if ht.contains(&p2) => {
                                        rep.outcome("pool-difference-gone-after-further-timers");
                                        terminals.entry(p).or_insert_with(|| h.clone());
                                        if seen.see(d, &h) {
                                            next.push(h);
                                        }
                                        continue;
                                    }
                                    Some((_, queued)) if queued > 0 => {
                                        // the cause is visible: a block is parked in the pool's block
                                        // queue and can_bundle_block refuses while the queue is not empty
                                        class = "production-stalled-by-queued-block";
                                        later = format!(" (still so after six further producer timers; {} block(s) parked in the queue)", queued);
                                    }
                                    _ => later = " (still so after six further producer timers)".to_string(),
                                }
                            }
                            rep.violate(
                                &format!("{}/{}{}/{}", class, if lite { "lite/" } else { "" }, hostile.join("+"), comps.join("+")),
                                format!("end state differs from every hostile-free end state: {}{}", shorten(&diff), later),
                                json!({"lite": lite, "history": h.iter().map(label).collect::<Vec<_>>()}),
                            );
                        }
                    }
                    terminals.entry(p).or_insert_with(|| h.clone());
                }
                if seen.see(d, &h) {
                    next.push(h);
                }
            }
        }
        rep.outcome_n(&format!("{}hostile<={}:level-{}-new-states", if lite { "lite:" } else { "" }, max_hostile, level), next.len() as u64);
        if seen.len() > state_cap {
            rep.exhaustive = false;
            rep.extra.insert("state_cap_hit".into(), json!({"max_hostile": max_hostile, "level": level, "states": seen.len()}));
            break;
        }
        frontier = next;
    }
    rep.states += seen.len() as u64;
    for d in seen.rep_of.keys() {
        rep.distinct.insert(hex::encode(&d[0..8]));
    }
    // canonicalisation audit: merged histories agree with their representative one step on (the
    // honest step, every internal delivery, and every seventh hostile symbol)
    {
        let quiet = Report::new("C11", Tier { thorough: false, seed: 0 }, "model_checking");
        let pairs = if state_cap > 100_000 { 300 } else { 60 };
        seen.audit(pairs, &format!("hostile-bfs-{}-k{}", if lite { "lite" } else { "full" }, max_hostile), |h: &Vec<Ev>| {
            let Some((s, ok)) = replay(u, lite, h, &mut quiet.child()) else { return vec![("replay-failed".to_string(), None)] };
            if !ok {
                return vec![("aborted".to_string(), None)];
            }
            let evs: Vec<Ev> = enabled(&s, alpha, max_hostile).into_iter().enumerate().filter(|(i, e)| !matches!(e, Ev::X(_)) || i % 7 == 0).map(|(_, e)| e).collect();
            drop(s);
            evs.into_iter()
                .map(|ev| {
                    let mut hh = h.clone();
                    hh.push(ev);
                    let d = match replay(u, lite, &hh, &mut quiet.child()) {
                        Some((s2, true)) => Some(digest(&s2)),
                        _ => None,
                    };
                    (label(&ev), d)
                })
                .collect()
        }, rep);
    }
    Explored { terminals }
}

fn shorten(s: &str) -> String {
    if s.len() > 900 {
        format!("{}…", &s[..900])
    } else {
        s.to_string()
    }
}

/// every transaction type x number of inputs / outputs (0..=3) x slip-type pattern, zero amounts,
/// correctly signed by the sender: each delivered as a message from an authenticated and from an
/// unauthenticated peer at two points of the honest script, then through a fetched block
fn shape_sweep(u: &Uni, rep: &mut Report) {
    use saito_core::core::consensus::slip::Slip;
    let types = [
        TransactionType::Normal,
        TransactionType::Fee,
        TransactionType::GoldenTicket,
        TransactionType::ATR,
        TransactionType::Vip,
        TransactionType::SPV,
        TransactionType::Issuance,
        TransactionType::BlockStake,
        TransactionType::Bound,
    ];
    let slip_pats: [[SlipType; 3]; 5] = [
        [SlipType::Normal, SlipType::Normal, SlipType::Normal],
        [SlipType::Bound, SlipType::Normal, SlipType::Bound],
        [SlipType::Bound, SlipType::Bound, SlipType::Bound],
        [SlipType::ATR, SlipType::Normal, SlipType::Normal],
        [SlipType::BlockStake, SlipType::Normal, SlipType::Normal],
    ];
    let atk = key(3);
    // payload lengths: the golden ticket payload has a fixed size (97), every other type is free
    // kp: whose key the slips name: 0 = all the sender's; 1 = the last input names the node's own key;
    // 2 = the last output names the node's own key
    let mut cases: Vec<(TransactionType, usize, usize, usize, usize, u64, usize, usize, u8)> = vec![];
    for ty in types {
        for nf in 0..=3usize {
            for nt in 0..=3usize {
                for fp in 0..slip_pats.len() {
                    for tp in [0usize, 1] {
                        // pos 99 = the node has no chain yet
                        for (sender, pos) in [(XA, 0usize), (XU, 2), (XA, 99)] {
                            if pos == 99 && !(fp == 0 && tp == 0) {
                                continue;
                            }
                            let lens: Vec<usize> = if ty == TransactionType::GoldenTicket {
                                if fp == 0 && tp == 0 { vec![97, 0, 1, 96, 98, 194] } else { vec![97] }
                            } else if fp == 0 && tp == 0 && nf == 1 && nt == 1 {
                                vec![5, 0, 97]
                            } else {
                                vec![5]
                            };
                            for dl in lens {
                                cases.push((ty, nf, nt, fp, tp, sender, pos, dl, 0));
                                if dl == 5 || dl == 97 {
                                    if nf >= 2 {
                                        cases.push((ty, nf, nt, fp, tp, sender, pos, dl, 1));
                                    }
                                    if nt >= 2 && fp == 0 {
                                        cases.push((ty, nf, nt, fp, tp, sender, pos, dl, 2));
                                    }
                                }
                            }
                        }
                    }
                }
            }
        }
    }
    let results = par_map(&cases, workers(), |_, &(ty, nf, nt, fp, tp, sender, pos, dl, kp)| {
        let mut r = rep.child();
        r.evaluations += 1;
        let mut tx = Transaction::default();
        tx.transaction_type = ty;
        tx.timestamp = 1_500_000;
        tx.data = vec![7u8; dl];
        for i in 0..nf {
            let mut sl = Slip::default();
            sl.public_key = atk.public;
            sl.amount = 0;
            sl.slip_type = slip_pats[fp][i];
            sl.slip_index = i as u8;
            if kp == 1 && i + 1 == nf {
                sl.public_key = key(9).public;
            }
            tx.from.push(sl);
        }
        for i in 0..nt {
            let mut sl = Slip::default();
            sl.public_key = atk.public;
            sl.amount = 0;
            sl.slip_type = slip_pats[tp][i];
            sl.slip_index = i as u8;
            if kp == 2 && i + 1 == nt {
                sl.public_key = key(9).public;
            }
            tx.to.push(sl);
        }
        tx.sign(&atk.private);
        let what = format!("TxShape/{:?}/from{}/to{}/{:?}/{:?}/data{}/{}{}", ty, nf, nt, slip_pats[fp][0], slip_pats[tp][0], dl, who(sender), match kp { 1 => "/last-input-names-the-node", 2 => "/last-output-names-the-node", _ => "" });
        let mut s = match start_with(u, false, pos != 99) {
            Ok(s) => s,
            Err(e) => {
                r.machinery(e);
                return r;
            }
        };
        let what = if pos == 99 { format!("{}/empty-chain", what) } else { what };
        let mut hist: Vec<Ev> = vec![];
        for _ in 0..(if pos == 99 { 0 } else { pos }) {
            hist.push(Ev::Honest);
            let _ = apply(u, &mut s, Ev::Honest, &mut r.child(), &hist);
            let _ = s.n.settle();
        }
        let ctx = json!({"shape": what, "honest_steps_before": pos});
        let o = s.n.net(incoming(sender, &Message::Transaction(tx.clone())));
        if !o.is_done() {
            r.violate(&format!("handler-abort/{}", what), o.label(), ctx.clone());
            return r;
        }
        for _ in 0..20 {
            let Some(c) = s.n.pending().first().cloned() else { break };
            match s.n.step(c) {
                Some(Outcome::Done(())) | None => {}
                Some(o) => {
                    r.violate(&format!("handler-abort/{}/internal-{:?}", what, c), o.label(), ctx.clone());
                    return r;
                }
            }
        }
        let o = s.n.tick_consensus(200_000);
        if !o.is_done() {
            r.violate(&format!("handler-abort/{}/consensus-timer", what), o.label(), ctx.clone());
            return r;
        }
        let _ = s.n.settle();
        r.outcome("shape-sweep:returned");
        r.traces_validated += 1;
        r
    });
    for r in results {
        rep.merge(r);
    }
}

/// A golden ticket for the tip is pooled first (from the honest peer); then a second one for the
/// same target arrives from a hostile sender (authenticated, unauthenticated), valid or with a
/// bogus solution. The handler keeps the first one: what the pool holds for that target afterwards
/// must be what it held before.
fn golden_ticket_replacement(u: &Uni, rep: &mut Report) {
    for lite in [false] {
        for sender in [XA, XU] {
            for bogus in [false, true] {
                rep.evaluations += 1;
                let mut s = match start(u, lite) {
                    Ok(s) => s,
                    Err(e) => {
                        rep.machinery(e);
                        return;
                    }
                };
                let tip = s.n.tip().1;
                let difficulty = s.n.blockchain.try_read().unwrap().get_block(&tip).map(|b| b.difficulty).unwrap_or(0);
                let what = format!("second-golden-ticket-for-a-taken-target/{}/{}", who(sender), if bogus { "bogus-solution" } else { "valid-solution" });
                let ctx = json!({"case": what});
                let honest_gt = golden_ticket_tx(tip, difficulty, &key(11), 0);
                let mut hostile_gt = golden_ticket_tx(tip, difficulty, &key(3), 1);
                if bogus {
                    // right length, right target, a solution that is none
                    // (wire layout: target 32 | random 32 | public key 33)
                    for b in hostile_gt.data[32..64].iter_mut() {
                        *b = 0x11;
                    }
                    hostile_gt.sign(&key(3).private);
                }
                let mut deliver_all = |s: &mut Sim, from: u64, tx: &Transaction, rep: &mut Report| -> bool {
                    let o = s.n.net(incoming(from, &Message::Transaction(tx.clone())));
                    if !o.is_done() {
                        rep.violate(&format!("handler-abort/{}", what), o.label(), ctx.clone());
                        return false;
                    }
                    for _ in 0..20 {
                        let Some(c) = s.n.pending().first().cloned() else { break };
                        match s.n.step(c) {
                            Some(Outcome::Done(())) | None => {}
                            Some(o) => {
                                rep.violate(&format!("handler-abort/{}/internal-{:?}", what, c), o.label(), ctx.clone());
                                return false;
                            }
                        }
                    }
                    true
                };
                if !deliver_all(&mut s, H, &honest_gt, rep) {
                    continue;
                }
                let held = |s: &Sim| -> Option<[u8; 64]> { s.n.mempool.try_read().ok().and_then(|m| m.golden_tickets.get(&tip).map(|(t, _)| t.signature)) };
                let before = held(&s);
                if before != Some(honest_gt.signature) {
                    rep.outcome("golden-ticket-replacement:first-ticket-not-pooled(skipped)");
                    continue;
                }
                if !deliver_all(&mut s, sender, &hostile_gt, rep) {
                    continue;
                }
                let after = held(&s);
                if after != before {
                    rep.violate(&format!("pooled-golden-ticket-replaced-by-a-later-one/{}", what), format!("the pool held the honest peer's ticket for the tip; after the second ticket it holds {}", if after == Some(hostile_gt.signature) { "the hostile one" } else { "something else" }), ctx.clone());
                } else {
                    rep.outcome("golden-ticket-replacement:first-ticket-kept");
                }
            }
        }
    }
}

pub fn main(tier: Tier, replay_file: Option<String>) -> i32 {
    let mut rep = Report::new("C11", tier.clone(), "model_checking");
    let u = match universe() {
        Ok(u) => u,
        Err(e) => {
            rep.machinery(format!("universe: {}", e));
            return rep.finish();
        }
    };
    let alpha = alphabet();
    if let Some(f) = replay_file {
        let txt = std::fs::read_to_string(&f).unwrap_or_default();
        let v: serde_json::Value = serde_json::from_str(&txt).unwrap_or_default();
        let want: Vec<String> = v["case"]["history"].as_array().map(|a| a.iter().filter_map(|x| x.as_str().map(|s| s.to_string())).collect()).unwrap_or_default();
        let mut all: Vec<Ev> = vec![Ev::Honest, Ev::Int(Chan::Verify), Ev::Int(Chan::Consensus), Ev::Int(Chan::Routing)];
        all.extend(alpha.iter().map(|h| Ev::X(*h)));
        let hist: Vec<Ev> = want.iter().filter_map(|w| all.iter().find(|e| &label(e) == w).cloned()).collect();
        println!("replaying {:?}", hist);
        let lite = v["case"]["lite"].as_bool().unwrap_or(false);
        let r = replay(&u, lite, &hist, &mut rep);
        println!("applied={}", r.map(|x| x.1).unwrap_or(false));
        return rep.finish();
    }
    let max_hostile = if tier.thorough { 2 } else { 1 };
    rep.bounds = json!({
        "hostile_symbols_per_history": max_hostile,
        "alphabet_size": alpha.len(),
        "honest_script_steps": SCRIPT_LEN,
        "senders": ["authenticated peer", "connected peer that never answered the challenge", "peer index the node has never seen"],
        "schedules": "every order of delivering the heads of the verification / consensus / routing channels between external events",
    });
    rep.rule = "explicit-state breadth-first search on one real FullNode: events = next honest step | hostile symbol | delivery of one internal channel head; state = history, deduplicated by a digest of chain, pool, wallet, peers (with limiter counters), fetch scheduler, channel contents, script position".into();
    rep.assumptions = vec![
        "the socket layer raises BlockFetched / BlockFetchFailed only for fetches the node requested; it answers a disconnect request with PeerDisconnected".into(),
        "InterfaceIO calls return Ok (a failing send is not modelled)".into(),
        "AddStunPeer / RemoveStunPeer and outgoing-direction NetworkEvents come from the local application, not from peers".into(),
        "burst symbols (102 key lists, 102 challenges, 11 undecodable blocks) stand for the rate-limit thresholds".into(),
    ];
    for lite in [false, true] {
        let tag = if lite { "lite:" } else { "full:" };
        // 1. hostile-free schedules: the reference set of end states
        let honest = explore(&u, lite, &alpha, 0, &mut rep, None, 200_000);
        let ht: BTreeSet<String> = honest.terminals.keys().cloned().collect();
        rep.outcome_n(&format!("{}hostile-free-end-states", tag), ht.len() as u64);
        if std::env::var("VERIF_C11_DUMP").is_ok() {
            // developer aid: the reference end states
            for t in ht.iter() {
                eprintln!("{}hostile-free end state: {}", tag, t);
            }
        }
        if ht.is_empty() {
            rep.machinery(format!("{}the hostile-free run never reached quiescence", tag));
            return rep.finish();
        }
        // the hostile-free run must actually do something
        let any = ht.iter().next().unwrap();
        if !any.contains(&hx(&u.w.blocks[u.h4].hash[..6])) {
            rep.machinery(format!("{}honest script did not add H4: {}", tag, shorten(any)));
        }
        // 2. with hostile symbols
        let cap = if tier.thorough { 300_000 } else { 60_000 };
        let kmax = if lite { 1 } else { max_hostile };
        for k in 1..=kmax {
            let ex = explore(&u, lite, &alpha, k, &mut rep, Some(&ht), cap);
            rep.outcome_n(&format!("{}hostile<={}:end-states", tag, k), ex.terminals.len() as u64);
        }
    }
    shape_sweep(&u, &mut rep);
    golden_ticket_replacement(&u, &mut rep);
    rep.sample(json!({"history": ["Honest", "X(M(3, GhostReqZero))", "Int(Verify)"]}));
    rep.required_outcomes = vec!["full:hostile-free-end-states".into(), "lite:hostile-free-end-states".into(), "shape-sweep:returned".into(), "golden-ticket-replacement:first-ticket-kept".into()];
    rep.finish()
}
