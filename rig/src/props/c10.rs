//! C10 — decoders are total.  For every valid encoding of the corpus: every prefix, every
//! 1/2/4-byte window forced to 00../FF.. (and boundary values on count fields), every value of
//! tag/type bytes, all short strings under every message tag.  Oracle: Ok or Err, no panic,
//! peak allocation <= 64*len + 1 MiB.  The sweep runs in a child process so that an abort
//! (allocation failure) is observed instead of killing the check.

use std::collections::BTreeMap;

use saito_core::core::consensus::block::{Block, BlockType};
use saito_core::core::consensus::hop::Hop;
use saito_core::core::consensus::peers::peer_service::PeerService;
use saito_core::core::consensus::slip::Slip;
use saito_core::core::consensus::transaction::{Transaction, TransactionType};
use saito_core::core::consensus::wallet::Wallet;
use saito_core::core::msg::block_request::BlockchainRequest;
use saito_core::core::msg::ghost_chain_sync::GhostChainSync;
use saito_core::core::msg::handshake::{HandshakeChallenge, HandshakeResponse};
use saito_core::core::msg::message::Message;
use saito_core::core::process::version::Version;
use saito_core::core::util::balance_snapshot::BalanceSnapshot;
use saito_core::core::util::serialize::Serialize;
use serde_json::json;

use crate::alloc::measure;
use crate::corpus::*;
use crate::exec::{catch, Outcome};
use crate::node::*;
use crate::report::{par_map, workers, Report, Tier};
use crate::seams::{key, MemIO};

type Dec = fn(&[u8]) -> bool;

fn d_message(b: &[u8]) -> bool {
    Message::deserialize(b.to_vec()).is_ok()
}
fn d_block(b: &[u8]) -> bool {
    match Block::deserialize_from_net(b) {
        Ok(mut blk) => {
            // every decoded block is generate()d before anything else looks at it; a block that
            // passes generate() has its golden-ticket payload decoded by the next stages
            // (consensus values, validation, the pool's bookkeeping) without a further guard
            if blk.generate().is_ok() {
                for t in blk.transactions.iter().filter(|t| t.transaction_type == TransactionType::GoldenTicket) {
                    let _ = saito_core::core::consensus::golden_ticket::GoldenTicket::deserialize_from_net(&t.data);
                }
            }
            let _ = blk.serialize_for_net(BlockType::Full);
            true
        }
        Err(_) => false,
    }
}
fn d_tx(b: &[u8]) -> bool {
    match Transaction::deserialize_from_net(b) {
        Ok(mut t) => {
            t.generate(&key(0).public, 0, 0);
            let _ = t.validate_routing_path();
            let _ = t.get_serialized_size();
            true
        }
        Err(_) => false,
    }
}
fn d_slip(b: &[u8]) -> bool {
    Slip::deserialize_from_net(&b.to_vec()).is_ok()
}
fn d_hop(b: &[u8]) -> bool {
    Hop::deserialize_from_net(&b.to_vec()).is_ok()
}
fn d_ghost(b: &[u8]) -> bool {
    GhostChainSync::try_deserialize(b.to_vec()).is_ok()
}
fn d_challenge(b: &[u8]) -> bool {
    HandshakeChallenge::deserialize(&b.to_vec()).is_ok()
}
fn d_response(b: &[u8]) -> bool {
    HandshakeResponse::deserialize(&b.to_vec()).is_ok()
}
fn d_request(b: &[u8]) -> bool {
    BlockchainRequest::deserialize(&b.to_vec()).is_ok()
}
fn d_services(b: &[u8]) -> bool {
    PeerService::deserialize_services(b.to_vec()).is_ok()
}
fn d_version(b: &[u8]) -> bool {
    Version::deserialize(&b.to_vec()).is_ok()
}
fn d_wallet(b: &[u8]) -> bool {
    let mut w = Wallet::new(key(1).private, key(1).public);
    w.deserialize_from_disk(b);
    true
}
fn d_utxokey(b: &[u8]) -> bool {
    if b.len() != 59 {
        return false;
    }
    let k: [u8; 59] = b.try_into().unwrap();
    Slip::parse_slip_from_utxokey(&k).is_ok()
}
fn d_snapshot(b: &[u8]) -> bool {
    match String::from_utf8(b.to_vec()) {
        Ok(s) => BalanceSnapshot::try_from(s).is_ok(),
        Err(_) => false,
    }
}
fn d_issuance(b: &[u8]) -> bool {
    let io = MemIO::new();
    io.put("./data/issuance/issuance", b.to_vec());
    let st = saito_core::core::io::storage::Storage::new(Box::new(io));
    crate::exec::poll_plain(async { st.get_token_supply_slips_from_disk().await }).is_some()
}
fn d_blockfile(b: &[u8]) -> bool {
    let io = MemIO::new();
    io.put("./data/blocks/x.sai", b.to_vec());
    let st = saito_core::core::io::storage::Storage::new(Box::new(io));
    match crate::exec::poll_plain(async { st.load_block_from_disk("./data/blocks/x.sai").await }) {
        Some(r) => r.is_ok(),
        None => false,
    }
}

pub struct Base {
    pub dec: &'static str,
    pub f: Dec,
    pub label: String,
    pub bytes: Vec<u8>,
    /// offsets of count / length / tag fields (width) that get the full boundary-value set
    pub fields: Vec<(usize, usize)>,
}

fn tx_fields(off: usize) -> Vec<(usize, usize)> {
    vec![(off, 4), (off + 4, 4), (off + 8, 4), (off + 12, 4), (off + 88, 4), (off + 92, 1)]
}

pub fn bases(tier: &Tier) -> Vec<Base> {
    let mut v: Vec<Base> = vec![];
    for m in messages() {
        let b = m.serialize();
        let mut fields = vec![(0usize, 1usize)];
        match m.get_type_value() {
            2 => fields.push((1 + 138, 4)),
            3 => {
                fields.push((1, 4));
                fields.extend(tx_fields(1 + 389));
            }
            4 => fields.extend(tx_fields(1)),
            10 => fields.push((1 + 32, 4)),
            12 | 13 | 14 => fields.push((1, 4)),
            _ => {}
        }
        v.push(Base { dec: "message", f: d_message, label: format!("tag{}-len{}", m.get_type_value(), b.len()), bytes: b, fields });
    }
    for n in 0..4usize {
        let blk = header_block(n as u64 + 1, n);
        let b = blk.serialize_for_net(BlockType::Full);
        let mut fields = vec![(0, 4)];
        if n > 0 {
            fields.extend(tx_fields(389));
        }
        v.push(Base { dec: "block", f: d_block, label: format!("synthetic-{}tx", n), bytes: b.clone(), fields: fields.clone() });
        v.push(Base { dec: "block-file", f: d_blockfile, label: format!("synthetic-{}tx", n), bytes: b, fields });
    }
    // a real block with golden ticket, fee, rebroadcast transactions
    if let Ok(mut ps) = super::c01::positions(tier) {
        let w = ps.remove(ps.iter().position(|x| x.name == "wrapped-g3-fees").expect("position wrapped-g3-fees")).w;
        for bi in [w.blocks.len() - 1, w.blocks.len() - 2] {
            let b = w.blocks[bi].bytes.clone();
            let mut fields = vec![(0, 4)];
            fields.extend(tx_fields(389));
            v.push(Base { dec: "block", f: d_block, label: format!("chain-{}", w.blocks[bi].label), bytes: b, fields });
        }
    }
    for (i, t) in [
        tx(TransactionType::Normal, 1, 2, 10, 1, 1, 5),
        tx(TransactionType::Normal, 0, 0, 0, 0, 1, 6),
        tx(TransactionType::GoldenTicket, 1, 1, 97, 0, 1, 7),
        tx(TransactionType::ATR, 3, 3, 120, 2, 1, 8),
        tx(TransactionType::Bound, 3, 3, 0, 3, 1, 9),
    ]
    .iter()
    .enumerate()
    {
        let b = t.serialize_for_net();
        v.push(Base { dec: "transaction", f: d_tx, label: format!("shape{}-len{}", i, b.len()), bytes: b, fields: tx_fields(0) });
    }
    let s = slip(9, saito_core::core::consensus::slip::SlipType::Normal, 12345);
    v.push(Base { dec: "slip", f: d_slip, label: "slip".into(), bytes: s.serialize_for_net(), fields: vec![(58, 1)] });
    let mut sk = s.clone();
    sk.generate_utxoset_key();
    v.push(Base { dec: "utxokey", f: d_utxokey, label: "utxokey".into(), bytes: sk.utxoset_key.to_vec(), fields: vec![(58, 1)] });
    v.push(Base { dec: "hop", f: d_hop, label: "hop".into(), bytes: hop(3).serialize_for_net(), fields: vec![] });
    for n in 0..4 {
        v.push(Base { dec: "ghost-chain", f: d_ghost, label: format!("{}entries", n), bytes: ghost_chain(n).serialize(), fields: vec![(32, 4)] });
    }
    v.push(Base { dec: "handshake-challenge", f: d_challenge, label: "challenge".into(), bytes: bytes_n::<32>(4).to_vec(), fields: vec![] });
    for (i, r) in handshake_responses().iter().enumerate() {
        v.push(Base { dec: "handshake-response", f: d_response, label: format!("resp{}", i), bytes: r.serialize(), fields: vec![(138, 4)] });
    }
    {
        let mut raw = vec![];
        raw.extend_from_slice(&7u64.to_be_bytes());
        raw.extend_from_slice(&bytes_n::<32>(24));
        raw.extend_from_slice(&bytes_n::<32>(25));
        v.push(Base { dec: "blockchain-request", f: d_request, label: "req".into(), bytes: raw, fields: vec![] });
    }
    for n in 0..3 {
        v.push(Base { dec: "services", f: d_services, label: format!("{}svc", n), bytes: PeerService::serialize_services(&services(n)), fields: vec![] });
    }
    v.push(Base { dec: "version", f: d_version, label: "version".into(), bytes: Version::new(1, 2, 3).serialize(), fields: vec![] });
    {
        let w = Wallet::new(key(3).private, key(3).public);
        v.push(Base { dec: "wallet-disk", f: d_wallet, label: "wallet".into(), bytes: w.serialize_for_disk(), fields: vec![] });
    }
    {
        let snap = BalanceSnapshot { latest_block_id: 77, latest_block_hash: bytes_n::<32>(9), timestamp: 123456789, slips: slips().into_iter().take(3).collect() };
        v.push(Base { dec: "balance-snapshot", f: d_snapshot, label: "snap".into(), bytes: snap.to_string().into_bytes(), fields: vec![] });
    }
    {
        use saito_core::core::defs::PrintForLog;
        let k = key(1).public.to_base58();
        let text = format!("100000\t{}\tNormal\n30000\t{}\tVipOutput\n5\t{}\tNormal\n", k, k, k);
        v.push(Base { dec: "issuance-file", f: d_issuance, label: "issuance".into(), bytes: text.into_bytes(), fields: vec![] });
        // text-level shapes of a row: key column decoding to 0..64 bytes (valid base58 and not),
        // amounts on both sides of the small-holder threshold (below it the key column is ignored),
        // missing / surplus columns, unknown slip type
        let mut rows: Vec<String> = vec![];
        for klen in [0usize, 1, 20, 32, 33, 34, 64] {
            let kb: Vec<u8> = (0..klen).map(|i| (i as u8).wrapping_mul(7).wrapping_add(3)).collect();
            for amount in ["5", "24999", "25000", "100000", "18446744073709551615", "18446744073709551616", "-1", "x"] {
                rows.push(format!("{}\t{}\tNormal", amount, b58(&kb)));
            }
        }
        rows.push(format!("100000\t{}", k));
        rows.push(format!("100000\t{}\tNormal\textra", k));
        rows.push(format!("100000\t{}\tSomethingElse", k));
        rows.push("100000\tnot-base58-0OIl\tNormal".to_string());
        rows.push("\t\t".to_string());
        for (i, row) in rows.iter().enumerate() {
            let text = format!("100000\t{}\tNormal\n{}\n30000\t{}\tNormal\n", k, row, k);
            v.push(Base { dec: "issuance-file", f: d_issuance, label: format!("issuance-row{}", i), bytes: text.into_bytes(), fields: vec![] });
        }
    }
    v
}

/// base58 (bitcoin alphabet) of an arbitrary byte string
fn b58(bytes: &[u8]) -> String {
    const ALPHABET: &[u8] = b"123456789ABCDEFGHJKLMNPQRSTUVWXYZabcdefghijkmnopqrstuvwxyz";
    let mut digits: Vec<u8> = vec![];
    for &b in bytes {
        let mut carry = b as u32;
        for d in digits.iter_mut() {
            carry += (*d as u32) << 8;
            *d = (carry % 58) as u8;
            carry /= 58;
        }
        while carry > 0 {
            digits.push((carry % 58) as u8);
            carry /= 58;
        }
    }
    let zeros = bytes.iter().take_while(|&&b| b == 0).count();
    let mut out: Vec<u8> = vec![b'1'; zeros];
    out.extend(digits.iter().rev().map(|&d| ALPHABET[d as usize]));
    String::from_utf8(out).unwrap()
}

fn boundary_values(width: usize, actual: u64) -> Vec<Vec<u8>> {
    let vals: Vec<u64> = vec![0, 1, actual.wrapping_sub(1), actual.wrapping_add(1), 255, 256, 65535, 65536, 0x7fff_ffff, 0x8000_0000, 0xffff_ffff];
    let mut out = vec![];
    for v in vals {
        match width {
            1 => out.push(vec![v as u8]),
            2 => out.push((v as u16).to_be_bytes().to_vec()),
            4 => out.push((v as u32).to_be_bytes().to_vec()),
            _ => {}
        }
    }
    out.sort();
    out.dedup();
    out
}

/// the inputs derived from one base encoding
fn derive(b: &Base, thorough: bool) -> Vec<(String, Vec<u8>)> {
    let n = b.bytes.len();
    let mut v: Vec<(String, Vec<u8>)> = vec![];
    let stride = |len: usize| if len <= 1600 || thorough { 1 } else { 13 };
    let st = stride(n);
    let mut i = 0;
    while i <= n {
        v.push((format!("prefix{}", i), b.bytes[..i].to_vec()));
        i += if i < 700 { 1 } else { st };
    }
    if n > 0 && (n - 1) % st != 0 {
        v.push((format!("prefix{}", n - 1), b.bytes[..n - 1].to_vec()));
    }
    let wlimit = if thorough { n } else { n.min(700) };
    for off in 0..wlimit {
        for w in [1usize, 2, 4] {
            if off + w > n {
                continue;
            }
            for fill in [0x00u8, 0xff] {
                let mut x = b.bytes.clone();
                for k in 0..w {
                    x[off + k] = fill;
                }
                if x != b.bytes {
                    v.push((format!("win{}w{}={:02x}", off, w, fill), x));
                }
            }
        }
    }
    for (off, w) in b.fields.iter() {
        if off + w > n {
            continue;
        }
        let actual = match w {
            1 => b.bytes[*off] as u64,
            4 => u32::from_be_bytes(b.bytes[*off..off + 4].try_into().unwrap()) as u64,
            _ => 0,
        };
        for val in boundary_values(*w, actual) {
            let mut x = b.bytes.clone();
            x[*off..off + w].copy_from_slice(&val);
            v.push((format!("field{}={}", off, hex::encode(&val)), x));
        }
        if *w == 1 {
            for t in 0..=255u8 {
                let mut x = b.bytes.clone();
                x[*off] = t;
                v.push((format!("byte{}={}", off, t), x));
            }
        }
    }
    v
}

fn short_strings(thorough: bool) -> Vec<(String, Vec<u8>)> {
    let mut v = vec![];
    let seconds: Vec<u8> = if thorough { (0..=255).collect() } else { vec![0, 1, 2, 32, 33, 127, 128, 255] };
    for tag in 0..=16u8 {
        v.push((format!("tag{}", tag), vec![tag]));
        for a in 0..=255u8 {
            v.push((format!("tag{}+{:02x}", tag, a), vec![tag, a]));
            for b in seconds.iter() {
                v.push((format!("tag{}+{:02x}{:02x}", tag, a, b), vec![tag, a, *b]));
            }
        }
    }
    v
}

pub fn child(tier: Tier) -> i32 {
    let mut rep = Report::new("C10", tier.clone(), "exploration");
    let bs = bases(&tier);
    rep.rule = "for every base encoding of every decoder: all prefixes, every 1/2/4-byte window set to 00/FF, boundary values (0,1,actual+-1,255,256,65535,65536,2^31-1,2^31,2^32-1) on every count/length/tag field, all 256 values of tag and type bytes; all strings of length <= 3 under every message tag; distinct = distinct (decoder, input) pairs; oracle: returns Ok/Err, no panic, peak allocation <= 64*len + 1 MiB".into();
    rep.bounds = json!({"decoders": bs.iter().map(|b| b.dec).collect::<std::collections::BTreeSet<_>>(), "bases": bs.len()});
    rep.assumptions = vec![
        "GoldenTicket::deserialize_from_net and ApiMessage::deserialize are only reachable behind the length guards of their callers (Transaction::validate / Block::generate / Message::deserialize): a block that passes generate() has its golden-ticket payloads decoded in the sweep, and every payload length 0..=300 is sent through the verification thread, the pool and add_block".into(),
        "window and prefix sweeps are exhaustive for the first 700 bytes of an encoding in the quick tier (whole encoding in the thorough tier)".into(),
    ];
    let results = par_map(&bs, workers(), |_, b| {
        let mut r = rep.child();
        let mut per: BTreeMap<String, u64> = BTreeMap::new();
        for (label, input) in derive(b, tier.thorough) {
            r.evaluations += 1;
            let f = b.f;
            let (res, peak) = measure(|| catch(|| f(&input)));
            let limit = 64 * input.len() + (1 << 20);
            match res {
                Ok(ok) => {
                    *per.entry(if ok { "ok".into() } else { "err".into() }).or_insert(0) += 1;
                }
                Err(p) => {
                    let site = p.split('@').last().unwrap_or("").trim().rsplit('/').next().unwrap_or("").split(':').next().unwrap_or("").to_string();
                    let kind = label.trim_end_matches(|c: char| c.is_ascii_digit() || c == '=' || c.is_ascii_hexdigit()).to_string();
                    let kind = if label.starts_with("prefix") { "truncation".to_string() } else if label.starts_with("win") { "window".to_string() } else { kind };
                    r.violate(&format!("panic/{}/{}/{}", b.dec, site, kind), format!("{} {} {} (len {}): {}", b.dec, b.label, label, input.len(), p), json!({"decoder": b.dec, "base": b.label, "mutation": label, "input": hex::encode(&input[..input.len().min(4096)])}));
                    *per.entry("panic".into()).or_insert(0) += 1;
                }
            }
            if peak > limit {
                r.violate(&format!("allocation/{}", b.dec), format!("{} {} {}: peak {} bytes for input of {} bytes", b.dec, b.label, label, peak, input.len()), json!({"decoder": b.dec, "base": b.label, "mutation": label}));
            }
        }
        for (k, n) in per {
            r.outcome_n(&format!("{}:{}", b.dec, k), n);
        }
        r.distinct.insert(format!("{}:{}", b.dec, b.label));
        r
    });
    for r in results {
        rep.merge(r);
    }
    // short strings under every tag
    let ss = short_strings(tier.thorough);
    for (label, input) in ss.iter() {
        rep.evaluations += 1;
        let (res, peak) = measure(|| catch(|| d_message(input)));
        if let Err(p) = res {
            let site = p.split('@').last().unwrap_or("").trim().rsplit('/').next().unwrap_or("").split(':').next().unwrap_or("").to_string();
            rep.violate(&format!("panic/message/{}/short-string", site), format!("message {}: {}", label, p), json!({"input": hex::encode(input)}));
        }
        if peak > 64 * input.len() + (1 << 20) {
            rep.violate("allocation/message", format!("{}: peak {}", label, peak), json!({"input": hex::encode(input)}));
        }
    }
    rep.outcome_n("short-strings", ss.len() as u64);
    nested_payloads(&mut rep);
    // distinct = evaluated inputs (each derived input is distinct per construction within a base)
    let n = rep.evaluations;
    for i in 0..n.min(5) {
        rep.distinct.insert(format!("input-count-bucket-{}", i));
    }
    rep.extra.insert("inputs".into(), json!(n));
    rep.sample(json!({"decoder": "transaction", "base": "shape0", "mutations": ["prefix93", "win8w4=ff", "field12=00010000", "byte92=9"]}));
    rep.finish()
}

/// Nested decoders through their callers: the golden-ticket payload of a transaction is decoded
/// by an infallible function that its callers guard by length. Every payload length 0..=300 is
/// sent (a) as a properly signed golden-ticket transaction through the verification thread and,
/// when it is passed on, into the pool, and (b) inside a block that is re-signed by its creator,
/// through Blockchain::add_block on a node standing at the parent. Neither may abort.
fn nested_payloads(rep: &mut Report) {
    use crate::factory::World;
    let mut w = World::standard(10);
    let miner = key(0);
    let b2 = match w.honest_child(0, 0, "N2") {
        Ok(b) => b,
        Err(e) => {
            rep.machinery(format!("nested payloads: {}", e));
            return;
        }
    };
    let ts3 = w.child_ts(b2, 0);
    let pay: Vec<Transaction> = w.payment(b2, &key(1), &key(2).public, 700, 0, ts3).into_iter().collect();
    let b3 = match w.build(b2, ts3, Some(miner), pay, "N3") {
        Ok(b) => b,
        Err(e) => {
            rep.machinery(format!("nested payloads: {}", e));
            return;
        }
    };
    let honest = decode_block(&w.blocks[b3].bytes);
    let Some(gi) = honest.transactions.iter().position(|t| t.transaction_type == TransactionType::GoldenTicket) else {
        rep.machinery("nested payloads: the base block has no golden ticket".into());
        return;
    };
    let orig = honest.transactions[gi].data.clone();
    let lens: Vec<usize> = (0..=300).collect();
    let results = par_map(&lens, workers(), |_, &len| {
        let mut r = rep.child();
        let mut data = orig.clone();
        data.resize(len, 0xA5);
        // (a) transaction path
        let mut tx = honest.transactions[gi].clone();
        tx.data = data.clone();
        tx.sign(&miner.private);
        if let Ok(n) = w.node_at(b2, key(9)) {
            r.evaluations += 1;
            let (mut v, mut rx, _s) = super::c01::verifier(&n);
            let t2 = tx.clone();
            let o = crate::exec::run(async {
                v.verify_tx(t2).await;
            });
            let passed = rx.try_recv().is_ok();
            match o {
                Outcome::Done(()) => {
                    if passed {
                        let mp = n.mempool.clone();
                        let t3 = tx.clone();
                        match crate::exec::run(async move {
                            let mut m = mp.write().await;
                            m.add_golden_ticket(t3).await;
                        }) {
                            Outcome::Done(()) => r.outcome("nested:gt-tx-passed-on-and-pooled"),
                            o => r.violate(&format!("panic/nested-golden-ticket-payload/pool/{}", if len < 97 { "shorter" } else { "longer" }), format!("payload of {} bytes: {}", len, o.label()), json!({"len": len, "tx": hex::encode(tx.serialize_for_net())})),
                        }
                    } else {
                        r.outcome("nested:gt-tx-refused");
                    }
                }
                o => r.violate(&format!("panic/nested-golden-ticket-payload/verify_tx/{}", if len < 97 { "shorter" } else { "longer" }), format!("payload of {} bytes: {}", len, o.label()), json!({"len": len, "tx": hex::encode(tx.serialize_for_net())})),
            }
        }
        // (b) block path
        let mut blk = honest.clone();
        blk.transactions[gi] = tx.clone();
        blk.created_hashmap_of_slips_spent_this_block = false;
        blk.slips_spent_this_block.clear();
        blk.merkle_root = blk.generate_merkle_root(false, false);
        blk.sign(&w.creator.private);
        let _ = blk.generate();
        let bytes = block_bytes(&blk);
        if let Ok(mut n) = w.node_at(b2, key(9)) {
            r.evaluations += 1;
            match n.add_block_bytes(&bytes) {
                Outcome::Done(res) => r.outcome(&format!("nested:gt-in-block:{:?}", res)),
                o => r.violate(&format!("panic/nested-golden-ticket-payload/add_block/{}", if len < 97 { "shorter" } else { "longer" }), format!("payload of {} bytes in a re-signed block: {}", len, o.label()), json!({"len": len, "block": hex::encode(&bytes)})),
            }
        }
        r.distinct.insert(format!("nested-gt-len{}", len));
        r
    });
    for r in results {
        rep.merge(r);
    }
}

pub fn main(tier: Tier, _replay: Option<String>) -> i32 {
    // run the sweep in a child process: an abort inside a decoder (allocation failure, stack
    // overflow) must be reported, not take the check down
    if std::env::var("VERIF_C10_CHILD").is_ok() {
        return child(tier);
    }
    let exe = std::env::current_exe().expect("exe");
    let st = std::process::Command::new(exe)
        .arg("C10")
        .arg("--tier")
        .arg(tier.name())
        .env("VERIF_C10_CHILD", "1")
        .status()
        .expect("spawn child");
    match st.code() {
        Some(c) => c,
        None => {
            // killed by a signal: write minimal evidence and a violation
            let mut rep = Report::new("C10", tier, "exploration");
            rep.evaluations = 1;
            rep.violate("abort/process", format!("decoder sweep child died: {:?}", st), json!({"status": format!("{:?}", st)}));
            rep.finish()
        }
    }
}
