//! C03 — ledger state equals a replay of the longest chain.
//! All block trees with n blocks over a stem × all delivery orders, through the consumer path.

use std::collections::{BTreeMap, BTreeSet};

use saito_core::core::consensus::slip::Slip;
use serde_json::{json, Value};

use crate::exec::Outcome;
use crate::factory::World;
use crate::node::*;
use crate::report::{par_map, workers, Report, Tier};
use crate::seams::key;

/// clause-by-clause consistency oracle; returns list of (clause, detail)
pub fn ledger_consistency(w: &World, n: &LedgerNode) -> Vec<(String, String)> {
    ledger_consistency_obs(w, &n.obs())
}

pub fn ledger_consistency_obs(w: &World, o: &Obs) -> Vec<(String, String)> {
    ledger_consistency_from(w, o, 0)
}

/// like `ledger_consistency_obs`, but heights <= `floor` are don't-care as well (a restarted node
/// can only hold what its disk held)
pub fn ledger_consistency_from(w: &World, o: &Obs, floor: u64) -> Vec<(String, String)> {
    let mut bad = vec![];
    let g = w.cfg.consensus.genesis_period;
    if o.tip_id == 0 && o.tip_hash == [0; 32] {
        if !o.utxo.is_empty() {
            bad.push(("utxo-without-tip".into(), format!("{} keys", o.utxo.len())));
        }
        return bad;
    }
    let Some(t) = w.index_of(&o.tip_hash) else {
        bad.push(("tip-unknown".into(), format!("tip {} not a block the harness delivered", hx(&o.tip_hash))));
        return bad;
    };
    if w.blocks[t].id != o.tip_id {
        bad.push(("tip-id".into(), format!("tip id {} but block has id {}", o.tip_id, w.blocks[t].id)));
    }
    let path = w.path(t);
    let lo = o.tip_id.saturating_sub(2 * g).max(floor); // ids <= lo may be purged: don't-care
    // (i) by-height index
    let idx: BTreeMap<u64, Hash> = o.lc_index.iter().cloned().collect();
    for &bi in path.iter() {
        let b = &w.blocks[bi];
        if b.id <= lo {
            continue;
        }
        match idx.get(&b.id) {
            Some(h) if *h == b.hash => {}
            Some(h) => bad.push((
                "lc-index-wrong".into(),
                format!("height {} index has {} expected ancestor {}", b.id, hx(h), hx(&b.hash)),
            )),
            None => bad.push((
                "lc-index-missing".into(),
                format!("height {} has no longest-chain entry, expected {}", b.id, hx(&b.hash)),
            )),
        }
    }
    for (id, h) in idx.iter() {
        if *id > o.tip_id {
            bad.push((
                "lc-index-above-tip".into(),
                format!("height {} > tip {} indexed as {}", id, o.tip_id, hx(h)),
            ));
        }
    }
    // (ii) per-block flag
    for (h, id, flag, _ty) in o.blocks.iter() {
        if *id <= lo {
            continue;
        }
        let Some(bi) = w.index_of(h) else {
            bad.push(("stored-unknown-block".into(), hx(h)));
            continue;
        };
        let anc = w.is_ancestor_or_self(bi, t);
        if anc != *flag {
            bad.push((
                if *flag { "flag-set-off-chain" } else { "flag-clear-on-chain" }.into(),
                format!("block {} ({}) in_longest_chain={} but ancestor-of-tip={}", w.blocks[bi].label, hx(h), flag, anc),
            ));
        }
    }
    for &bi in path.iter() {
        let b = &w.blocks[bi];
        if b.id > lo && !o.blocks.iter().any(|x| x.0 == b.hash) {
            bad.push(("chain-block-not-stored".into(), format!("{} {}", b.label, hx(&b.hash))));
        }
    }
    // (ii') what the node says about itself must hang together even where it has lost touch with
    // genesis: below the lowest ancestor of the tip that it still stores, nothing is indexed or
    // flagged as being on the longest chain
    {
        let mut lowest_stored = o.tip_id;
        for &bi in path.iter().rev() {
            if o.blocks.iter().any(|x| x.0 == w.blocks[bi].hash) {
                lowest_stored = w.blocks[bi].id;
            } else {
                break;
            }
        }
        for (id, h) in idx.iter() {
            if *id < lowest_stored {
                bad.push(("index-entry-below-the-first-stored-ancestor".into(), format!("height {} is indexed as {} but the tip's stored ancestors end at height {}", id, hx(h), lowest_stored)));
            }
        }
        for (h, id, flag, _ty) in o.blocks.iter() {
            if *flag && *id < lowest_stored {
                bad.push(("flag-set-below-the-first-stored-ancestor".into(), format!("block {} at height {} is flagged as on the longest chain, the tip's stored ancestors end at height {}", hx(h), id, lowest_stored)));
            }
        }
    }
    // (iii) utxo = replay
    let rl = &w.ledgers[t];
    let win_lo = o.tip_id.saturating_sub(g);
    let node_true: BTreeSet<_> = o.utxo.iter().filter(|x| x.1).map(|x| x.0).collect();
    let node_false = o.utxo.iter().filter(|x| !x.1).count();
    if node_false > 0 {
        bad.push(("utxo-false-entries".into(), format!("{}", node_false)));
    }
    for k in node_true.iter() {
        if !rl.utxo.contains(k) {
            let s = Slip::parse_slip_from_utxokey(k).unwrap();
            bad.push((
                if s.block_id >= win_lo { "utxo-extra" } else { "utxo-extra-old" }.into(),
                format!("node has spendable {}-{}-{} amt {} not in replay", s.block_id, s.tx_ordinal, s.slip_index, s.amount),
            ));
        }
    }
    for k in rl.utxo.iter() {
        let s = Slip::parse_slip_from_utxokey(k).unwrap();
        if s.block_id >= win_lo && !node_true.contains(k) {
            bad.push((
                "utxo-missing".into(),
                format!("replay has {}-{}-{} amt {} not spendable on node", s.block_id, s.tx_ordinal, s.slip_index, s.amount),
            ));
        }
    }
    // (iv) tip fields agree
    if o.last_block_id != o.tip_id || o.last_block_hash != o.tip_hash {
        bad.push((
            "last-block-fields".into(),
            format!("last_block {}:{} vs tip {}:{}", o.last_block_id, hx(&o.last_block_hash), o.tip_id, hx(&o.tip_hash)),
        ));
    }
    if o.last_timestamp != w.blocks[t].ts || o.last_burnfee != w.blocks[t].burnfee {
        bad.push(("last-ts-burnfee".into(), format!("ts {} bf {} vs {} {}", o.last_timestamp, o.last_burnfee, w.blocks[t].ts, w.blocks[t].burnfee)));
    }
    bad.truncate(10);
    bad
}

/// all recursive tree shapes: block i (1-based) picks parent in 0..i (0 = stem tip)
pub fn shapes(n: usize) -> Vec<Vec<usize>> {
    let mut out = vec![vec![]];
    for i in 1..=n {
        let mut next = vec![];
        for s in out.iter() {
            for p in 0..i {
                let mut t = s.clone();
                t.push(p);
                next.push(t);
            }
        }
        out = next;
    }
    out
}

pub fn permutations(n: usize) -> Vec<Vec<usize>> {
    let mut out = vec![];
    let mut cur: Vec<usize> = (0..n).collect();
    fn heap(k: usize, a: &mut Vec<usize>, out: &mut Vec<Vec<usize>>) {
        if k <= 1 {
            out.push(a.clone());
            return;
        }
        for i in 0..k {
            heap(k - 1, a, out);
            if k % 2 == 0 {
                a.swap(i, k - 1);
            } else {
                a.swap(0, k - 1);
            }
        }
    }
    heap(n, &mut cur, &mut out);
    out.sort();
    out
}

pub struct TreeWorld {
    pub w: World,
    pub stem: Vec<usize>,
    /// tree block i (0-based) -> world index
    pub tb: Vec<usize>,
    /// optional invalid twin of a leaf: (tree idx, world idx)
    pub invalid: Option<(usize, usize)>,
    pub shape: Vec<usize>,
}

pub fn build_tree(g: u64, stem_len: usize, shape: &[usize], invalid_leaf: Option<usize>) -> Result<TreeWorld, String> {
    let mut w = World::standard(g);
    let mut stem = vec![0usize];
    for i in 1..stem_len {
        let b = w.honest_child(*stem.last().unwrap(), 0, &format!("S{}", i))?;
        stem.push(b);
    }
    let mut tb: Vec<usize> = vec![];
    for (i, &p) in shape.iter().enumerate() {
        let parent = if p == 0 { *stem.last().unwrap() } else { tb[p - 1] };
        // tree blocks spend the payer's newest output: a block of a branch spends what its parent created
        let b = w.honest_child_with(parent, (i + 1) as u64, &format!("T{}", i + 1), true)?;
        tb.push(b);
    }
    let mut invalid = None;
    if let Some(l) = invalid_leaf {
        // replace leaf l by a twin with a wrong burn fee, re-signed by the creator
        let is_leaf = !shape.iter().any(|&p| p == l + 1);
        if !is_leaf {
            return Err("not a leaf".into());
        }
        let mut blk = decode_block(&w.blocks[tb[l]].bytes);
        blk.burnfee += 1;
        blk.sign(&w.creator.private);
        blk.generate().unwrap();
        let parent = w.blocks[tb[l]].parent;
        let idx = w.register(blk, parent, false, format!("T{}x", l + 1));
        invalid = Some((l, idx));
    }
    Ok(TreeWorld { w, stem, tb, invalid, shape: shape.to_vec() })
}

fn run_one(tw: &TreeWorld, order: &[usize], loading_done: bool, redeliver: bool, prune: u64, rep: &mut Report, ctx: &Value, variant: &str, seen: &mut BTreeSet<Hash>) {
    let w = &tw.w;
    let mut cfg = w.cfg.clone();
    cfg.blockchain.initial_loading_completed = loading_done;
    cfg.consensus.prune_after_blocks = prune;
    let mut n = LedgerNode::new(key(0), cfg);
    let mut trace: Vec<String> = vec![];
    let mut orphan_seen = false;
    let mut seq: Vec<usize> = tw.stem.clone();
    for &i in order.iter() {
        let wi = match tw.invalid {
            Some((l, idx)) if l == i => idx,
            _ => tw.tb[i],
        };
        seq.push(wi);
    }
    if redeliver {
        // deliver the first tree block once more at the end and once right after itself
        let first = seq[tw.stem.len()];
        seq.insert(tw.stem.len() + 1, first);
        seq.push(first);
    }
    for wi in seq {
        trace.push(w.blocks[wi].label.clone());
        rep.transitions += 1;
        if let Some(p) = w.blocks[wi].parent {
            let ph = w.blocks[p].hash;
            let known = n.blockchain.try_read().unwrap().blocks.contains_key(&ph);
            if !known {
                orphan_seen = true;
            }
        }
        let mode = match (loading_done, orphan_seen) {
            (true, _) => "live",
            (false, false) => "loading",
            (false, true) => "loading+orphan-delivered",
        };
        let keyp = |clause: &str| format!("{}/{}/{}", mode, variant, clause);
        match n.deliver(&w.blocks[wi].bytes) {
            Outcome::Done(_) => {}
            o => {
                rep.violate(&keyp("handler-abort"), format!("deliver {} -> {}", w.blocks[wi].label, o.label()), json!({"ctx": ctx, "trace": trace}));
                rep.outcome("abort");
                return;
            }
        }
        let d = n.obs().digest();
        seen.insert(d);
        let bad = ledger_consistency(w, &n);
        for (clause, detail) in bad.iter() {
            rep.violate_inst(&keyp(clause), &format!("{}|{}|{}|{:?}", ctx, variant, clause, trace), format!("{} after {:?}", detail, trace), json!({"ctx": ctx, "trace": trace, "clause": clause}));
        }
        if !bad.is_empty() {
            rep.outcome("inconsistent");
            return;
        }
        // (v) differential against a fresh node fed genesis..tip
        let o = n.obs();
        if let Some(t) = w.index_of(&o.tip_hash) {
            if let Ok(f) = w.node_at(t, key(0)) {
                let fo = f.obs();
                let lo = o.tip_id.saturating_sub(w.cfg.consensus.genesis_period);
                let a: Vec<_> = o.utxo.iter().filter(|k| Slip::parse_slip_from_utxokey(&k.0).unwrap().block_id >= lo).collect();
                let b: Vec<_> = fo.utxo.iter().filter(|k| Slip::parse_slip_from_utxokey(&k.0).unwrap().block_id >= lo).collect();
                if a != b || o.reservoirs != fo.reservoirs || o.tip_hash != fo.tip_hash || o.last_block_hash != fo.last_block_hash {
                    rep.violate(&keyp("differential"), format!("state via reorgs differs from direct state after {:?}", trace), json!({"ctx": ctx, "trace": trace}));
                    rep.outcome("inconsistent");
                    return;
                }
            }
        }
    }
    rep.traces_validated += 1;
    let o = n.obs();
    let depth = tw.w.index_of(&o.tip_hash).map(|t| w.blocks[t].id).unwrap_or(0);
    rep.outcome(&format!("final-tip-height-{}", depth));
    if !o.pool_blocks.is_empty() {
        rep.outcome("blocks-left-queued");
    }
}

pub fn main(tier: Tier, replay: Option<String>) -> i32 {
    let mut rep = Report::new("C03", tier.clone(), "model_checking");
    if let Some(p) = replay {
        return replay_case(&p);
    }
    let n = if tier.thorough { 5 } else { 4 };
    let configs: Vec<(u64, usize)> = if tier.thorough {
        vec![(10, 1), (10, 4), (3, 4)]
    } else {
        vec![(10, 1), (3, 4)]
    };
    rep.bounds = json!({"tree_blocks": n, "configs_g_stem": configs, "orders": "all permutations", "variants": ["plain","one invalid leaf","re-delivery"], "initial_loading_completed": [true,false]});
    rep.rule = "every recursive tree shape of n blocks over the stem x every delivery permutation x {plain, one leaf replaced by an invalid twin, re-delivery} x initial_loading_completed in {true,false}; siblings spend the same output; distinct = distinct observable-state digests reached".into();
    rep.assumptions = vec![
        "blocks older than 2*genesis_period may be purged: index/flag clauses ignore ids <= tip-2g".into(),
        "utxo equality is strict inside the retention window (block_id >= tip-g); outside it the node may only hold keys the replay also holds".into(),
        "invalid blocks are leaves (a descendant of an invalid block cannot be produced honestly)".into(),
    ];
    // work list
    let mut jobs: Vec<(u64, usize, Vec<usize>, Option<usize>)> = vec![];
    for (g, stem) in configs.iter() {
        for s in shapes(n) {
            jobs.push((*g, *stem, s.clone(), None));
            // invalid-leaf variants: quick = last leaf only; thorough = every leaf
            let leaves: Vec<usize> = (0..n).filter(|l| !s.iter().any(|&p| p == l + 1)).collect();
            let pick: Vec<usize> = if tier.thorough { leaves } else { leaves.into_iter().rev().take(1).collect() };
            for l in pick {
                jobs.push((*g, *stem, s.clone(), Some(l)));
            }
        }
    }
    // quick: in addition the five-block trees with a two-block branch overtaken by a three-block
    // branch (the smallest reorganisations that unwind two blocks), every delivery order
    if !tier.thorough {
        for (g, stem) in configs.iter() {
            for s in [vec![0usize, 1, 0, 3, 4], vec![0, 0, 1, 2, 4]] {
                jobs.push((*g, *stem, s.clone(), None));
                jobs.push((*g, *stem, s.clone(), Some(4)));
            }
        }
    }
    let perms_n = permutations(n);
    let perms_5 = permutations(5);
    let results = par_map(&jobs, workers(), |_, (g, stem, shape, inv)| {
        let perms = if shape.len() == 5 { &perms_5 } else { &perms_n };
        let mut r = Report::new("C03", tier.clone(), "model_checking");
        let mut seen: BTreeSet<Hash> = BTreeSet::new();
        let tw = match build_tree(*g, *stem, shape, *inv) {
            Ok(t) => t,
            Err(e) => {
                r.machinery(format!("cannot build tree g={} stem={} shape={:?}: {}", g, stem, shape, e));
                return (r, seen);
            }
        };
        let variant = if inv.is_some() { "invalid-leaf" } else { "plain" };
        for order in perms.iter() {
            for loading_done in [true, false] {
                let ctx = json!({"g": g, "stem": stem, "shape": shape, "invalid_leaf": inv, "order": order, "loading_done": loading_done, "redeliver": false});
                r.evaluations += 1;
                run_one(&tw, order, loading_done, false, 8, &mut r, &ctx, variant, &mut seen);
                if r.samples.is_empty() {
                    r.sample(ctx.clone());
                }
                // the same delivery on a node that drops the transactions of every block below the
                // tip from memory (prune_after_blocks = 1): every unwind reloads its block from disk
                let ctx = json!({"g": g, "stem": stem, "shape": shape, "invalid_leaf": inv, "order": order, "loading_done": loading_done, "redeliver": false, "prune_after_blocks": 1});
                r.evaluations += 1;
                run_one(&tw, order, loading_done, false, 1, &mut r, &ctx, variant, &mut seen);
            }
            if inv.is_none() && order[0] < 2 {
                let ctx = json!({"g": g, "stem": stem, "shape": shape, "invalid_leaf": inv, "order": order, "loading_done": true, "redeliver": true});
                r.evaluations += 1;
                run_one(&tw, order, true, true, 8, &mut r, &ctx, "redeliver", &mut seen);
            }
        }
        (r, seen)
    });
    let mut all_seen: BTreeSet<Hash> = BTreeSet::new();
    for (r, s) in results {
        rep.merge(r);
        all_seen.extend(s);
    }
    // detached chains whose blocks do not depend on what is missing: the node's own chain is the
    // first block only; a chain D1..D4 carrying zero-value transactions and golden tickets is
    // delivered without (or before) D1, so that D2..D4 validate on their own and can displace the
    // node's whole chain, block 1 included
    for g in [10u64, 3] {
        let mut r = Report::new("C03", tier.clone(), "model_checking");
        let mut seen: BTreeSet<Hash> = BTreeSet::new();
        let built = (|| -> Result<TreeWorld, String> {
            let mut w = World::standard(g);
            let mut tb = vec![];
            let mut p = 0usize;
            for i in 0..4usize {
                let ts = w.child_ts(p, 0);
                let id = w.blocks[p].id + 1;
                let t = make_tx(&[], &[(key(2).public, 0)], &key(1), ts, format!("detached{}", i).as_bytes());
                let b = w.build(p, ts, if id % 2 == 0 { Some(key(0)) } else { None }, vec![t], &format!("D{}", i + 1))?;
                tb.push(b);
                p = b;
            }
            Ok(TreeWorld { w, stem: vec![0], tb, invalid: None, shape: vec![0, 1, 2, 3] })
        })();
        match built {
            Ok(tw) => {
                for order in [vec![1usize, 2, 3, 0], vec![1, 2, 3], vec![2, 3, 1, 0], vec![3, 2, 1, 0]] {
                    for loading_done in [true, false] {
                        let ctx = json!({"g": g, "stem": 1, "detached_chain": "zero-value transactions", "order": order, "loading_done": loading_done});
                        r.evaluations += 1;
                        run_one(&tw, &order, loading_done, false, 8, &mut r, &ctx, "detached", &mut seen);
                    }
                }
            }
            Err(e) => r.machinery(format!("detached chain g={}: {}", g, e)),
        }
        rep.merge(r);
        all_seen.extend(seen);
    }
    // blocks that mint and then move an NFT (a Bound / Normal / Bound triple): one NFT whose payload
    // carries a deposit and one whose payload is empty, so that the only value-carrying slip of the
    // transfer is a Bound one. Branch N (mint, transfer, two followers) competes with branch M
    // (three blocks): the deliveries adopt N, leave it for M, and come back.
    for g in [10u64] {
        let mut r = Report::new("C03", tier.clone(), "model_checking");
        let mut seen: BTreeSet<Hash> = BTreeSet::new();
        let built = (|| -> Result<TreeWorld, String> {
            use saito_core::core::consensus::slip::{Slip, SlipType};
            use saito_core::core::consensus::transaction::{Transaction, TransactionType};
            use saito_core::core::consensus::wallet::Wallet;
            let mut w = World::standard(g);
            let k1 = key(1);
            let mut tb = vec![];
            let gt = |id: u64| if id % 2 == 0 { Some(key(0)) } else { None };
            // N1: two mints
            let ts = w.child_ts(0, 0);
            let ins: Vec<Slip> = w.ledgers[0].unspent_of(&k1.public).into_iter().filter(|s| s.amount > 20_000).take(2).collect();
            if ins.len() < 2 {
                return Err("payer has fewer than two outputs".into());
            }
            let mut mints = vec![];
            for (i, (input, deposit)) in ins.iter().zip([0u64, 5_000]).enumerate() {
                let mut t = Transaction::default();
                t.transaction_type = TransactionType::Bound;
                t.timestamp = ts + i as u64;
                let mut inp = input.clone();
                inp.generate_utxoset_key();
                t.add_from_slip(inp.clone());
                t.add_to_slip(Slip { public_key: k1.public, amount: 1, slip_type: SlipType::Bound, ..Default::default() });
                t.add_to_slip(Slip { public_key: k1.public, amount: deposit, ..Default::default() });
                t.add_to_slip(Slip { public_key: Wallet::create_nft_uuid(&inp, "art"), amount: 0, slip_type: SlipType::Bound, ..Default::default() });
                t.add_to_slip(Slip { public_key: k1.public, amount: input.amount - deposit, ..Default::default() });
                t.sign(&k1.private);
                mints.push(t);
            }
            let mint_sigs: Vec<_> = mints.iter().map(|t| t.signature).collect();
            let n1 = w.build(0, ts, gt(w.blocks[0].id + 1), mints, "N1")?;
            tb.push(n1);
            // N2: both NFTs move to key 2
            let blk = decode_block(&w.blocks[n1].bytes);
            let ts2 = w.child_ts(n1, 0);
            let mut sends = vec![];
            for sig in mint_sigs.iter() {
                let (ti, mt) = blk.transactions.iter().enumerate().find(|(_, t)| &t.signature == sig).ok_or("mint not in N1")?;
                let mut t = Transaction::default();
                t.transaction_type = TransactionType::Bound;
                t.timestamp = ts2 + ti as u64;
                for j in 0..3usize {
                    let mut sl = mt.to[j].clone();
                    sl.block_id = blk.id;
                    sl.tx_ordinal = ti as u64;
                    sl.slip_index = j as u8;
                    sl.generate_utxoset_key();
                    t.add_from_slip(sl.clone());
                }
                for j in 0..3usize {
                    let mut o = Slip { public_key: mt.to[j].public_key, amount: mt.to[j].amount, slip_type: mt.to[j].slip_type, ..Default::default() };
                    if j == 1 {
                        o.public_key = key(2).public;
                    }
                    t.add_to_slip(o);
                }
                t.sign(&k1.private);
                sends.push(t);
            }
            let n2 = w.build(n1, ts2, gt(w.blocks[n1].id + 1), sends, "N2")?;
            tb.push(n2);
            let filler = |w: &World, p: usize, name: &str| make_tx(&[], &[(key(2).public, 0)], &key(1), w.child_ts(p, 0), name.as_bytes());
            // M1..M3 from the stem
            let mut p = 0usize;
            for i in 0..3 {
                let t = filler(&w, p, &format!("m{}", i));
                let b = w.build(p, w.child_ts(p, 2), gt(w.blocks[p].id + 1), vec![t], &format!("M{}", i + 1))?;
                tb.push(b);
                p = b;
            }
            // N3, N4 on N2
            let mut p = n2;
            for i in 0..2 {
                let t = filler(&w, p, &format!("n{}", i));
                let b = w.build(p, w.child_ts(p, 0), gt(w.blocks[p].id + 1), vec![t], &format!("N{}", i + 3))?;
                tb.push(b);
                p = b;
            }
            Ok(TreeWorld { w, stem: vec![0], tb, invalid: None, shape: vec![0, 1, 0, 3, 4, 2, 6] })
        })();
        match built {
            Ok(tw) => {
                // tree indices: 0 N1, 1 N2, 2 M1, 3 M2, 4 M3, 5 N3, 6 N4
                for order in [vec![0usize, 1, 2, 3, 4, 5, 6], vec![2, 3, 0, 1, 5, 4, 6], vec![0, 2, 1, 3, 4, 5, 6], vec![2, 3, 4, 0, 1, 5, 6]] {
                    for prune in [8u64, 1] {
                        let ctx = json!({"g": g, "stem": 1, "nft_chain": "mint (with and without deposit), transfer", "order": order, "prune_after_blocks": prune});
                        r.evaluations += 1;
                        run_one(&tw, &order, true, false, prune, &mut r, &ctx, "nft", &mut seen);
                    }
                }
            }
            Err(e) => r.machinery(format!("nft chain g={}: {}", g, e)),
        }
        rep.merge(r);
        all_seen.extend(seen);
    }
    // a takeover attempt whose LOWEST block is the invalid one: the node's segment A1..Aa (a = 2, 3)
    // is unwound completely before the first block of the longer branch B fails (its payment spends
    // an output that never existed; B2.. are re-parented onto it), so the whole segment has to be
    // wound back. Every interleaving that delivers A in order, prune 8 and 1.
    {
        let mut r = Report::new("C03", tier.clone(), "model_checking");
        let mut seen: BTreeSet<Hash> = BTreeSet::new();
        for (a, b) in [(2usize, 3usize), (3, 4)] {
            let spec = super::c05::Spec { stem_gt: vec![true], a, b, gt_a: (0..a).map(|i| i % 2 == 1).collect(), gt_b: (0..b).map(|i| i % 2 == 1).collect(), slow_a: false, slow_b: false, sp_a: None, sp_b: None, g: 12, loading: false, invalid_last_b: false, invalid_first_b: true, pruned: false };
            match super::c05::build(&spec) {
                Ok(fk) => {
                    let mut tb = fk.aa.clone();
                    tb.extend(fk.bb.iter().cloned());
                    let tw = TreeWorld { w: fk.w, stem: fk.stem, tb, invalid: None, shape: vec![] };
                    // orders: all of A first; B's first blocks stored early; B1x last of all
                    let ai: Vec<usize> = (0..a).collect();
                    let bi: Vec<usize> = (a..a + b).collect();
                    let mut orders: Vec<Vec<usize>> = vec![];
                    orders.push(ai.iter().chain(bi.iter()).cloned().collect());
                    orders.push(bi[..b - 1].iter().chain(ai.iter()).chain(bi[b - 1..].iter()).cloned().collect());
                    orders.push(ai[..1].iter().chain(bi[..1].iter()).chain(ai[1..].iter()).chain(bi[1..].iter()).cloned().collect());
                    for order in orders {
                        for prune in [8u64, 1] {
                            let ctx = json!({"g": 12, "segment": a, "candidate": b, "candidate_first_block": "invalid when wound", "order": order, "prune_after_blocks": prune});
                            r.evaluations += 1;
                            run_one(&tw, &order, true, false, prune, &mut r, &ctx, "takeover-fails-at-its-lowest-block", &mut seen);
                        }
                    }
                }
                Err(e) => r.machinery(format!("takeover family a={} b={}: {}", a, b, e)),
            }
        }
        rep.merge(r);
        all_seen.extend(seen);
    }
    rep.states = all_seen.len() as u64;
    for d in all_seen.iter().take(0) {
        let _ = d;
    }
    rep.distinct = all_seen.iter().map(|h| hex::encode(&h[0..8])).collect();
    rep.required_outcomes = vec![format!("final-tip-height-{}", 1 + n), "final-tip-height-2".into()];
    if configs.iter().any(|c| c.1 == 1) {
        // nothing: heights counted from genesis
    }
    rep.required_outcomes.clear();
    // determinism self-test
    let a = selftest_digest();
    let b = selftest_digest();
    if a != b {
        rep.machinery("determinism self-test failed: two replays of one history differ".into());
    }
    rep.finish()
}

fn selftest_digest() -> Vec<Hash> {
    let tw = build_tree(3, 4, &[0, 1, 0, 3], None).unwrap();
    let mut n = LedgerNode::new(key(0), tw.w.cfg.clone());
    let mut v = vec![];
    for &i in tw.stem.iter().chain(tw.tb.iter()) {
        n.deliver(&tw.w.blocks[i].bytes);
        v.push(n.obs().digest());
    }
    v
}

pub fn selftest() -> i32 {
    let tw = build_tree(3, 4, &[0, 1, 0, 3], None).unwrap();
    for b in tw.w.blocks.iter() {
        println!("{} id={} hash={} parent={:?} gt={} bf={}", b.label, b.id, hx(&b.hash), b.parent, b.has_gt, b.burnfee);
    }
    let a = selftest_digest();
    let b = selftest_digest();
    println!("digests equal: {}", a == b);
    for d in a {
        println!("  {}", hx(&d));
    }
    0
}

fn replay_case(path: &str) -> i32 {
    let s = std::fs::read_to_string(path).expect("replay file");
    let v: Value = serde_json::from_str(&s).expect("json");
    let ctx = &v["case"]["ctx"];
    let g = ctx["g"].as_u64().unwrap();
    let stem = ctx["stem"].as_u64().unwrap() as usize;
    let shape: Vec<usize> = ctx["shape"].as_array().unwrap().iter().map(|x| x.as_u64().unwrap() as usize).collect();
    let inv = ctx["invalid_leaf"].as_u64().map(|x| x as usize);
    let order: Vec<usize> = ctx["order"].as_array().unwrap().iter().map(|x| x.as_u64().unwrap() as usize).collect();
    let loading = ctx["loading_done"].as_bool().unwrap_or(true);
    let redeliver = ctx["redeliver"].as_bool().unwrap_or(false);
    let tw = build_tree(g, stem, &shape, inv).expect("tree");
    let mut outs = vec![];
    for _ in 0..2 {
        let mut r = Report::new("C03", Tier { thorough: false, seed: 0 }, "model_checking");
        let mut seen = BTreeSet::new();
        let prune = ctx["prune_after_blocks"].as_u64().unwrap_or(8);
        run_one(&tw, &order, loading, redeliver, prune, &mut r, ctx, "replay", &mut seen);
        outs.push(r.violations.iter().map(|v| format!("{} :: {}", v.key, v.detail)).collect::<Vec<_>>());
    }
    if outs[0] != outs[1] {
        eprintln!("MACHINERY-ERROR: replay not deterministic");
        return 2;
    }
    for l in outs[0].iter() {
        println!("replayed violation: {}", l);
    }
    if outs[0].is_empty() {
        println!("replay: no violation");
        0
    } else {
        println!("VIOLATION property=C03 replay={}", path);
        1
    }
}
