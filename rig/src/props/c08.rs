//! C08 — routing work gates block production; payouts go only to eligible parties.
//! (1) exhaustive grid over the work function, (2) boundary gating with path variants on real
//! blocks, (3) payout eligibility over lottery outcomes.

use std::collections::BTreeSet;

use saito_core::core::consensus::burnfee::BurnFee;
use saito_core::core::consensus::hop::Hop;
use saito_core::core::consensus::transaction::{Transaction, TransactionType};
use saito_core::core::defs::SaitoPublicKey;
use saito_core::core::util::crypto::verify;
use serde_json::json;

use crate::exec::Outcome;
use crate::factory::{World, HEARTBEAT};
use crate::node::*;
use crate::report::{par_map, workers, Report, Tier};
use crate::seams::{key, Cfg};

fn work(bf: u64, elapsed: u64, hb: u64) -> u64 {
    BurnFee::return_routing_work_needed_to_produce_block_in_nolan(bf, 1_000_000 + elapsed, 1_000_000, hb)
}

fn grid(rep: &mut Report) {
    let mut bfs: Vec<u64> = vec![0, 1, 2, 9, 10, 99, 100];
    let mut p = 1000u64;
    while p < u64::MAX / 10 {
        bfs.push(p);
        bfs.push(p - 1);
        p *= 10;
    }
    for s in [53u32, 63] {
        bfs.push((1u64 << s) - 1);
        bfs.push(1u64 << s);
        bfs.push((1u64 << s) + 1);
    }
    bfs.push(u64::MAX - 1);
    bfs.push(u64::MAX);
    bfs.push(50_000_000);
    bfs.push(10_000_000_000_000_000_000);
    let results = par_map(&bfs, workers(), |_, bf| {
        let mut r = rep.child();
        for hb in [1u64, 2, 100, 5000] {
            let mut prev = u64::MAX;
            for e in 1..=(2 * hb + 2) {
                r.evaluations += 1;
                let w = work(*bf, e, hb);
                if w > prev {
                    r.violate("work-increases-with-time", format!("burnfee {} hb {}: work({})={} > work({})={}", bf, hb, e, w, e - 1, prev), json!({"burnfee": bf, "hb": hb, "elapsed": e}));
                }
                // reference (the rule as the function documents it): before two heartbeats the
                // requirement is the parent's burn fee divided by the elapsed milliseconds, in
                // nolan; integer arithmetic, tolerance one nolan plus the 53-bit mantissa
                if e < 2 * hb {
                    let reference = ((*bf as u128) + (e as u128) / 2) / (e as u128);
                    let tol = 1 + (reference >> 50);
                    if (w as u128).abs_diff(reference) > tol {
                        r.violate("work-requirement-differs-from-burnfee-over-elapsed", format!("burnfee {} hb {} elapsed {}: {} but burnfee/elapsed = {}", bf, hb, e, w, reference), json!({"burnfee": bf, "hb": hb, "elapsed": e}));
                    }
                }
                if e >= 2 * hb && w != 0 {
                    r.violate("work-not-zero-after-two-heartbeats", format!("burnfee {} hb {} elapsed {}: {}", bf, hb, e, w), json!({"burnfee": bf, "hb": hb, "elapsed": e}));
                }
                prev = w;
            }
            // misordered timestamps demand the sentinel
            for (cur, prv) in [(1000u64, 1000u64), (999, 1000), (0, 1)] {
                r.evaluations += 1;
                let w = BurnFee::return_routing_work_needed_to_produce_block_in_nolan(*bf, cur, prv, hb);
                if w < 1_000_000_000_000_000_000 {
                    r.violate("misordered-timestamps-not-refused", format!("burnfee {} cur {} prev {}: work {}", bf, cur, prv, w), json!({"burnfee": bf}));
                }
            }
        }
        r.outcome("grid-burnfee-value");
        r
    });
    for r in results {
        rep.merge(r);
    }
}

#[derive(Clone, Copy, Debug, PartialEq)]
enum PathKind {
    OneHop,
    TwoHop,
    Broken,
    NotToCreator,
    ForgedSig,
    SelfHop,
    NoPath,
    /// payer -> creator -> someone else: the creator is on the path but not its end
    PassThrough,
}
const PATHS: [PathKind; 8] = [PathKind::OneHop, PathKind::TwoHop, PathKind::NoPath, PathKind::NotToCreator, PathKind::Broken, PathKind::ForgedSig, PathKind::SelfHop, PathKind::PassThrough];

/// independent oracle: (transaction valid as far as the path goes, work for `creator`)
fn oracle_work(tx: &Transaction, fee: u64, creator: &SaitoPublicKey) -> (bool, u64) {
    if tx.path.is_empty() {
        return (true, 0);
    }
    for (i, h) in tx.path.iter().enumerate() {
        let msg: Vec<u8> = [tx.signature.as_slice(), h.to.as_slice()].concat();
        if !verify(&msg, &h.sig, &h.from) || h.from == h.to {
            return (false, 0);
        }
        if i > 0 && h.from != tx.path[i - 1].to {
            return (false, 0);
        }
    }
    if &tx.path.last().unwrap().to != creator {
        return (true, 0);
    }
    let mut w = fee;
    for _ in 1..tx.path.len() {
        w -= w / 2;
    }
    (true, w)
}

fn routed_tx(w: &World, parent: usize, fee: u64, kind: PathKind, ts: u64, salt: u64) -> Option<Transaction> {
    let k1 = key(1);
    let slip = w.ledgers[parent].unspent_of(&k1.public).into_iter().find(|s| s.amount > fee + 1000)?;
    let mut tx = make_tx(&[slip.clone()], &[(key(2).public, 500 + salt), (k1.public, slip.amount - 500 - salt - fee)], &k1, ts, b"r");
    let c = w.creator.public;
    match kind {
        PathKind::NoPath => {}
        PathKind::OneHop => add_hops(&mut tx, &[k1], &c),
        PathKind::TwoHop => add_hops(&mut tx, &[k1, key(4)], &c),
        PathKind::NotToCreator => add_hops(&mut tx, &[k1], &key(5).public),
        PathKind::PassThrough => add_hops(&mut tx, &[k1, w.creator.clone()], &key(5).public),
        PathKind::Broken => {
            // second hop does not start where the first ended
            let h1 = Hop::generate(&k1.private, &k1.public, &key(4).public, &tx);
            let h2 = Hop::generate(&key(5).private, &key(5).public, &c, &tx);
            tx.path.push(h1);
            tx.path.push(h2);
        }
        PathKind::ForgedSig => {
            add_hops(&mut tx, &[k1], &c);
            tx.path[0].sig[7] ^= 1;
        }
        PathKind::SelfHop => {
            let mut h = Hop::generate(&w.creator.private, &c, &key(4).public, &tx);
            h.to = c;
            h.sig = saito_core::core::util::crypto::sign(&[tx.signature.as_slice(), c.as_slice()].concat(), &w.creator.private);
            tx.path.push(h);
        }
    }
    Some(tx)
}

fn gating(rep: &mut Report, tier: &Tier) {
    // base chain: genesis + 2 honest blocks; the candidate extends the tip at a chosen elapsed time
    let mut w = World::new(Cfg::new(10, HEARTBEAT));
    let k = |i: u8| key(i).public;
    w.genesis(&(0..12).map(|i| (k(1), 2_000_000_000 + i as u64)).chain([(k(2), 5_000_000), (k(0), 7_000_000)]).collect::<Vec<_>>(), 1_000_000);
    let a = w.honest_child(0, 0, "B2").expect("b2");
    let tip = w.honest_child(a, 0, "B3").expect("b3");
    let hb = HEARTBEAT;
    let pbf = w.blocks[tip].burnfee;
    let elapsed_set: Vec<u64> = if tier.thorough { vec![1, 2, hb / 2, hb - 1, hb, hb + 1, 2 * hb - 1, 2 * hb] } else { vec![1, hb / 2, hb, 2 * hb - 1, 2 * hb] };
    let mut cases = vec![];
    for e in elapsed_set {
        for kind in PATHS {
            for delta in [-2i64, -1, 0, 1, 2] {
                cases.push((e, kind, delta));
            }
        }
    }
    let results = par_map(&cases, workers(), |i, (e, kind, delta)| {
        let mut r = rep.child();
        r.evaluations += 1;
        let ts = w.blocks[tip].ts + e;
        let needed = work(pbf, *e, hb);
        // fee chosen so that the work a valid path of this kind delivers is needed+delta
        let target = (needed as i64 + delta).max(0) as u64;
        let fee = match kind {
            PathKind::TwoHop | PathKind::PassThrough => target.saturating_mul(2).saturating_sub(if target > 0 { 1 } else { 0 }).max(target),
            _ => target,
        };
        let Some(tx) = routed_tx(&w, tip, fee, *kind, ts, i as u64) else {
            r.outcome("case-unbuildable");
            return r;
        };
        let (tx_ok, ow) = oracle_work(&tx, fee, &w.creator.public);
        let gt = if (w.blocks[tip].id + 1) % 2 == 0 { Some(key(0)) } else { None };
        let blk = match w.produce(tip, ts, gt, vec![tx.clone()]) {
            Ok(b) => b,
            Err(e) => {
                r.outcome("producer-refused");
                let _ = e;
                return r;
            }
        };
        let bytes = block_bytes(&blk);
        // the same block is offered to a node that holds the chain from genesis and to one that
        // joined at the tip (its first block is B3: it cannot check inputs, the work rule stands)
        for joined_mid_chain in [false, true] {
        let mode = if joined_mid_chain { "/node-joined-at-the-parent" } else { "" };
        let mut n = if joined_mid_chain {
            let mut n = LedgerNode::new(key(9), w.cfg.clone());
            match n.add_block_bytes(&w.blocks[tip].bytes) {
                Outcome::Done(AddRes::AddedLongest) => n,
                o => {
                    r.machinery(format!("a fresh node does not take B3 as its first block: {:?}", o));
                    return r;
                }
            }
        } else {
            match w.node_at(tip, key(9)) {
                Ok(n) => n,
                Err(e) => {
                    r.machinery(e);
                    return r;
                }
            }
        };
        let res = n.add_block_bytes(&bytes);
        let accepted = matches!(res, Outcome::Done(AddRes::AddedLongest));
        let ctx = json!({"joined_mid_chain": joined_mid_chain, "elapsed": e, "path": format!("{:?}", kind), "needed": needed, "oracle_work": ow, "fee": fee, "tx_valid": tx_ok, "result": format!("{:?}", res)});
        if let Outcome::Panicked(m) = &res {
            r.violate(&format!("abort/{:?}{}", kind, mode), m.clone(), ctx.clone());
            return r;
        }
        r.distinct.insert(format!("{}:{:?}:{}{}", e, kind, delta, mode));
        let expect_accept = tx_ok && ow >= needed;
        // +-1 nolan around the float rounding of the requirement is a don't-care
        let band = (ow as i128 - needed as i128).abs() <= 1 && needed > 0;
        if accepted && !tx_ok {
            r.violate(&format!("block-with-invalid-path-accepted/{:?}{}", kind, mode), format!("{}", ctx), ctx.clone());
        } else if accepted != expect_accept && !band {
            r.violate(&format!("{}/{:?}{}", if accepted { "accepted-without-enough-work" } else { "refused-despite-enough-work" }, kind, mode), format!("{}", ctx), ctx.clone());
        }
        r.outcome(&format!("{}:{}{}", if accepted { "accepted" } else { "rejected" }, if needed == 0 { "no-work-needed" } else if ow >= needed { "enough" } else { "short" }, mode));
        if i == 3 && !joined_mid_chain {
            r.sample(ctx);
        }
        r.traces_validated += 1;
        }
        r
    });
    for r in results {
        rep.merge(r);
    }
    // the same question with the work carried by the block's golden-ticket transaction (a
    // non-Normal transaction that has inputs, pays the fee and was routed): its path counts under
    // the same conditions as a payment's
    let mut cases2 = vec![];
    for e in [1u64, hb / 2, hb] {
        for kind in PATHS {
            for delta in [-1i64, 1] {
                cases2.push((e, kind, delta));
            }
        }
    }
    let results = par_map(&cases2, workers(), |i, (e, kind, delta)| {
        let mut r = rep.child();
        r.evaluations += 1;
        let ts = w.blocks[tip].ts + e;
        let needed = work(pbf, *e, hb);
        let target = (needed as i64 + delta).max(0) as u64;
        let fee = match kind {
            PathKind::TwoHop | PathKind::PassThrough => target.saturating_mul(2).saturating_sub(if target > 0 { 1 } else { 0 }).max(target),
            _ => target,
        };
        // a payment with the wanted path, retyped into the golden ticket of this block
        let Some(pay) = routed_tx(&w, tip, fee, PathKind::NoPath, ts, 900 + i as u64) else {
            r.outcome("case-unbuildable");
            return r;
        };
        let k1 = key(1);
        let Ok(node) = w.builder_at(tip) else {
            r.machinery("no builder".into());
            return r;
        };
        let difficulty = node.blockchain.try_read().unwrap().get_block(&w.blocks[tip].hash).map(|b| b.difficulty).unwrap_or(0);
        let mut gt = golden_ticket_tx(w.blocks[tip].hash, difficulty, &k1, 0);
        gt.from = pay.from.clone();
        gt.to = pay.to.clone();
        gt.timestamp = ts;
        gt.sign(&k1.private);
        let c = w.creator.public;
        match kind {
            PathKind::NoPath => {}
            PathKind::OneHop => add_hops(&mut gt, &[k1], &c),
            PathKind::TwoHop => add_hops(&mut gt, &[k1, key(4)], &c),
            PathKind::NotToCreator => add_hops(&mut gt, &[k1], &key(5).public),
            PathKind::PassThrough => add_hops(&mut gt, &[k1, w.creator.clone()], &key(5).public),
            PathKind::Broken => {
                let h1 = Hop::generate(&k1.private, &k1.public, &key(4).public, &gt);
                let h2 = Hop::generate(&key(5).private, &key(5).public, &c, &gt);
                gt.path.push(h1);
                gt.path.push(h2);
            }
            PathKind::ForgedSig => {
                add_hops(&mut gt, &[k1], &c);
                gt.path[0].sig[7] ^= 1;
            }
            PathKind::SelfHop => {
                let mut h = Hop::generate(&w.creator.private, &c, &key(4).public, &gt);
                h.to = c;
                h.sig = saito_core::core::util::crypto::sign(&[gt.signature.as_slice(), c.as_slice()].concat(), &w.creator.private);
                gt.path.push(h);
            }
        }
        let (tx_ok, ow) = oracle_work(&gt, fee, &w.creator.public);
        gt.generate(&w.creator.public, 0, 0);
        let bc = node.blockchain.clone();
        let cfg = node.cfg.clone();
        let storage = &node.storage;
        let creator = w.creator;
        let phash = w.blocks[tip].hash;
        let filler = {
            let mut t = make_tx(&[], &[(key(5).public, 0)], &key(5), ts, b"f");
            t.generate(&creator.public, 0, 0);
            t
        };
        let gt2 = gt.clone();
        let made = crate::exec::run(async {
            let bc = bc.read().await;
            let mut map = txmap(vec![filler]);
            saito_core::core::consensus::block::Block::create(&mut map, phash, &bc, ts, &creator.public, &creator.private, Some(gt2), &cfg, storage).await
        });
        let blk = match made {
            Outcome::Done(Ok(b)) => b,
            _ => {
                r.outcome("producer-refused");
                return r;
            }
        };
        let bytes = block_bytes(&blk);
        let Ok(mut n) = w.node_at(tip, key(9)) else {
            r.machinery("no node".into());
            return r;
        };
        let res = n.add_block_bytes(&bytes);
        let accepted = matches!(res, Outcome::Done(AddRes::AddedLongest));
        let ctx = json!({"carrier": "golden ticket transaction", "elapsed": e, "path": format!("{:?}", kind), "needed": needed, "oracle_work": ow, "fee": fee, "tx_valid": tx_ok, "result": format!("{:?}", res)});
        if let Outcome::Panicked(m) = &res {
            r.violate(&format!("abort/{:?}/golden-ticket-carrier", kind), m.clone(), ctx.clone());
            return r;
        }
        r.distinct.insert(format!("gt:{}:{:?}:{}", e, kind, delta));
        let band = (ow as i128 - needed as i128).abs() <= 1 && needed > 0;
        if accepted && !tx_ok {
            r.violate(&format!("block-with-invalid-path-accepted/{:?}/golden-ticket-carrier", kind), format!("{}", ctx), ctx.clone());
        } else if accepted && ow < needed && !band {
            r.violate(&format!("accepted-without-enough-work/{:?}/golden-ticket-carrier", kind), format!("{}", ctx), ctx.clone());
        }
        r.outcome(&format!("{}:{}/golden-ticket-carrier", if accepted { "accepted" } else { "rejected" }, if ow >= needed { "enough" } else { "short" }));
        r.traces_validated += 1;
        r
    });
    for r in results {
        rep.merge(r);
    }
}

fn eligible_keys(blk: &saito_core::core::consensus::block::Block) -> BTreeSet<SaitoPublicKey> {
    let mut s = BTreeSet::new();
    for t in blk.transactions.iter() {
        let inner;
        let t = if t.transaction_type == TransactionType::ATR {
            match Transaction::deserialize_from_net(&t.data) {
                Ok(x) => {
                    inner = x;
                    &inner
                }
                Err(_) => t,
            }
        } else {
            t
        };
        if let Some(f) = t.from.first() {
            s.insert(f.public_key);
        }
        for h in t.path.iter() {
            s.insert(h.from);
            s.insert(h.to);
        }
    }
    s
}

fn payouts(rep: &mut Report, tier: &Tier) {
    // chains: F (fees, routed) [-> N (no golden ticket, more fees)] -> P (golden ticket, pays)
    let nonces: u64 = if tier.thorough { 64 } else { 24 };
    let variants: Vec<(bool, u64)> = (0..nonces).flat_map(|n| [(false, n), (true, n)]).collect();
    let results = par_map(&variants, workers(), |_, (two_back, nonce)| {
        let mut r = rep.child();
        r.evaluations += 1;
        let mut w = World::new(Cfg::new(10, HEARTBEAT));
        let k = |i: u8| key(i).public;
        w.genesis(&(0..8).map(|i| (k(1), 2_000_000_000 + i as u64)).chain((0..4).map(|i| (k(2), 900_000_000 + i as u64))).chain([(k(0), 7_000_000)]).collect::<Vec<_>>(), 1_000_000);
        let mut tip = w.honest_child(0, 0, "B2").expect("b2");
        let mut paid: Vec<usize> = vec![];
        let mk = |w: &World, tip: usize, salt: u64| -> Vec<Transaction> {
            let ts = w.child_ts(tip, salt);
            let mut v = vec![];
            if let Some(t) = routed_tx(w, tip, 300_000 + salt, PathKind::TwoHop, ts, salt) {
                v.push(t);
            }
            let k2 = key(2);
            if let Some(s) = w.ledgers[tip].unspent_of(&k2.public).into_iter().find(|s| s.amount > 1_000_000) {
                let mut t = make_tx(&[s.clone()], &[(key(1).public, 77), (k2.public, s.amount - 77 - 200_000 - salt)], &k2, ts, b"q");
                add_hops(&mut t, &[k2], &w.creator.public);
                v.push(t);
            }
            // a fee-paying transaction without routing path whose first output belongs to a key
            // that appears nowhere else (not its sender, not a router): if it wins the lottery its
            // sender is paid, nobody else
            if let Some(s) = w.ledgers[tip].unspent_of(&k2.public).into_iter().filter(|s| s.amount > 1_000_000).nth(1) {
                v.push(make_tx(&[s.clone()], &[(key(8).public, 55), (k2.public, s.amount - 55 - 250_000 - salt)], &k2, ts + 1, b"unrouted"));
            }
            v
        };
        // F: fees, no golden ticket (id 3)
        let txs = mk(&w, tip, 1);
        let ts = w.child_ts(tip, 1);
        tip = match w.build(tip, ts, None, txs, "F") {
            Ok(b) => b,
            Err(e) => {
                r.machinery(e);
                return r;
            }
        };
        paid.push(tip);
        if *two_back {
            // another ticket-less block would break density later; give this one fees too
            let txs = mk(&w, tip, 2);
            let ts = w.child_ts(tip, 2);
            tip = match w.build(tip, ts, None, txs, "N") {
                Ok(b) => b,
                Err(e) => {
                    r.machinery(e);
                    return r;
                }
            };
            paid.push(tip);
        }
        // P: golden ticket with the chosen solution
        let ts = w.child_ts(tip, 3);
        let miner = key(6);
        let node = match w.builder_at(tip) {
            Ok(n) => n,
            Err(e) => {
                r.machinery(e);
                return r;
            }
        };
        let phash = w.blocks[tip].hash;
        let mut gt = golden_ticket_tx(phash, 0, &miner, *nonce);
        gt.generate(&w.creator.public, 0, 0);
        // produce with an explicit golden ticket transaction
        let bc = node.blockchain.clone();
        let cfg = node.cfg.clone();
        let storage = &node.storage;
        let creator = w.creator;
        let filler = {
            let mut t = make_tx(&[], &[(key(5).public, 0)], &key(5), ts, b"f");
            t.generate(&creator.public, 0, 0);
            t
        };
        let pb = crate::exec::run(async {
            let bc = bc.read().await;
            let mut map = txmap(vec![filler]);
            saito_core::core::consensus::block::Block::create(&mut map, phash, &bc, ts, &creator.public, &creator.private, Some(gt), &cfg, storage).await
        });
        let pblk = match pb {
            Outcome::Done(Ok(b)) => b,
            o => {
                r.machinery(format!("payout block: {}", o.label()));
                return r;
            }
        };
        let bytes = block_bytes(&pblk);
        let mut n = w.node_at(tip, key(9)).expect("node");
        let res = n.add_block_bytes(&bytes);
        if !matches!(res, Outcome::Done(AddRes::AddedLongest)) {
            r.violate("payout-block-refused", format!("{:?}", res), json!({"two_back": two_back, "nonce": nonce}));
            return r;
        }
        let blk = decode_block(&bytes);
        let Some(fee_tx) = blk.transactions.iter().find(|t| t.transaction_type == TransactionType::Fee) else {
            r.outcome("no-fee-transaction");
            return r;
        };
        // eligible: the ticket's solver, and originators/routers of the blocks being paid
        let mut eligible: BTreeSet<SaitoPublicKey> = BTreeSet::new();
        eligible.insert(miner.public);
        let mut fees: u128 = 0;
        // blocks being paid: the parent, and the grandparent when the parent had no golden ticket
        let parent = decode_block(&w.blocks[tip].bytes);
        eligible.extend(eligible_keys(&parent));
        fees += parent.total_fees as u128;
        if !parent.has_golden_ticket {
            if let Some(gp) = w.blocks[tip].parent {
                let g = decode_block(&w.blocks[gp].bytes);
                eligible.extend(eligible_keys(&g));
                fees += g.total_fees as u128;
            }
        }
        let mut total: u128 = 0;
        for o in fee_tx.to.iter() {
            total += o.amount as u128;
            r.outcome(&format!("payout-to:{}:{:?}", crate::seams::key_name(&o.public_key), o.slip_type));
            r.distinct.insert(format!("{}:{:?}:{}", crate::seams::key_name(&o.public_key), o.slip_type, two_back));
            if o.amount > 0 && !eligible.contains(&o.public_key) {
                r.violate("payout-to-ineligible-key", format!("{} receives {} ({:?})", crate::seams::key_name(&o.public_key), o.amount, o.slip_type), json!({"two_back": two_back, "nonce": nonce}));
            }
        }
        if total > fees {
            r.violate("payout-exceeds-collected-fees", format!("paid {} collected {}", total, fees), json!({"two_back": two_back, "nonce": nonce}));
        }
        r.traces_validated += 1;
        r
    });
    for r in results {
        rep.merge(r);
    }
}

pub fn main(tier: Tier, _replay: Option<String>) -> i32 {
    let mut rep = Report::new("C08", tier.clone(), "model_checking");
    rep.rule = "(1) every elapsed time 1..2hb+2 for 4 heartbeats x ~50 boundary burn fees; (2) real blocks whose creator-directed work is needed-2..needed+2 at boundary elapsed times x 7 path variants, accept iff the independent oracle counts enough work over valid paths; (3) payout blocks over 24/64 golden-ticket solutions x {pays one block, pays two blocks}: every output goes to the solver or to an originator/router of a paid block and the sum stays within the collected fees; distinct = gating cases + distinct payout recipients".into();
    rep.bounds = json!({"grid": "burnfee in ~50 boundary values x hb in {1,2,100,5000} x every elapsed 1..2hb+2", "gating": "elapsed in {1,hb/2,hb,2hb-1,2hb} x 7 path kinds x delta in -2..2", "payout_solutions": if tier.thorough {64} else {24}});
    rep.assumptions = vec!["a difference of at most 1 nolan between oracle work and the float-rounded requirement is a don't-care".into(), "lottery outcomes are covered per distinct reachable winner, not per hash value".into()];
    grid(&mut rep);
    gating(&mut rep, &tier);
    payouts(&mut rep, &tier);
    rep.states = rep.distinct.len() as u64;
    rep.transitions = rep.evaluations;
    rep.required_outcomes = vec!["accepted:enough".into(), "rejected:short".into(), "accepted:no-work-needed".into()];
    rep.finish()
}
