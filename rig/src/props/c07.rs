//! C07 — every block the node produces is one every node accepts (and C02's conservation
//! monitor rides on the same histories).  Rounds of {submit variant, golden ticket yes/no,
//! elapsed time, bundle}; exhaustive for the first rounds, deviation-bounded beyond.

use std::collections::BTreeSet;

use serde_json::json;

use crate::exec::Outcome;
use crate::node::*;
use crate::prod::*;
use crate::report::{par_map, workers, Report, Tier};

pub fn alphabet() -> Vec<Round> {
    let txs = vec![
        TxKind::Pay { payer: 1, fee: 0, route: 0 },
        TxKind::Pay { payer: 1, fee: 2_000, route: 0 },
        TxKind::Pay { payer: 1, fee: 400_000, route: 1 },
        TxKind::Pay { payer: 2, fee: 400_000, route: 2 },
        TxKind::Pay { payer: 2, fee: 2_000, route: 3 },
        TxKind::None,
    ];
    let mut v = vec![];
    for dt in [4u64, 6, 2, 1] {
        for gt in [true, false] {
            for tx in txs.iter() {
                v.push(Round { tx: tx.clone(), gt, dt_half_hb: dt });
            }
        }
    }
    v
}

pub fn default_round(i: usize) -> Round {
    Round { tx: TxKind::Pay { payer: if i % 2 == 0 { 1 } else { 2 }, fee: 2_000, route: 0 }, gt: i % 2 == 1, dt_half_hb: 4 }
}

#[derive(Clone, Debug)]
pub struct Script {
    pub rich: bool,
    pub g: u64,
    pub staking: u64,
    pub rounds: Vec<Round>,
}

pub struct RunResult {
    pub produced: u64,
}

/// runs one script; `check_supply` adds the C02 monitor; violations go to `rep` under `prop`
pub fn run_script(s: &Script, rep: &mut Report, seen: &mut BTreeSet<Hash>, c07: bool, c02: bool) -> RunResult {
    let hb = 5_000u64;
    let mut p = match Prod::new_world(s.g, hb, s.staking, s.rich) {
        Ok(p) => p,
        Err(e) => {
            rep.machinery(format!("producer world: {}", e));
            return RunResult { produced: 0 };
        }
    };
    let ctx = json!({"rich_treasury": s.rich, "g": s.g, "staking": s.staking, "rounds": s.rounds.iter().map(|r| format!("{:?}", r)).collect::<Vec<_>>()});
    let mut produced = 0u64;
    let cls = |r: &Round| format!("{}{}", match &r.tx { TxKind::None => "none".to_string(), TxKind::PeerConflict(f) => format!("peerconflict{}", f), TxKind::PeerBlock(k) => format!("peerblock{}", k), TxKind::PeerBlockPending(k) => format!("peerblockpending{}", k), TxKind::Pay { fee, route, .. } => format!("fee{}route{}", fee, route) }, if r.gt { "+gt" } else { "" });
    for (ri, r) in s.rounds.iter().enumerate() {
        if let TxKind::PeerConflict(pfee) = r.tx.clone() {
            let ts0 = p.tip_ts + 2 * hb;
            let t1 = p.make_tx(&TxKind::Pay { payer: 1, fee: pfee, route: 1 }, ts0);
            let t2 = p.make_tx(&TxKind::Pay { payer: 2, fee: pfee, route: 1 }, ts0);
            if t1.is_none() || t2.is_none() {
                rep.outcome("peer-conflict-round-not-applicable(no funds)");
            }
            if let (Some(t1), Some(t2)) = (t1, t2) {
                let _ = p.submit(t1.clone());
                let _ = p.submit(t2);
                // the other producer's block: the same input of K1 spent differently, nothing from the pool
                if let Some(inp) = t1.from.iter().find(|sl| sl.amount > 0).cloned() {
                    let k1 = crate::seams::key(1);
                    let conflict = make_tx(&[inp.clone()], &[(crate::seams::key(2).public, inp.amount)], &k1, ts0 + 1, b"conflict");
                    let gt_h = (p.tip_id + 1) % 2 == 0;
                    match crate::props::c13::peer_block(&p, &p.chain.clone(), vec![conflict], ts0 + 1, gt_h) {
                        Ok(b) => {
                            let ra = p.node.add_block_bytes(&b);
                            let _ = p.twin.add_block_bytes(&b);
                            if matches!(ra, Outcome::Done(AddRes::AddedLongest)) {
                                let mut chain = p.chain.clone();
                                chain.push(b);
                                crate::props::c13::set_chain(&mut p, chain);
                                rep.outcome("peer-block-conflicting-with-the-pool");
                            } else {
                                rep.outcome("peer-block-not-adopted");
                            }
                        }
                        Err(_) => rep.outcome("peer-block-not-buildable"),
                    }
                }
            }
        }
        if let TxKind::PeerBlockPending(_) = r.tx.clone() {
            // K2's oldest output that the pool still admits (one block before it leaves the window)
            let g = s.g;
            let h = p.tip_id + 1;
            let k2 = crate::seams::key(2);
            if let Some(old) = p.ledger.unspent_of(&k2.public).into_iter().filter(|sl| sl.block_id + g >= h && sl.amount > 100 && sl.slip_type != saito_core::core::consensus::slip::SlipType::Bound).min_by_key(|sl| (sl.block_id, sl.tx_ordinal, sl.slip_index)) {
                let t = make_tx(&[old.clone()], &[(crate::seams::key(1).public, old.amount)], &k2, p.tip_ts + 1, b"pending-old");
                match p.submit(t) {
                    Outcome::Done(true) => rep.outcome("pending-spend-of-the-oldest-output-pooled"),
                    _ => rep.outcome("pending-spend-of-the-oldest-output-refused"),
                }
            }
        }
        if let TxKind::PeerBlock(who) | TxKind::PeerBlockPending(who) = r.tx.clone() {
            // another producer's round: its node holds the same chain, pools one payment and
            // bundles (and stakes) with its own wallet; the node under test and the twin adopt it
            let ts = p.tip_ts + r.dt_half_hb * hb / 2;
            rep.transitions += 1;
            let who = crate::seams::key(who);
            let mut pn = LedgerNode::new(who, p.cfg.clone());
            for b in p.chain.iter() {
                let _ = pn.add_block_bytes(b);
            }
            // (the payment is not signed by the producing key: its wallet only knows the
            // transactions it made itself)
            let payer = if who.public == crate::seams::key(1).public || matches!(r.tx, TxKind::PeerBlockPending(_)) { if who.public == crate::seams::key(1).public { 2 } else { 1 } } else { 1 };
            let payer = if payer == 2 && matches!(r.tx, TxKind::PeerBlockPending(_)) { 1 } else { payer };
            if let Some(t) = p.make_tx(&TxKind::Pay { payer, fee: 2_000, route: 0 }, ts) {
                let bc = pn.blockchain.clone();
                let mp = pn.mempool.clone();
                let _ = crate::exec::run(async move {
                    let bc = bc.read().await;
                    let mut mp = mp.write().await;
                    mp.add_transaction_if_validates(t, &bc).await;
                });
            }
            let gt = if r.gt {
                let mut t = golden_ticket_tx(p.tip_hash, p.tip_difficulty, &who, 0);
                t.generate(&who.public, 0, 0);
                Some(t)
            } else {
                None
            };
            let bc = pn.blockchain.clone();
            let mp = pn.mempool.clone();
            let cfg = p.cfg.clone();
            let storage = &pn.storage;
            let made = crate::exec::run(async move {
                let bc = bc.read().await;
                let mut mp = mp.write().await;
                mp.bundle_block(&bc, ts, gt, &cfg, storage).await
            });
            match made {
                Outcome::Done(Some(b)) => {
                    let bytes = block_bytes(&b);
                    let ra = p.node.add_block_bytes(&bytes);
                    let _ = p.twin.add_block_bytes(&bytes);
                    if matches!(ra, Outcome::Done(AddRes::AddedLongest)) {
                        let mut chain = p.chain.clone();
                        chain.push(bytes);
                        crate::props::c13::set_chain(&mut p, chain);
                        rep.outcome("peer-produced-block-adopted");
                    } else {
                        rep.outcome("peer-produced-block-not-adopted");
                    }
                }
                Outcome::Done(None) => rep.outcome("peer-produced-no-block"),
                o => rep.outcome(&format!("peer-producer-abort:{}", o.label().split('@').next().unwrap_or("").trim())),
            }
            continue;
        }
        let ts = p.tip_ts + r.dt_half_hb * hb / 2;
        rep.transitions += 1;
        if let Some(tx) = p.make_tx(&r.tx, ts) {
            match p.submit(tx) {
                Outcome::Done(true) => {}
                Outcome::Done(false) => {
                    // the chosen output may be reserved by a transaction still pooled from an
                    // earlier round that produced no block (C14's territory), not a C07 matter
                    rep.outcome("tx-not-admitted(conflict-with-pooled)");
                }
                o => {
                    rep.violate("pool-abort", format!("round {} {:?}: {}", ri, r, o.label()), json!({"ctx": ctx, "round": ri}));
                    return RunResult { produced };
                }
            }
        }
        let before = p.node.obs();
        seen.insert(before.digest());
        match p.bundle(ts, r.gt) {
            Produced::Abort(m) => {
                rep.violate(&format!("producer-abort/{}", m.split('@').next().unwrap_or("").trim()), format!("bundle_block aborted at round {} ({:?}): {}", ri, r, m), json!({"ctx": ctx, "round": ri}));
                return RunResult { produced };
            }
            Produced::NoBlock => {
                rep.outcome("no-block");
                let after = p.node.obs();
                if c07 && (before.pool_txs != after.pool_txs || before.pool_utxo_map != after.pool_utxo_map || before.pool_work != after.pool_work) {
                    rep.violate("no-block-but-pool-changed", format!("round {} {:?}: pool {}->{} txs, work {}->{}", ri, r, before.pool_txs.len(), after.pool_txs.len(), before.pool_work, after.pool_work), json!({"ctx": ctx, "round": ri}));
                }
            }
            Produced::Block(bytes) => {
                produced += 1;
                let (a, b) = p.commit(&bytes);
                let blk = decode_block(&bytes);
                let has_atr = blk.transactions.iter().any(|t| t.transaction_type == saito_core::core::consensus::transaction::TransactionType::ATR);
                let has_fee_tx = blk.has_fee_transaction;
                if blk.total_payout_atr > 0 {
                    rep.outcome("block-with-treasury-payout-to-rebroadcasts");
                }
                if blk.treasury > 0 {
                    rep.outcome("block-with-nonzero-treasury");
                }
                if blk.total_fees_atr > 0 {
                    rep.outcome("block-with-rebroadcast-fees");
                }
                rep.outcome(&format!("produced:{}{}{}", cls(r), if has_atr { "+atr" } else { "" }, if has_fee_tx { "+feetx" } else { "" }));
                rep.distinct.insert(format!("{}|{}|{}|{}|dt{}|s{}", cls(r), has_atr, has_fee_tx, blk.transactions.len(), r.dt_half_hb, s.staking > 0));
                let ok_a = matches!(a, Outcome::Done(AddRes::AddedLongest));
                let ok_b = matches!(b, Outcome::Done(AddRes::AddedLongest));
                if !ok_a || !ok_b {
                    // a supply panic belongs to C02, everything else to C07
                    let msg = format!("own={:?} twin={:?}", a, b);
                    let supply = msg.contains("invalid total supply");
                    if (supply && c02) || (!supply && c07) {
                        // classify the situation for known-finding matching: rebroadcasts present while
                        // the parent's treasury is large enough for a payout multiplier >= 2
                        let payout_case = {
                            let parent = decode_block(p.chain.last().unwrap());
                            let staked = s.g as u128 * parent.avg_nolan_rebroadcast_per_block as u128;
                            has_atr && staked > 0 && parent.treasury as u128 / staked >= 1
                        };
                        let what = if supply { "supply-panic".to_string() } else if ok_a { "twin-rejects-produced-block".to_string() } else if payout_case { "producer-rejects-own-block/rebroadcast-with-treasury-payout".to_string() } else { "producer-rejects-own-block/other".to_string() };
                        rep.violate_inst(&what, &format!("{}|{}", ctx, ri), format!("round {} {:?} (height {}): {}", ri, r, p.tip_id + 1, msg), json!({"ctx": ctx, "round": ri, "block": hex::encode(&bytes)}));
                    }
                    return RunResult { produced };
                }
                if c07 {
                    let oa = p.node.obs();
                    let ob = p.twin.obs();
                    if oa.chain_part() != ob.chain_part() {
                        rep.violate("producer-and-twin-diverge", format!("round {}: {:?}", ri, oa.diff(&ob)), json!({"ctx": ctx, "round": ri}));
                        return RunResult { produced };
                    }
                }
                if c02 {
                    if let Err(e) = supply_check(&p.node, &p.ledger, p.issued, s.g) {
                        let kind = if has_atr { "atr" } else if has_fee_tx { "payout" } else { "plain" };
                        rep.violate(&format!("supply-mismatch/{}", kind), format!("round {} {:?}: {}", ri, r, e), json!({"ctx": ctx, "round": ri}));
                        return RunResult { produced };
                    }
                    for (i, tin, tout, ty) in tx_balances(&blk) {
                        if tout > tin && ty != "Fee" && ty != "Issuance" && ty != "ATR" {
                            rep.violate(&format!("tx-pays-more-than-it-consumes/{}", ty), format!("tx {} of block {}: in {} out {}", i, blk.id, tin, tout), json!({"ctx": ctx, "round": ri}));
                        }
                    }
                }
            }
        }
    }
    rep.traces_validated += 1;
    RunResult { produced }
}

pub fn scripts(tier: &Tier) -> Vec<Script> {
    let al = alphabet();
    let mut v = vec![];
    for (g, staking) in [(3u64, 0u64), (3, 100_000_000), (4, 0), (3, 20_000_000)] {
        let n = (2 * g + 4) as usize;
        let base: Vec<Round> = (0..n).map(default_round).collect();
        v.push(Script { rich: false, g, staking, rounds: base.clone() });
        // one deviation at every position
        for pos in 0..n {
            for a in al.iter() {
                let mut r = base.clone();
                r[pos] = a.clone();
                v.push(Script { rich: false, g, staking, rounds: r });
            }
        }
        // a block of another producer conflicting with the pool, then bundling inside / at the
        // edge of / after the routing-work window
        for pos in [1usize, 2, (g + 2) as usize] {
            for dt in [1u64, 2, 3, 4] {
                for gt in [true, false] {
                    // fee levels around the routing work a block needs inside the window: one
                    // remaining transaction alone may or may not be enough
                    for fee in [1_500u64, 3_000, 6_000, 12_000, 24_000, 400_000] {
                        let mut r = base.clone();
                        r[pos] = Round { tx: TxKind::PeerConflict(fee), gt, dt_half_hb: dt };
                        r.truncate((pos + 3).min(n));
                        v.push(Script { rich: false, g, staking, rounds: r });
                    }
                }
            }
        }
        // runs of one to g+1 consecutive blocks by other producers at every position (the node's
        // own stake ages untouched across the run; afterwards it produces again)
        for pos in 1..n.saturating_sub(2) {
            for k in 1..=(g as usize + 1) {
                if pos + k + 1 > n {
                    continue;
                }
                let mut r = base.clone();
                for j in 0..k {
                    r[pos + j] = Round { tx: TxKind::PeerBlock(if j % 2 == 0 { 2 } else { 1 }), gt: r[pos + j].gt, dt_half_hb: 4 };
                }
                r.truncate((pos + k + 3).min(n));
                v.push(Script { rich: false, g, staking, rounds: r });
            }
        }
        // a payment spending the oldest admissible output waits in the node's pool while another
        // producer makes the next block (or two); then the node produces
        for pos in 1..n.saturating_sub(2) {
            for k in 1..=2usize {
                if pos + k + 1 > n {
                    continue;
                }
                let mut r = base.clone();
                r[pos] = Round { tx: TxKind::PeerBlockPending(1), gt: r[pos].gt, dt_half_hb: 4 };
                for j in 1..k {
                    r[pos + j] = Round { tx: TxKind::PeerBlock(1), gt: r[pos + j].gt, dt_half_hb: 4 };
                }
                r.truncate((pos + k + 3).min(n));
                v.push(Script { rich: false, g, staking, rounds: r });
            }
        }
        // exhaustive first two rounds from a fresh chain and from a just-wrapped chain
        if staking == 0 || tier.thorough {
            for start in [0usize, (g + 2) as usize] {
                for a in al.iter() {
                    for b in al.iter() {
                        if !tier.thorough && (a.dt_half_hb == 6 || b.dt_half_hb == 6) {
                            continue;
                        }
                        let mut r = base.clone();
                        r[start] = a.clone();
                        r[start + 1] = b.clone();
                        r.truncate((start + 4).min(n));
                        v.push(Script { rich: false, g, staking, rounds: r });
                    }
                }
            }
        }
        // treasury-rich world: big fees, small looping outputs (rebroadcast with treasury payout)
        if staking == 0 {
            let n2 = (3 * g + 4) as usize;
            let rich_base: Vec<Round> = (0..n2).map(|i| Round { tx: TxKind::Pay { payer: 1, fee: 3_000_000, route: 0 }, gt: i % 2 == 1, dt_half_hb: 4 }).collect();
            v.push(Script { rich: true, g, staking, rounds: rich_base.clone() });
            for pos in 0..n2 {
                for a in al.iter().filter(|a| a.dt_half_hb == 4) {
                    let mut r = rich_base.clone();
                    r[pos] = a.clone();
                    v.push(Script { rich: true, g, staking, rounds: r });
                }
            }
        }
        // two deviations (thorough)
        if tier.thorough && g == 3 {
            for p1 in 0..n {
                for p2 in (p1 + 1)..n {
                    for a in al.iter().step_by(3) {
                        for b in al.iter().step_by(5) {
                            let mut r = base.clone();
                            r[p1] = a.clone();
                            r[p2] = b.clone();
                            v.push(Script { rich: false, g, staking, rounds: r });
                        }
                    }
                }
            }
        }
    }
    v
}

/// The producer after a restart. A full node (real consensus thread) receives a chain, is shut
/// down, and is started again from its own block files, once with empty blockchain settings and
/// once with the position a host application persists (last block id / hash / timestamp, genesis
/// block, lowest acceptable block, fork id). A fee-paying transaction without routing path is
/// pooled and the real Mempool::bundle_block is asked for a block at several moments before and
/// after two heartbeats: whatever it assembles must be accepted by the node itself.
fn producer_after_restart(rep: &mut Report) {
    use crate::factory::World;
    use crate::fullnode::FullNode;
    use crate::props::c12::{deliver, node_cfg};
    use crate::seams::{key, ManualClock, MemIO};
    use saito_core::core::defs::PrintForLog;
    for g in [10u64, 3] {
        let mut w = World::standard(g);
        let mut t = 0usize;
        for i in 0..4 {
            t = match w.honest_child(t, 0, &format!("R{}", i + 2)) {
                Ok(b) => b,
                Err(e) => {
                    rep.machinery(format!("producer after restart: {}", e));
                    return;
                }
            };
        }
        let hb = w.cfg.consensus.heartbeat_interval;
        let io = MemIO::new();
        let mut n0 = FullNode::new(key(0), node_cfg(&w), io.clone(), ManualClock::new(5_000_000));
        let _ = n0.init();
        for i in w.path(t) {
            let _ = deliver(&mut n0, &w.blocks[i].bytes);
        }
        if n0.tip().1 != w.blocks[t].hash {
            rep.machinery("producer after restart: the first life did not reach the tip".into());
            return;
        }
        let saved = {
            let bc = n0.blockchain.try_read().unwrap();
            (bc.last_block_id, bc.last_block_hash, bc.last_timestamp, bc.genesis_block_id, bc.genesis_timestamp, bc.lowest_acceptable_timestamp, bc.lowest_acceptable_block_hash, bc.lowest_acceptable_block_id, bc.fork_id)
        };
        let files = n0.io.files();
        for with_saved_position in [false, true] {
            for dt_half_hb in [1u64, 2, 3, 4, 5] {
                rep.evaluations += 1;
                let ctx = json!({"g": g, "restart_with_saved_position": with_saved_position, "elapsed_half_heartbeats": dt_half_hb});
                let mut cfg = node_cfg(&w);
                if with_saved_position {
                    cfg.blockchain.last_block_id = saved.0;
                    cfg.blockchain.last_block_hash = saved.1.to_hex();
                    cfg.blockchain.last_timestamp = saved.2;
                    cfg.blockchain.genesis_block_id = saved.3;
                    cfg.blockchain.genesis_timestamp = saved.4;
                    cfg.blockchain.lowest_acceptable_timestamp = saved.5;
                    cfg.blockchain.lowest_acceptable_block_hash = saved.6.to_hex();
                    cfg.blockchain.lowest_acceptable_block_id = saved.7;
                    cfg.blockchain.fork_id = saved.8.map(|f| f.to_hex()).unwrap_or_default();
                }
                let mut n = FullNode::new(key(0), cfg.clone(), MemIO::with_files(files.clone()), ManualClock::new(6_000_000));
                if !n.init().is_done() {
                    rep.violate("producer-after-restart/start-aborts", format!("{}", ctx), ctx.clone());
                    continue;
                }
                if n.tip().1 != w.blocks[t].hash {
                    rep.outcome("producer-after-restart:came-up-on-another-tip(C12)");
                    continue;
                }
                let ts = w.blocks[t].ts + dt_half_hb * hb / 2;
                let Some(tx) = w.payment(t, &key(1), &key(2).public, 900, 50_000, ts) else {
                    rep.machinery("producer after restart: no payment".into());
                    return;
                };
                let bc = n.blockchain.clone();
                let mp = n.mempool.clone();
                let storage = &n.consensus.storage;
                let made = crate::exec::run(async {
                    let bc = bc.read().await;
                    let mut mp = mp.write().await;
                    mp.add_transaction_if_validates(tx, &bc).await;
                    mp.bundle_block(&bc, ts, None, &cfg, storage).await
                });
                match made {
                    Outcome::Done(Some(b)) => {
                        let bytes = block_bytes(&b);
                        let work = b.total_work;
                        let r = deliver(&mut n, &bytes);
                        if !r.is_done() || n.tip().1 != b.hash {
                            rep.violate(&format!("producer-after-restart/own-block-rejected/{}", if with_saved_position { "saved-position" } else { "empty-settings" }), format!("{}: the block assembled {} ms after the tip (routing work {}) is not adopted by the node that made it", ctx, ts - w.blocks[t].ts, work), ctx.clone());
                        } else {
                            rep.outcome("producer-after-restart:own-block-accepted");
                        }
                    }
                    Outcome::Done(None) => rep.outcome("producer-after-restart:no-block"),
                    o => rep.violate("producer-after-restart/abort", format!("{}: {}", ctx, o.label()), ctx.clone()),
                }
            }
        }
    }
}

/// Rounds that mint an NFT (with and without change) and, optionally, spend its payload one to
/// three blocks later, at fee levels 0 and 6000 through two window wraps (the C13 histories): the
/// group has to be rebroadcast by the producer when it leaves the window, with and without a
/// rebroadcast fee. Every block the producer assembles must be adopted by its own node and the twin.
fn nft_rounds(rep: &mut Report, tier: &Tier) {
    use super::c13::{run_history_with, Act, Step};
    let mut hs: Vec<(u64, Vec<Step>)> = vec![];
    for g in if tier.thorough { vec![3u64, 4] } else { vec![3u64] } {
        let n = (2 * g + 5) as usize;
        for fee in [0u64, 6_000] {
            let base: Vec<Step> = (0..n).map(|i| Step { act: Act::Pay(fee), gt: i % 2 == 1, fork_before: false }).collect();
            for mint in [Act::NftCreate, Act::NftCreateNoChange] {
                for p1 in 0..n.saturating_sub(g as usize + 2) {
                    let mut s = base.clone();
                    s[p1].act = mint.clone();
                    hs.push((g, s.clone()));
                    for d in 1..=3usize {
                        if p1 + d < n {
                            let mut s2 = s.clone();
                            s2[p1 + d].act = Act::SpendNftPayload;
                            hs.push((g, s2));
                        }
                    }
                }
            }
        }
    }
    let results = par_map(&hs, workers(), |_, (g, steps)| {
        let mut r = rep.child();
        r.evaluations += 1;
        let mut inner = r.child();
        run_history_with(*g, steps, 8, false, &mut inner);
        let cut: u64 = inner.outcomes.iter().filter(|(k, _)| k.starts_with("history-cut:block-not-accepted")).map(|(_, v)| *v).sum();
        let ctx = json!({"g": g, "steps": steps.iter().map(|s| format!("{:?}{}", s.act, if s.gt { "+gt" } else { "" })).collect::<Vec<_>>()});
        if cut > 0 {
            let fees = steps.iter().any(|s| matches!(&s.act, Act::Pay(f) if *f > 0));
            r.violate(&format!("own-block-rejected/nft-history/{}", if fees { "fees" } else { "nofees" }), format!("a block the producer assembled was not adopted: {}", ctx), ctx);
        } else {
            r.outcome("nft-history:every-produced-block-adopted");
        }
        r.transitions += inner.transitions;
        r
    });
    for r in results {
        rep.merge(r);
    }
}

/// The producer on a node that keeps only its tip's transactions in memory (prune_after_blocks = 1):
/// the default payment history at fee levels 0 and 6000 through two window wraps.
fn pruned_producer(rep: &mut Report) {
    use super::c13::{run_history_with, Act, Step};
    for g in [3u64, 4] {
        for fee in [0u64, 6_000] {
            let steps: Vec<Step> = (0..(2 * g + 5) as usize).map(|i| Step { act: Act::Pay(fee), gt: i % 2 == 1, fork_before: false }).collect();
            rep.evaluations += 1;
            let mut inner = rep.child();
            run_history_with(g, &steps, 1, false, &mut inner);
            rep.transitions += inner.transitions;
            let cut: u64 = inner.outcomes.iter().filter(|(k, _)| k.starts_with("history-cut:block-not-accepted")).map(|(_, v)| *v).sum();
            let ctx = json!({"g": g, "fee": fee, "prune_after_blocks": 1, "history": "default payments, golden ticket every other block"});
            if cut > 0 {
                let key = "own-block-rejected/producer-keeps-one-block-in-memory";
                rep.violate_inst(key, &format!("{}|g{}|fee{}", key, g, fee), format!("a block the producer assembled was not adopted by its own node: {}", ctx), ctx);
            } else {
                rep.outcome("pruned-producer:every-produced-block-adopted");
            }
        }
    }
}

pub fn main(tier: Tier, _replay: Option<String>) -> i32 {
    let mut rep = Report::new("C07", tier.clone(), "model_checking");
    let mut ss = scripts(&tier);
    if let Ok(f) = std::env::var("VERIF_C07_FILTER") {
        // developer aid: only the scripts whose printed form contains the given text
        ss.retain(|s| format!("{:?}", s).contains(&f));
        eprintln!("VERIF_C07_FILTER keeps {} script(s)", ss.len());
    }
    rep.bounds = json!({"configs": ["g=3", "g=3+staking", "g=4"], "rounds": "2g+4", "alphabet": alphabet().len(), "deviations": if tier.thorough {2} else {1}, "exhaustive_prefix": 2});
    rep.rule = "scripts = default round sequence with <=k deviations from a 48-symbol round alphabet (tx variant x golden ticket x elapsed time) plus the exhaustive product of the first two rounds from a fresh and from a just-wrapped chain; distinct = classes of produced blocks (round class, rebroadcast present, payout present, tx count, elapsed, staking)".into();
    rep.assumptions = vec!["producer key K0, twin key K9; both receive identical bytes; heartbeat 5000 ms".into()];
    let results = par_map(&ss, workers(), |_, s| {
        let mut r = rep.child();
        let mut seen = BTreeSet::new();
        r.evaluations += 1;
        run_script(s, &mut r, &mut seen, true, false);
        if r.samples.is_empty() && s.staking > 0 {
            r.sample(json!({"g": s.g, "staking": s.staking, "rounds": s.rounds.iter().map(|x| format!("{:?}", x)).collect::<Vec<_>>()}));
        }
        (r, seen)
    });
    let mut all = BTreeSet::new();
    for (r, s) in results {
        rep.merge(r);
        all.extend(s);
    }
    producer_after_restart(&mut rep);
    nft_rounds(&mut rep, &tier);
    pruned_producer(&mut rep);
    rep.states = all.len() as u64;
    rep.required_outcomes = vec!["peer-block-conflicting-with-the-pool".into(), "no-block".into()];
    if !rep.outcomes.keys().any(|k| k.contains("+atr")) {
        rep.machinery("vacuity: no produced block carried a rebroadcast".into());
    }
    if !rep.outcomes.keys().any(|k| k.contains("+feetx")) {
        rep.machinery("vacuity: no produced block carried a payout".into());
    }
    rep.finish()
}

pub fn debug_rich() -> i32 {
    let hb = 5000u64;
    let mut p = Prod::new_world(3, hb, 0, true).unwrap();
    for i in 0..16 {
        let ts = p.tip_ts + 2 * hb;
        if let Some(tx) = p.make_tx(&TxKind::Pay { payer: 1, fee: 3_000_000, route: 0 }, ts) {
            let _ = p.submit(tx);
        }
        match p.bundle(ts, i % 2 == 1) {
            Produced::Block(b) => {
                let (a, c) = p.commit(&b);
                let blk = decode_block(&b);
                println!("id {} txs {} treasury {} graveyard {} unpaid {} fees {} fees_atr {} payout_atr {} avg_rebroadcast {} avg_fee_per_byte {} -> {:?} {:?}", blk.id, blk.transactions.len(), blk.treasury, blk.graveyard, blk.previous_block_unpaid, blk.total_fees, blk.total_fees_atr, blk.total_payout_atr, blk.avg_nolan_rebroadcast_per_block, blk.avg_fee_per_byte, a, c);
                for t in blk.transactions.iter() {
                    println!("    {} in {:?} out {:?}", tx_type_name(t.transaction_type), t.from.iter().map(|s| s.amount).collect::<Vec<_>>(), t.to.iter().map(|s| (s.amount, crate::seams::key_name(&s.public_key))).collect::<Vec<_>>());
                }
            }
            Produced::NoBlock => println!("no block"),
            Produced::Abort(m) => {
                println!("abort {}", m);
                break;
            }
        }
    }
    0
}
