//! C06 — a block's identity binds content and creator.  Every single decodable edit of valid
//! blocks; accepted variants grouped by hash must carry identical ordered transaction lists.

use std::collections::BTreeMap;

use saito_core::core::consensus::block::Block;
use saito_core::core::consensus::transaction::{Transaction, TransactionType};
use saito_core::core::util::crypto::verify_signature;
use serde_json::json;

use crate::exec::{run, Outcome};
use crate::factory::World;
use crate::node::*;
use crate::report::{par_map, workers, Report, Tier};
use crate::seams::key;

pub struct Base {
    pub name: String,
    pub w: World,
    pub parent: usize,
    pub block: usize,
    pub foreign: Transaction,
    /// a valid sibling of the base block (same parent) and a valid child of the base block: the
    /// sibling is the node's tip when a variant arrives as a side block; the child later makes the
    /// variant's branch the longest
    pub sibling: Option<usize>,
    pub child: Option<usize>,
}

fn bases() -> Result<Vec<Base>, String> {
    let mut out = vec![];
    // (1) fresh chain, block with golden ticket, routed fee-paying tx and two more payments
    for (name, g, depth) in [("fresh-4tx", 10u64, 1usize), ("wrapped-atr", 3, 5), ("fresh-zero-fee-routed", 10, 2), ("fresh-nft-mint", 10, 1)] {
        let mut w = super::c01::positions(&crate::report::Tier { thorough: false, seed: 0 })?.remove(0).w;
        if g == 3 {
            w = World::new(crate::seams::Cfg::new(3, crate::factory::HEARTBEAT));
            let k = |i: u8| key(i).public;
            w.genesis(&[(k(1), 1_000_000), (k(1), 2_000_000), (k(2), 5_000_000), (k(2), 6_000_000), (k(3), 8_000_000), (k(3), 8_500_000), (k(0), 7_000_000)], 1_000_000);
        }
        let mut t = 0usize;
        for i in 0..depth {
            t = w.honest_child(t, 0, &format!("P{}", i + 2))?;
        }
        let ts = w.child_ts(t, 3);
        let id = w.blocks[t].id + 1;
        let k1 = key(1);
        let k2 = key(2);
        let k3 = key(3);
        let mut txs = vec![];
        let mut a = w.payment(t, &k1, &k2.public, 700, if name.contains("zero-fee") { 0 } else { 50_000 }, ts).ok_or("k1 broke")?;
        add_hops(&mut a, &[k1, key(4)], &w.creator.public);
        txs.push(a);
        if let Some(b) = w.payment(t, &k2, &k1.public, 800, 0, ts) {
            txs.push(b);
        }
        let mut c = w.payment(t, &k3, &k1.public, 900, 0, ts).ok_or("k3 broke")?;
        c.data = b"payload-of-c".to_vec();
        c.sign(&k3.private);
        txs.push(c);
        if name == "fresh-nft-mint" {
            // K2 mints an NFT from its last output: outputs Bound(1), Normal(deposit), Bound(0), change
            use saito_core::core::consensus::slip::{Slip, SlipType};
            let input = w.ledgers[t].unspent_of(&k2.public).into_iter().max_by_key(|s| s.amount).ok_or("k2 second")?;
            let mut inp = input.clone();
            inp.generate_utxoset_key();
            let mut m = Transaction::default();
            m.transaction_type = TransactionType::Bound;
            m.timestamp = ts + 5;
            m.add_from_slip(inp.clone());
            m.add_to_slip(Slip { public_key: k2.public, amount: 1, slip_type: SlipType::Bound, ..Default::default() });
            m.add_to_slip(Slip { public_key: k1.public, amount: 4_000, ..Default::default() });
            m.add_to_slip(Slip { public_key: saito_core::core::consensus::wallet::Wallet::create_nft_uuid(&inp, "art"), amount: 0, slip_type: SlipType::Bound, ..Default::default() });
            m.add_to_slip(Slip { public_key: k2.public, amount: input.amount - 4_000, ..Default::default() });
            m.sign(&k2.private);
            // the second payment of this base spends K2's first output; keep only one K2 spender per output
            txs.retain(|t| !t.from.iter().any(|s| s.get_utxoset_key() == inp.get_utxoset_key()));
            txs.push(m);
        }
        // a foreign valid transaction (second output of K3) not in the block
        let s2 = w.ledgers[t].unspent_of(&k3.public).into_iter().last().ok_or("k3 second")?;
        let foreign = w.spend(&s2, &k3, &k2.public, 123, 0, ts + 9);
        let gt = if id % 2 == 0 { Some(key(0)) } else { None };
        let b = w.build(t, ts, gt, txs, name)?;
        let sibling = w.honest_child(t, 6, &format!("{}-sibling", name)).ok();
        let child = w.honest_child(b, 0, &format!("{}-child", name)).ok();
        out.push(Base { name: name.to_string(), w, parent: t, block: b, foreign, sibling, child });
    }
    // (2) the genesis block itself (id 1, issuance transactions): only an empty node can be offered it
    {
        let w = World::standard(10);
        let k3 = key(3);
        let foreign = make_tx(&[], &[(k3.public, 0)], &k3, 1_000_001, b"foreign");
        out.push(Base { name: "genesis".to_string(), w, parent: usize::MAX, block: 0, foreign, sibling: None, child: None });
    }
    Ok(out)
}

#[derive(Clone)]
pub struct Variant {
    pub label: String,
    pub class: String,
    pub bytes: Vec<u8>,
}

fn reser(b: &Block) -> Vec<u8> {
    block_bytes(b)
}

pub fn variants(base: &Base) -> Vec<Variant> {
    let w = &base.w;
    let orig = decode_block(&w.blocks[base.block].bytes);
    let raw = w.blocks[base.block].bytes.clone();
    let v = std::cell::RefCell::new(vec![Variant { label: "original".into(), class: "original".into(), bytes: raw.clone() }]);
    let fresh = || Block::deserialize_from_net(&raw).unwrap();
    let n = orig.transactions.len();
    let push = |label: String, class: &str, b: Block| {
        v.borrow_mut().push(Variant { label, class: class.to_string(), bytes: reser(&b) });
    };
    // whole-list edits
    {
        let mut b = fresh();
        b.transactions.clear();
        push("remove-all-txs".into(), "remove-all-txs", b);
        if n > 1 {
            let mut b = fresh();
            b.transactions.truncate(1);
            push("keep-first-tx-only".into(), "remove-many-txs", b);
            let mut b = fresh();
            let last = b.transactions.pop().unwrap();
            b.transactions = vec![last];
            push("keep-last-tx-only".into(), "remove-many-txs", b);
            let mut b = fresh();
            b.transactions.reverse();
            push("reverse-txs".into(), "reorder-txs", b);
        }
    }
    for i in 0..n {
        let mut b = fresh();
        b.transactions.remove(i);
        push(format!("remove-tx{}", i), "remove-tx", b);
        // the same with the header's merkle root rewritten to fit (nobody re-signs): the root is
        // what the creator's signature and the block hash commit to
        let mut b = fresh();
        let _ = b.generate();
        b.transactions.remove(i);
        b.created_hashmap_of_slips_spent_this_block = false;
        b.slips_spent_this_block.clear();
        b.merkle_root = [0; 32];
        b.merkle_root = b.generate_merkle_root(false, false);
        push(format!("remove-tx{}+root-rewritten", i), "remove-tx+root-rewritten", b);
        let mut b = fresh();
        let _ = b.generate();
        let mut ft = base.foreign.clone();
        ft.generate(&b.creator, 0, 0);
        b.transactions.push(ft);
        b.merkle_root = [0; 32];
        b.merkle_root = b.generate_merkle_root(false, false);
        push(format!("append-foreign-after-tx{}+root-rewritten", i), "append-tx+root-rewritten", b);
        let mut b = fresh();
        let t = b.transactions[i].clone();
        b.transactions.insert(i, t);
        push(format!("duplicate-tx{}", i), "duplicate-tx", b);
        let mut b = fresh();
        b.transactions[i] = base.foreign.clone();
        push(format!("replace-tx{}", i), "replace-tx", b);
        for j in (i + 1)..n {
            let mut b = fresh();
            b.transactions.swap(i, j);
            push(format!("swap-tx{}-{}", i, j), "reorder-txs", b);
        }
        // field classes of tx i
        let ty = orig.transactions[i].transaction_type;
        let tn = tx_type_name(ty);
        macro_rules! edit {
            ($name:expr, $f:expr) => {{
                let mut b = fresh();
                let f: &dyn Fn(&mut Transaction) -> bool = &$f;
                if f(&mut b.transactions[i]) {
                    push(format!("tx{}({})-{}", i, tn, $name), &format!("tx-field:{}", $name), b);
                }
            }};
        }
        edit!("signature", |t: &mut Transaction| {
            t.signature[5] ^= 1;
            true
        });
        edit!("signature-other-encoding", |t: &mut Transaction| {
            // (r, n - s) is the second encoding of the same ECDSA signature; the signature bytes are
            // carried by the block but not covered by its hash, so only a verifier that accepts
            // exactly one encoding keeps the carried bytes fixed
            mirror_s(&mut t.signature);
            true
        });
        edit!("timestamp", |t: &mut Transaction| {
            t.timestamp ^= 1;
            true
        });
        edit!("type", |t: &mut Transaction| {
            t.transaction_type = if t.transaction_type == TransactionType::Normal { TransactionType::Vip } else { TransactionType::Normal };
            true
        });
        edit!("replaces", |t: &mut Transaction| {
            t.txs_replacements ^= 1;
            true
        });
        edit!("input-amount", |t: &mut Transaction| {
            if t.from.is_empty() {
                return false;
            }
            t.from[0].amount ^= 1;
            true
        });
        edit!("input-key", |t: &mut Transaction| {
            if t.from.is_empty() {
                return false;
            }
            t.from[0].public_key = key(5).public;
            true
        });
        edit!("input-coordinates", |t: &mut Transaction| {
            if t.from.is_empty() || t.from[0].amount == 0 {
                return false;
            }
            t.from[0].tx_ordinal ^= 1;
            true
        });
        edit!("output-amount", |t: &mut Transaction| {
            if t.to.is_empty() {
                return false;
            }
            t.to[0].amount ^= 1;
            true
        });
        edit!("output-key", |t: &mut Transaction| {
            if t.to.is_empty() {
                return false;
            }
            t.to[0].public_key = key(5).public;
            true
        });
        edit!("output-sliptype", |t: &mut Transaction| {
            if t.to.is_empty() {
                return false;
            }
            t.to[0].slip_type = saito_core::core::consensus::slip::SlipType::VipOutput;
            true
        });
        edit!("payload-byte", |t: &mut Transaction| {
            if t.data.is_empty() {
                return false;
            }
            t.data[0] ^= 1;
            true
        });
        edit!("payload-append", |t: &mut Transaction| {
            t.data.push(0x61);
            true
        });
        edit!("path-strip", |t: &mut Transaction| {
            if t.path.is_empty() {
                return false;
            }
            t.path.clear();
            true
        });
        edit!("path-truncate", |t: &mut Transaction| {
            if t.path.len() < 2 {
                return false;
            }
            t.path.pop();
            true
        });
        edit!("zero-amount-input-appended", |t: &mut Transaction| {
            // an input that carries no value (as message-only transactions have) named after a
            // third party: nothing checks its ownership, so only the commitment can catch it
            let mut sl = saito_core::core::consensus::slip::Slip::default();
            sl.public_key = key(5).public;
            sl.amount = 0;
            sl.slip_index = t.from.len() as u8;
            t.from.push(sl);
            true
        });
        edit!("zero-amount-input-renumbered", |t: &mut Transaction| {
            match t.from.iter_mut().find(|s| s.amount == 0) {
                Some(sl) => {
                    sl.tx_ordinal += 7;
                    sl.block_id += 1;
                    true
                }
                None => false,
            }
        });
        edit!("path-hop-to", |t: &mut Transaction| {
            if t.path.is_empty() {
                return false;
            }
            let l = t.path.len() - 1;
            t.path[l].to = key(5).public;
            true
        });
        edit!("path-hop-sig", |t: &mut Transaction| {
            if t.path.is_empty() {
                return false;
            }
            t.path[0].sig[3] ^= 1;
            true
        });
        edit!("path-append-hop", |t: &mut Transaction| {
            if t.transaction_type != TransactionType::Normal {
                return false;
            }
            // a router the transaction really passed could append itself; here a third party does
            let from = t.path.last().map(|h| h.to).unwrap_or(key(0).public);
            if from != key(0).public {
                return false;
            }
            let hop = saito_core::core::consensus::hop::Hop::generate(&key(0).private, &key(0).public, &key(5).public, t);
            t.path.push(hop);
            true
        });
    }
    let mut b = fresh();
    b.transactions.push(base.foreign.clone());
    push("append-foreign-tx".into(), "append-tx", b);
    // crafted slip-less transactions inserted at every position: every type that validates without
    // inputs x replacement count 0 / 1 / 2 (a leaf count taken from the wire)
    for ty in [TransactionType::SPV, TransactionType::Normal, TransactionType::Bound] {
        for rc in [0u32, 1, 2] {
            for at in 0..=n {
                let mut b = fresh();
                let mut t = Transaction::default();
                t.transaction_type = ty;
                t.txs_replacements = rc;
                t.data = b"inserted after signing".to_vec();
                t.timestamp = 7;
                b.transactions.insert(at, t);
                push(format!("insert-crafted-{:?}-rc{}-at{}", ty, rc, at), "insert-crafted-tx", b);
            }
        }
    }
    // header: every fixed-width field
    let fields: Vec<(&str, usize, usize)> = {
        let mut f = vec![("id", 4, 12), ("timestamp", 12, 20), ("previous_block_hash", 20, 52), ("creator", 52, 85), ("merkle_root", 85, 117), ("signature", 117, 181)];
        let names = [
            "graveyard", "treasury", "burnfee", "difficulty", "avg_total_fees(dup)", "avg_fee_per_byte", "avg_nolan_rebroadcast_per_block", "previous_block_unpaid", "avg_total_fees", "avg_total_fees_new", "avg_total_fees_atr", "avg_payout_routing", "avg_payout_mining", "avg_payout_treasury", "avg_payout_graveyard", "avg_payout_atr", "total_payout_routing", "total_payout_mining", "total_payout_treasury", "total_payout_graveyard", "total_payout_atr", "total_fees", "total_fees_new", "total_fees_atr", "fee_per_byte", "total_fees_cumulative",
        ];
        for (i, n) in names.iter().enumerate() {
            f.push((n, 181 + 8 * i, 189 + 8 * i));
        }
        f
    };
    for (name, _s, e) in fields.iter() {
        let mut x = raw.clone();
        x[e - 1] ^= 1;
        v.borrow_mut().push(Variant { label: format!("header-{}", name), class: format!("header:{}", name), bytes: x });
    }
    let mut x = raw.clone();
    for i in 85..117 {
        x[i] = 0;
    }
    v.borrow_mut().push(Variant { label: "merkle-zero".into(), class: "header:merkle-zero".into(), bytes: x });
    let mut x = raw.clone();
    if base.parent == usize::MAX {
        x[85..117].copy_from_slice(&[0x5a; 32]);
    } else {
        x[85..117].copy_from_slice(&w.blocks[base.parent].bytes[85..117]);
    }
    v.borrow_mut().push(Variant { label: "merkle-foreign".into(), class: "header:merkle-foreign".into(), bytes: x });
    let mut b = fresh();
    b.creator = key(3).public;
    push("creator-replaced-not-resigned".into(), "creator", b);
    let mut b = fresh();
    b.generate().unwrap();
    b.sign(&key(3).private);
    push("resigned-by-other-key-creator-unchanged".into(), "creator", b);
    // the creator's signature in its second encoding
    let mut x = raw.clone();
    let mut sg: [u8; 64] = x[117..181].try_into().unwrap();
    mirror_s(&mut sg);
    x[117..181].copy_from_slice(&sg);
    v.borrow_mut().push(Variant { label: "creator-signature-other-encoding".into(), class: "header:signature-other-encoding".into(), bytes: x });
    // transaction count field vs carried transactions
    let mut x = raw.clone();
    let cnt = u32::from_be_bytes(x[0..4].try_into().unwrap());
    if cnt > 0 {
        x[0..4].copy_from_slice(&(cnt - 1).to_be_bytes());
        v.borrow_mut().push(Variant { label: "txcount-minus-one".into(), class: "tx-count".into(), bytes: x });
    }
    v.into_inner()
}

pub fn main(tier: Tier, _replay: Option<String>) -> i32 {
    let mut rep = Report::new("C06", tier.clone(), "exploration");
    let bs = match bases() {
        Ok(b) => b,
        Err(e) => {
            rep.machinery(format!("bases: {}", e));
            return rep.finish();
        }
    };
    rep.rule = "every single edit (remove/duplicate/replace/swap/append transaction; one change per field class of every transaction incl. routing path; one bit in every header field; zero/foreign merkle root; creator/signature swaps; count field) of each base block, decoded from bytes; a variant is non-trivial when it decodes; distinct = decodable variants".into();
    rep.bounds = json!({"bases": bs.iter().map(|b| b.name.clone()).collect::<Vec<_>>(), "gates": ["add_block", "verify_block(advertised id/hash) then add_block"]});
    rep.assumptions = vec!["variants whose hash differs from the original are different blocks and are not judged here".into()];
    for base in bs.iter() {
        if let Ok(only) = std::env::var("VERIF_C06_BASE") {
            if base.name != only {
                continue;
            }
        }
        let mut vs = variants(base);
        if let Ok(f) = std::env::var("VERIF_C06_ONLY") {
            vs.retain(|v| v.label.contains(&f) || v.label == "original");
        }
        let w = &base.w;
        let orig_hash = w.blocks[base.block].hash;
        let orig_id = w.blocks[base.block].id;
        let results = par_map(&vs, workers(), |_, v| {
            // returns (decodes, hash, accepted_direct, passes_verify_filter, txlist, sig_ok)
            let Ok(mut blk) = Block::deserialize_from_net(&v.bytes) else {
                return None;
            };
            if blk.generate().is_err() {
                return Some((blk.hash, false, false, vec![], true, "generate failed".to_string(), false, None));
            }
            let txlist: Vec<Vec<u8>> = blk.transactions.iter().map(|t| t.serialize_for_net()).collect();
            let sig_ok = verify_signature(&blk.pre_hash, &blk.signature, &blk.creator);
            let mut n = if base.parent == usize::MAX {
                LedgerNode::new(key(9), w.cfg.clone())
            } else {
                match w.node_at(base.parent, key(9)) {
                    Ok(n) => n,
                    Err(e) => return Some((blk.hash, false, false, txlist, sig_ok, format!("node: {}", e), false, None)),
                }
            };
            // gate b: verification thread filter with the original's advertised id/hash
            let (mut vt, mut rx, _s) = super::c01::verifier(&n);
            let bytes = v.bytes.clone();
            let filt = match run(async {
                vt.verify_block(&bytes, 1, orig_hash, orig_id).await;
            }) {
                Outcome::Done(()) => rx.try_recv().is_ok(),
                _ => false,
            };
            let r = n.add_block_bytes(&v.bytes);
            let (acc, note) = match r {
                Outcome::Done(AddRes::AddedLongest) => (true, String::new()),
                Outcome::Done(x) => (false, format!("{:?}", x)),
                o => (false, o.label()),
            };
            // gate c: the same bytes offered to a node with an empty chain (its first block)
            let mut fresh = LedgerNode::new(key(9), w.cfg.clone());
            let (acc_fresh, note_fresh) = match fresh.add_block_bytes(&v.bytes) {
                Outcome::Done(AddRes::AddedLongest) => (true, String::new()),
                Outcome::Done(x) => (false, format!("{:?}", x)),
                o => (false, o.label()),
            };
            let note = if note_fresh.starts_with("panic") || note_fresh == "stalled" { format!("{} (as first block of an empty node)", note_fresh) } else { note };
            // gate d: the bytes arrive as a side block (a sibling is the tip), are written to disk
            // unvalidated, the node restarts from its files, and a valid child then makes the
            // variant's branch the longest: the variant is validated for the first time after
            // having been read back by the start-up loader
            if let (Some(sib), Some(ch), true) = (base.sibling, base.child, blk.hash == orig_hash) {
                use crate::props::c12::{deliver, node_cfg, restart};
                let io = crate::seams::MemIO::new();
                let mut fnode = crate::fullnode::FullNode::new(key(9), node_cfg(w), io.clone(), crate::seams::ManualClock::new(5_000_000));
                let _ = fnode.init();
                let mut ok = true;
                for i in w.path(base.parent).into_iter().chain([sib]) {
                    ok &= deliver(&mut fnode, &w.blocks[i].bytes).is_done();
                }
                ok &= deliver(&mut fnode, &v.bytes).is_done();
                if ok {
                    if let Ok(mut r) = restart(w, fnode.io.files(), false) {
                        let o = deliver(&mut r.n, &w.blocks[ch].bytes);
                        if !o.is_done() {
                            return Some((blk.hash, acc, filt, txlist, sig_ok, format!("{} (after restart, child delivered)", o.label()), acc_fresh, None));
                        }
                        let adopted = r.n.tip().1 == w.blocks[ch].hash;
                        return Some((blk.hash, acc, filt, txlist, sig_ok, note, acc_fresh, Some(adopted)));
                    }
                }
            }
            Some((blk.hash, acc, filt, txlist, sig_ok, note, acc_fresh, None))
        });
        let mut groups: BTreeMap<Hash, Vec<(String, String, Vec<Vec<u8>>, bool)>> = BTreeMap::new();
        let mut groups_fresh: BTreeMap<Hash, Vec<(String, String, Vec<Vec<u8>>, bool)>> = BTreeMap::new();
        let mut groups_restart: BTreeMap<Hash, Vec<(String, String, Vec<Vec<u8>>, bool)>> = BTreeMap::new();
        for (v, r) in vs.iter().zip(results.into_iter()) {
            rep.evaluations += 1;
            let Some((hash, acc, filt, txlist, sig_ok, note, acc_fresh, after_restart)) = r else {
                rep.outcome("undecodable");
                continue;
            };
            rep.distinct.insert(format!("{}:{}", base.name, v.label));
            if note.starts_with("panic") || note == "stalled" {
                rep.violate(&format!("abort/{}", v.class), format!("{} {}: {}", base.name, v.label, note), json!({"base": base.name, "variant": v.label, "bytes": hex::encode(&v.bytes)}));
                continue;
            }
            if v.class == "original" && !acc {
                rep.machinery(format!("original block of {} not accepted: {}", base.name, note));
            }
            match after_restart {
                Some(true) => {
                    rep.outcome("restart-gate:variant-on-the-longest-chain");
                    if !sig_ok {
                        rep.violate(&format!("accepted-with-bad-creator-signature/{}/after-restart", v.class), format!("{} {}: stored as a side block, read back at start-up, then adopted when its child arrived", base.name, v.label), json!({"base": base.name, "variant": v.label, "bytes": hex::encode(&v.bytes)}));
                    }
                    groups_restart.entry(hash).or_default().push((v.label.clone(), v.class.clone(), txlist.clone(), filt));
                }
                Some(false) => rep.outcome("restart-gate:variant-branch-not-adopted"),
                None => {}
            }
            if acc_fresh {
                rep.outcome(if hash == orig_hash { "first-block-gate:accepted:same-hash" } else { "first-block-gate:accepted:different-hash" });
                groups_fresh.entry(hash).or_default().push((v.label.clone(), v.class.clone(), txlist.clone(), filt));
            } else {
                rep.outcome("first-block-gate:rejected");
            }
            if acc {
                rep.outcome(if hash == orig_hash { "accepted:same-hash" } else { "accepted:different-hash" });
                if hash == orig_hash {
                    rep.outcome(&format!("accepted-same-hash:{}:{}", base.name, v.label));
                }
                if !sig_ok {
                    rep.violate(&format!("accepted-with-bad-creator-signature/{}", v.class), format!("{} {}", base.name, v.label), json!({"base": base.name, "variant": v.label, "bytes": hex::encode(&v.bytes)}));
                }
                if base.parent != usize::MAX {
                    groups.entry(hash).or_default().push((v.label.clone(), v.class.clone(), txlist, filt));
                }
            } else {
                if std::env::var("VERIF_C06_DEBUG").is_ok() {
                    eprintln!("rejected {} {} same_hash={} note={}", base.name, v.label, hash == orig_hash, note);
                }
                rep.outcome(if hash == orig_hash { "rejected:same-hash" } else { "rejected:different-hash" });
            }
        }
        for (h, g) in groups.iter() {
            let first = &g[0];
            for other in g.iter().skip(1) {
                if other.2 != first.2 {
                    rep.violate(
                        &format!("same-hash-different-txs/{}", other.1),
                        format!("{}: variants '{}' and '{}' are both accepted under hash {} with different transaction lists (verify_block filter passed: {})", base.name, first.0, other.0, hx(h), other.3),
                        json!({"base": base.name, "a": first.0, "b": other.0}),
                    );
                }
            }
        }
        for (h, g) in groups_restart.iter() {
            // the original is in the group (it is a variant too): everything adopted under its hash
            // must carry its transaction list
            let Some(first) = g.iter().find(|x| x.1 == "original") else {
                rep.machinery(format!("{}: the original was not adopted through the restart gate", base.name));
                continue;
            };
            for other in g.iter().filter(|x| x.1 != "original") {
                if other.2 != first.2 {
                    rep.violate(
                        &format!("same-hash-different-txs/{}/after-restart", other.1),
                        format!("{}: variant '{}' was stored as a side block, read back at start-up and adopted under hash {} with a transaction list that differs from the original's", base.name, other.0, hx(h)),
                        json!({"base": base.name, "a": first.0, "b": other.0}),
                    );
                }
            }
        }
        for (h, g) in groups_fresh.iter() {
            let first = &g[0];
            for other in g.iter().skip(1) {
                if other.2 != first.2 {
                    rep.violate_inst(
                        &format!("same-hash-different-txs/first-block-of-an-empty-node/{}", other.1),
                        &format!("{}|{}|{}", base.name, first.0, other.0),
                        format!("{}: an empty node accepts '{}' and '{}' as its first block under hash {} with different transaction lists", base.name, first.0, other.0, hx(h)),
                        json!({"base": base.name, "a": first.0, "b": other.0}),
                    );
                }
            }
        }
        rep.traces_validated += 1;
        if rep.samples.len() < 3 {
            rep.sample(json!({"base": base.name, "variants": vs.iter().take(12).map(|v| v.label.clone()).collect::<Vec<_>>(), "total_variants": vs.len()}));
        }
    }
    rep.finish()
}

/// s -> n - s on the second half of a compact secp256k1 signature (n = group order), big endian
fn mirror_s(sig: &mut [u8; 64]) {
    const N: [u8; 32] = [
        0xFF, 0xFF, 0xFF, 0xFF, 0xFF, 0xFF, 0xFF, 0xFF, 0xFF, 0xFF, 0xFF, 0xFF, 0xFF, 0xFF, 0xFF, 0xFE, 0xBA, 0xAE, 0xDC, 0xE6, 0xAF, 0x48, 0xA0, 0x3B, 0xBF, 0xD2, 0x5E, 0x8C, 0xD0, 0x36, 0x41, 0x41,
    ];
    let mut borrow = 0i16;
    for i in (0..32).rev() {
        let d = N[i] as i16 - sig[32 + i] as i16 - borrow;
        if d < 0 {
            sig[32 + i] = (d + 256) as u8;
            borrow = 1;
        } else {
            sig[32 + i] = d as u8;
            borrow = 0;
        }
    }
}
