//! C20 — shared locks are taken in the documented global order.
//!
//! Model side: `lockx` (separate crate, syn) extracts every lock acquisition of the four crates,
//! guard lifetimes and an over-approximate call graph, and explores every reachable
//! (function, held-lock-set) state; this module reads its result, applies the rule and the
//! exemptions, and binds the model to the code: the real handlers are run with the recording lock
//! shim (hook H1) and every acquisition they perform must be a state the model contains.

use std::collections::{BTreeMap, BTreeSet};

use saito_core::core::verif_lock::{trace_start, trace_take, LockEvent};
use serde_json::{json, Value};

use crate::props::{c11, c15};
use crate::report::{Report, Tier};

fn rank_name(r: u8) -> &'static str {
    match r {
        3 => "config",
        4 => "blockchain",
        5 => "mempool",
        6 => "peers",
        7 => "wallet",
        _ => "other",
    }
}

fn rank_of_name(n: &str) -> Option<u8> {
    match n {
        "config" => Some(3),
        "blockchain" => Some(4),
        "mempool" => Some(5),
        "peers" => Some(6),
        "wallet" => Some(7),
        _ => None,
    }
}

fn rel(file: &str) -> Option<String> {
    for c in ["saito-core/src", "saito-rust/src", "saito-spammer/src", "saito-wasm/src"] {
        if let Some(i) = file.find(c) {
            return Some(file[i..].to_string());
        }
    }
    None
}

/// run the real handlers under the recording shim
fn collect_traces(rep: &mut Report) -> Vec<LockEvent> {
    let mut all: Vec<LockEvent> = vec![];
    // (1) the C11 world: honest script in the default order, each hostile symbol once
    match c11::universe() {
        Ok(u) => {
            let alpha = c11::alphabet();
            let mut hists: Vec<Vec<c11::Ev>> = vec![];
            let base = |n: usize| -> Vec<c11::Ev> { (0..n).map(|_| c11::Ev::Honest).collect() };
            hists.push(vec![]);
            for (i, h) in alpha.iter().enumerate() {
                // vary the position of the hostile symbol in the script
                let mut v = base(1 + i % 5);
                v.push(c11::Ev::X(*h));
                hists.push(v);
            }
            for lite in [false, true] {
                for h in hists.iter() {
                    trace_start();
                    let mut scratch = rep.child();
                    if let Ok(mut s) = c11::start(&u, lite) {
                        let mut hist = vec![];
                        for ev in h.iter() {
                            hist.push(*ev);
                            let _ = c11::apply(&u, &mut s, *ev, &mut scratch, &hist);
                            // default schedule: run internal channels to quiescence
                            for _ in 0..50 {
                                let Some(c) = s.n.pending().first().cloned() else { break };
                                let e = c11::Ev::Int(c);
                                hist.push(e);
                                if c11::apply(&u, &mut s, e, &mut scratch, &hist) != Some(true) {
                                    break;
                                }
                            }
                        }
                        // finish the honest script
                        for _ in 0..40 {
                            let e = if let Some(c) = s.n.pending().first().cloned() { c11::Ev::Int(c) } else { c11::Ev::Honest };
                            hist.push(e);
                            if c11::apply(&u, &mut s, e, &mut scratch, &hist) != Some(true) {
                                break;
                            }
                        }
                    }
                    all.extend(trace_take());
                    rep.traces_validated += 1;
                }
            }
        }
        Err(e) => rep.machinery(format!("c11 universe: {}", e)),
    }
    // (1b) handler entry points the scripts above do not reach: statistics ticks, stun peers,
    // key list, batched transactions, a mined golden ticket, the genesis producer
    if let Ok(u) = c11::universe() {
        use saito_core::core::consensus::golden_ticket::GoldenTicket;
        use saito_core::core::consensus_thread::ConsensusEvent;
        use saito_core::core::io::network_event::NetworkEvent;
        use saito_core::core::process::process_event::ProcessEvent;
        use saito_core::core::verification_thread::VerifyRequest;
        trace_start();
        if let Ok(mut s) = c11::start(&u, false) {
            let n = &mut s.n;
            {
                let r = &mut n.routing;
                let _ = crate::exec::run(async { r.on_stat_interval(10_000_000).await });
                let c = &mut n.consensus;
                let _ = crate::exec::run(async { c.on_stat_interval(10_000_000).await });
                let v = &mut n.verification;
                let _ = crate::exec::run(async { v.on_stat_interval(10_000_000).await });
            }
            let _ = n.net(NetworkEvent::AddStunPeer { peer_index: 40, public_key: crate::seams::key(6).public });
            let _ = n.net(NetworkEvent::RemoveStunPeer { peer_index: 40 });
            {
                let r = &mut n.routing;
                let _ = crate::exec::run(async { r.set_my_key_list(vec![crate::seams::key(6).public]).await });
            }
            let mut q = std::collections::VecDeque::new();
            q.push_back(u.honest_tx.clone());
            n.q_verify.push_back(VerifyRequest::Transactions(q));
            let _ = n.settle();
            let tip = n.tip().1;
            let gt = GoldenTicket::create(tip, [7; 32], n.key.public);
            n.q_consensus.push_back(ConsensusEvent::NewGoldenTicket { golden_ticket: gt });
            n.q_consensus.push_back(ConsensusEvent::NewTransactions { transactions: vec![u.honest_tx.clone()] });
            let _ = n.settle();
            let _ = n.tick_consensus(200_000);
            let _ = n.settle();
            let _ = n.tick_routing(6_000);
        }
        all.extend(trace_take());
        rep.traces_validated += 1;
        // a node that produces the genesis block itself
        trace_start();
        {
            let cfg = crate::seams::Cfg::new(10, crate::factory::HEARTBEAT);
            let mut n = crate::fullnode::FullNode::new(crate::seams::key(9), cfg, crate::seams::MemIO::new(), crate::seams::ManualClock::new(10_000_000));
            n.consensus.produce_blocks_by_timer = true;
            let _ = n.init();
            let _ = n.tick_consensus(200_000);
            let _ = n.settle();
            let _ = n.tick_consensus(200_000);
        }
        all.extend(trace_take());
        rep.traces_validated += 1;
    }
    // (1c) growth past the purge horizon, a reorganisation, then a restart from disk
    if let Ok(tw) = crate::props::c03::build_tree(3, 8, &[0, 0, 2], None) {
        trace_start();
        let w = &tw.w;
        let io = crate::seams::MemIO::new();
        let mut n = crate::fullnode::FullNode::new(crate::seams::key(9), crate::props::c12::node_cfg(w), io.clone(), crate::seams::ManualClock::new(5_000_000));
        let _ = n.init();
        for &wi in tw.stem.iter().chain(tw.tb.iter()) {
            let _ = crate::props::c12::deliver(&mut n, &w.blocks[wi].bytes);
        }
        let _ = crate::props::c12::restart(w, io.files(), true);
        all.extend(trace_take());
        rep.traces_validated += 1;
    }
    // (2) two-node synchronisation in the default order
    match c15::Forest::build(14) {
        Ok(f) => {
            let mut block_of = BTreeMap::new();
            for (i, b) in f.trunk.iter().enumerate() {
                block_of.insert(f.trunk_hash[i], b.clone());
            }
            for (p, v) in f.branch.iter().enumerate() {
                for (j, b) in v.iter().enumerate() {
                    block_of.insert(f.branch_hash[p][j], b.clone());
                }
            }
            for (ca, cb) in [((0usize, 0usize), (3usize, 0usize)), ((2, 1), (5, 0)), ((4, 0), (12, 0)), ((0, 2), (4, 0))] {
                trace_start();
                if let Ok(mut net) = c15::start(&f, ca, cb, &block_of) {
                    let mut scratch = rep.child();
                    let case = json!({});
                    let mut hist = vec![];
                    for _ in 0..3000 {
                        let en = c15::enabled(&net, 3);
                        let Some(ev) = en.first().cloned() else { break };
                        hist.push(ev);
                        if !c15::apply(&mut net, ev, &block_of, &mut scratch, &hist, &case) {
                            break;
                        }
                    }
                }
                all.extend(trace_take());
                rep.traces_validated += 1;
            }
        }
        Err(e) => rep.machinery(format!("c15 forest: {}", e)),
    }
    all
}

pub fn main(tier: Tier, _replay: Option<String>) -> i32 {
    let mut rep = Report::new("C20", tier.clone(), "model_checking");
    let path = std::env::var("LOCKX_JSON").unwrap_or_else(|_| "/verif/lockx/out.json".to_string());
    let txt = match std::fs::read_to_string(&path) {
        Ok(t) => t,
        Err(e) => {
            rep.machinery(format!("lockx result {} not readable: {}", path, e));
            return rep.finish();
        }
    };
    let lx: Value = match serde_json::from_str(&txt) {
        Ok(v) => v,
        Err(e) => {
            rep.machinery(format!("lockx result does not parse: {}", e));
            return rep.finish();
        }
    };
    rep.rule = "model: every reachable (function, held-lock-set) state of the lock automata extracted from the source of saito-core, saito-rust, saito-spammer and saito-wasm (guard lifetimes by Rust's drop rules, path-wise through branches and up to two loop iterations, calls followed context-sensitively); rule checked in every state; binding: every acquisition the real handlers perform under the recording shim must be a state of the model".into();
    rep.assumptions = vec![
        "guards are released where Rust drops them: explicit drop(), end of the binding's block, end of the statement for temporaries (whole if-let / match for scrutinee temporaries)".into(),
        "calls through an unknown receiver are followed to every method of that name and marked unconfirmed: an inversion that needs such a link is listed, not alarmed, unless the shim witnesses it".into(),
        "branch conditions are not interpreted (a path through two correlated branches is assumed feasible)".into(),
        "saito-wasm: an inversion is tolerated where the global SAITO mutex is held (the property's gate)".into(),
    ];
    // ---- completeness gates
    let g = |k: &str| lx[k].as_u64().unwrap_or(0);
    let arr = |k: &str| lx[k].as_array().cloned().unwrap_or_default();
    if !arr("parse_errors").is_empty() {
        rep.machinery(format!("lockx could not parse: {:?}", arr("parse_errors")));
    }
    if !arr("unclassified").is_empty() {
        rep.machinery(format!("lockx could not classify {} acquisition site(s): {}", arr("unclassified").len(), serde_json::to_string(&arr("unclassified")).unwrap_or_default()));
    }
    if !arr("unparsed_macro_sites").is_empty() {
        rep.machinery(format!("acquisitions inside macro arguments lockx could not parse: {}", serde_json::to_string(&arr("unparsed_macro_sites")).unwrap_or_default()));
    }
    if g("sites_classified") < g("sites_raw") || g("sites_raw") == 0 {
        rep.machinery(format!("completeness gate: {} textual acquisition sites, {} classified", g("sites_raw"), g("sites_classified")));
    }
    if g("path_state_caps_hit") > 0 {
        rep.exhaustive = false;
        rep.extra.insert("path_state_caps_hit".into(), json!(g("path_state_caps_hit")));
    }
    rep.states = g("states");
    rep.transitions = g("transitions");
    rep.evaluations = g("sites_classified");
    rep.bounds = json!({
        "files_parsed": g("files_parsed"), "functions": g("functions"), "acquisition_sites": g("sites_classified"), "sites_classified_by_declared_type": lx["sites"].as_array().map(|a| a.iter().filter(|s| s["by"] == "type").count()).unwrap_or(0),
        "loop_iterations": 2, "path_states_per_point_cap": 64,
    });
    // ---- static verdict
    let sites = arr("sites");
    // pair -> list of (held-set) at which one is acquired while the other is held (both directions)
    let mut pair_contexts: BTreeMap<(String, String), Vec<BTreeSet<String>>> = BTreeMap::new();
    for s in sites.iter() {
        let lock = s["lock"].as_str().unwrap_or("").to_string();
        for hs in s["held_sets"].as_array().cloned().unwrap_or_default() {
            let hs: BTreeSet<String> = hs.as_array().map(|a| a.iter().filter_map(|x| x.as_str().map(|y| y.to_string())).collect()).unwrap_or_default();
            for h in hs.iter() {
                let hn = h.split(':').next().unwrap_or("").to_string();
                if rank_of_name(&hn).is_some() && rank_of_name(&lock).is_some() && hn != lock {
                    let key = if hn < lock { (hn.clone(), lock.clone()) } else { (lock.clone(), hn.clone()) };
                    pair_contexts.entry(key).or_default().push(hs.clone());
                }
            }
        }
    }
    let common_outer = |a: &str, b: &str| -> Option<String> {
        let key = if a < b { (a.to_string(), b.to_string()) } else { (b.to_string(), a.to_string()) };
        let ctxs = pair_contexts.get(&key)?;
        let mut common: Option<BTreeSet<String>> = None;
        for c in ctxs {
            let outer: BTreeSet<String> = c.iter().filter(|x| x.ends_with(":w") && !x.starts_with(a) && !x.starts_with(b)).cloned().collect();
            common = Some(match common {
                None => outer,
                Some(p) => p.intersection(&outer).cloned().collect(),
            });
        }
        common.and_then(|c| c.into_iter().next())
    };
    let mut seen_keys: BTreeSet<String> = BTreeSet::new();
    let mut unconfirmed: Vec<Value> = vec![];
    for f in arr("findings") {
        let class = f["class"].as_str().unwrap_or("");
        let precise = f["precise"].as_bool().unwrap_or(false);
        let krate = f["crate"].as_str().unwrap_or("");
        let held = f["held"].as_str().unwrap_or("");
        let acq = f["acquired"]["lock"].as_str().unwrap_or("");
        let file = f["acquired"]["file"].as_str().unwrap_or("");
        let func = f["acquired"]["fn"].as_str().unwrap_or("");
        let all_held: Vec<String> = f["all_held"].as_array().map(|a| a.iter().filter_map(|x| x.as_str().map(|s| s.to_string())).collect()).unwrap_or_default();
        if class == "reacquire-read" {
            // a second read guard blocks behind a queued writer (the lock is fair): a deadlock risk
            // only in a binary in which some task takes this lock for writing
            let writers = sites.iter().any(|s| s["lock"] == acq && s["mode"] == "write" && {
                let f = s["file"].as_str().unwrap_or("");
                f.starts_with("saito-core/") || f.starts_with(&format!("{}/", krate))
            });
            if !precise {
                rep.outcome("listed:reacquire-read-through-unconfirmed-call");
            } else if krate == "saito-wasm" && all_held.iter().any(|h| h == "SAITO:w") {
                rep.outcome("wasm:reacquire-read-under-global-mutex");
            } else if !writers {
                rep.outcome("exempt:reacquire-read-of-a-lock-nobody-writes-in-that-binary");
            } else {
                let k = format!("read-guard-taken-twice/{}/{}:{}", acq, file, func);
                if seen_keys.insert(k.clone()) {
                    rep.violate(&k, format!("{} is read-locked at {}:{} while the same task already holds a read guard on it; a writer queued in between blocks the second request forever", acq, file, f["acquired"]["line"]), f.clone());
                }
            }
            continue;
        }
        if class != "inversion" {
            if precise && class == "reacquire" {
                let k = format!("self-deadlock/{}/{}:{}", acq, file, func);
                if seen_keys.insert(k.clone()) {
                    if all_held.iter().any(|h| h == "SAITO:w") && krate == "saito-wasm" {
                        rep.outcome("wasm:reacquire-under-global-mutex");
                    }
                    rep.violate(&k, format!("{} is requested again ({}) while the same task already holds it ({}), at {}:{}", acq, f["acquired"]["mode"], f["held_mode"], file, f["acquired"]["line"]), f.clone());
                }
            } else {
                rep.outcome("listed:reacquire-through-unconfirmed-call");
            }
            continue;
        }
        if !precise {
            rep.outcome("listed:inversion-through-unconfirmed-call");
            unconfirmed.push(json!({"key": f["key"], "chain": f["chain"], "root": f["root"]}));
            continue;
        }
        if krate == "saito-wasm" {
            if all_held.iter().any(|h| h == "SAITO:w") {
                rep.outcome("wasm:inversion-under-global-mutex");
                continue;
            }
            let k = format!("wasm-inversion-without-global-mutex/{}->{}/{}:{}", held, acq, file, func);
            if seen_keys.insert(k.clone()) {
                rep.violate(&k, format!("{} requested while {} is held and the SAITO mutex is not, at {}:{}", acq, held, file, f["acquired"]["line"]), f.clone());
            }
            continue;
        }
        if let Some(o) = common_outer(held, acq) {
            rep.outcome(&format!("exempt:serialised-by-{}", o));
            continue;
        }
        let via = f["chain"].as_array().and_then(|c| c.last()).and_then(|x| x.as_str()).unwrap_or("").split(' ').next().unwrap_or("").to_string();
        let k = format!("inversion/{}->{}/{}:{}{}", held, acq, file, func, if via.is_empty() { String::new() } else { format!("/called-from:{}", via) });
        if seen_keys.insert(k.clone()) {
            rep.violate(
                &k,
                format!("{} ({}) is requested at {}:{} in {} while {} is held (held since {}); call chain from {}: {:?}", acq, f["acquired"]["mode"], file, f["acquired"]["line"], func, held, f["held_site"], f["root"], f["chain"]),
                f.clone(),
            );
        }
    }
    rep.extra.insert("unconfirmed_inversions".into(), json!(unconfirmed));
    // wasm gate: code reachable from wasm entry points that nests shared locks must hold SAITO
    let mut ungated_nested = 0;
    for u in arr("wasm_ungated") {
        let held: Vec<String> = u["held"].as_array().map(|a| a.iter().filter_map(|x| x.as_str().map(|s| s.to_string())).collect()).unwrap_or_default();
        if held.iter().any(|h| rank_of_name(h.split(':').next().unwrap_or("")).is_some()) {
            ungated_nested += 1;
            let k = format!("wasm-nested-acquisition-without-global-mutex/{}:{}", u["file"].as_str().unwrap_or(""), u["lock"].as_str().unwrap_or(""));
            if seen_keys.insert(k.clone()) {
                // only a violation if it is an inversion; nesting in order is allowed everywhere
                let acq = u["lock"].as_str().unwrap_or("");
                let inv = held.iter().any(|h| rank_of_name(h.split(':').next().unwrap_or("")).unwrap_or(0) > rank_of_name(acq).unwrap_or(99));
                if inv {
                    rep.violate(&k, format!("{} requested at {}:{} while {:?} held, without the SAITO mutex", acq, u["file"], u["line"], held), u.clone());
                }
            }
        } else {
            rep.outcome("wasm:single-lock-accessor-without-global-mutex");
        }
    }
    rep.outcome_n("wasm:nested-acquisitions-without-global-mutex", ungated_nested);
    // ---- binding: dynamic traces
    let mut static_sites: BTreeMap<(String, u64), &Value> = BTreeMap::new();
    for s in sites.iter() {
        static_sites.insert((s["file"].as_str().unwrap_or("").to_string(), s["line"].as_u64().unwrap_or(0)), s);
    }
    let events = collect_traces(&mut rep);
    rep.outcome_n("shim:acquisitions-recorded", events.len() as u64);
    let mut distinct: BTreeSet<(String, u32, u8, bool, Vec<(u8, bool)>)> = BTreeSet::new();
    for e in events.iter() {
        let Some(file) = rel(e.file) else { continue };
        let mut held: Vec<(u8, bool)> = e.held.iter().filter(|h| rel(h.2).is_some() && h.0 != 0).map(|h| (h.0, h.1)).collect();
        held.sort();
        held.dedup();
        distinct.insert((file, e.line, e.rank, e.write, held));
    }
    rep.outcome_n("shim:distinct-site-states", distinct.len() as u64);
    let mut dyn_sites: BTreeSet<(String, u32)> = BTreeSet::new();
    let mut gaps: Vec<String> = vec![];
    for (file, line, rank, write, held) in distinct.iter() {
        dyn_sites.insert((file.clone(), *line));
        // witnessed inversion?
        for (hr, _) in held.iter() {
            if *hr > *rank && *rank != 0 {
                let k = format!("witnessed-inversion/{}->{}/{}", rank_name(*hr), rank_name(*rank), file);
                if seen_keys.insert(format!("{}:{}", k, line)) {
                    rep.violate(&k, format!("the running handlers requested {} at {}:{} while holding {}", rank_name(*rank), file, line, rank_name(*hr)), json!({"file": file, "line": line, "held": held.iter().map(|h| rank_name(h.0)).collect::<Vec<_>>()}));
                }
            }
        }
        let Some(s) = static_sites.get(&(file.clone(), *line as u64)) else {
            gaps.push(format!("{}:{} ({} {}) was executed but is not an extracted site", file, line, rank_name(*rank), if *write { "write" } else { "read" }));
            continue;
        };
        let s_rank = rank_of_name(s["lock"].as_str().unwrap_or("")).unwrap_or(0);
        if s_rank != *rank || (s["mode"] == "write") != *write {
            gaps.push(format!("{}:{} extracted as {} {} but executed as {} {}", file, line, s["lock"], s["mode"], rank_name(*rank), if *write { "write" } else { "read" }));
            continue;
        }
        let want: BTreeSet<String> = held.iter().map(|(r, w)| format!("{}{}", rank_name(*r), if *w { ":w" } else { ":r" })).collect();
        let ok = s["held_sets"].as_array().map(|a| {
            a.iter().any(|hs| {
                let hs: BTreeSet<String> = hs.as_array().map(|x| x.iter().filter_map(|y| y.as_str()).filter(|y| rank_of_name(y.split(':').next().unwrap_or("")).is_some()).map(|y| y.to_string()).collect()).unwrap_or_default();
                hs == want
            })
        });
        if ok != Some(true) {
            gaps.push(format!("{}:{} executed while holding {:?}; the model only has {}", file, line, want, s["held_sets"]));
        } else {
            rep.outcome("binding:executed-state-is-a-model-state");
        }
    }
    rep.outcome_n("binding:sites-executed", dyn_sites.len() as u64);
    let not_executed: Vec<String> = sites
        .iter()
        .filter(|s| s["file"].as_str().map(|f| f.starts_with("saito-core")).unwrap_or(false))
        .filter(|s| !dyn_sites.contains(&(s["file"].as_str().unwrap_or("").to_string(), s["line"].as_u64().unwrap_or(0) as u32)))
        .map(|s| format!("{}:{} {}", s["file"].as_str().unwrap_or(""), s["line"], s["fn"].as_str().unwrap_or("")))
        .collect();
    rep.extra.insert("saito_core_sites_not_executed_by_the_binding_worlds".into(), json!(not_executed));
    rep.extra.insert("sites_executed_of_extracted".into(), json!(format!("{} of {}", dyn_sites.len(), sites.iter().filter(|s| s["file"].as_str().map(|f| f.starts_with("saito-core")).unwrap_or(false)).count())));
    if !gaps.is_empty() {
        gaps.sort();
        gaps.dedup();
        rep.machinery(format!("the extracted model does not contain {} executed state(s): {}", gaps.len(), gaps.join(" | ")));
    }
    if events.is_empty() {
        rep.machinery("the recording shim saw no acquisition: hook H1 is not active".into());
    }
    rep.distinct = distinct.iter().map(|d| format!("{}:{}:{:?}", d.0, d.1, d.4)).collect();
    rep.sample(json!({"site": "saito-core/src/core/io/network.rs", "rule": "no acquisition while a later lock is held"}));
    rep.required_outcomes = vec!["binding:executed-state-is-a-model-state".into(), "shim:acquisitions-recorded".into()];
    rep.finish()
}
