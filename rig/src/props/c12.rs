//! C12 — restart rebuilds the same ledger; a crash at any storage step is survivable.
//!
//! A real FullNode receives the blocks of a small block tree (growth past the pruning horizon,
//! forks, reorganisations) through its consensus handler while the in-memory device journals
//! every storage operation.  For EVERY prefix of that journal, and for the operation at the cut
//! every torn form a create+write_all device can leave, a fresh FullNode is started on the
//! crashed image with the real ConsensusThread::on_init and examined.

use std::collections::{BTreeMap, BTreeSet};

use saito_core::core::consensus_thread::ConsensusEvent;
use serde_json::json;

use crate::exec::Outcome;
use crate::factory::World;
use crate::fullnode::{Chan, FullNode};
use crate::node::*;
use crate::props::c03::{build_tree, shapes, TreeWorld};
use crate::report::{par_map, workers, Report, Tier};
use crate::seams::{key, Cfg, JournalOp, ManualClock, MemIO, BLOCK_DIR};

const HEADER: usize = 389;

pub fn node_cfg(w: &World) -> Cfg {
    let mut c = w.cfg.clone();
    // saito-rust never sets this flag: the node always runs (and restarts) in loading mode
    c.blockchain.initial_loading_completed = false;
    c
}

pub fn deliver(n: &mut FullNode, bytes: &[u8]) -> Outcome<()> {
    let block = decode_block(bytes);
    n.q_consensus.push_back(ConsensusEvent::BlockFetched { peer_index: 1, block });
    let r = n.step(Chan::Consensus).unwrap_or(Outcome::Done(()));
    n.q_routing.clear();
    n.io.take_outbox();
    r
}

pub struct History {
    pub tw: TreeWorld,
    /// world indices in delivery order
    pub order: Vec<usize>,
    pub journal: Vec<JournalOp>,
    /// journal length after each delivery
    pub marks: Vec<usize>,
    /// tip (world index) after each delivery
    pub tips: Vec<Option<usize>>,
    pub label: String,
}

fn record(tw: TreeWorld, order: Vec<usize>, label: String) -> Result<History, String> {
    let w = &tw.w;
    let io = MemIO::new();
    io.enable_journal(true);
    let mut n = FullNode::new(key(9), node_cfg(w), io.clone(), ManualClock::new(5_000_000));
    if !n.init().is_done() {
        return Err("init".into());
    }
    let mut marks = vec![];
    let mut tips = vec![];
    for &wi in order.iter() {
        match deliver(&mut n, &w.blocks[wi].bytes) {
            Outcome::Done(()) => {}
            o => return Err(format!("pre-crash delivery of {} failed: {}", w.blocks[wi].label, o.label())),
        }
        marks.push(io.journal().len());
        tips.push(w.index_of(&n.tip().1));
    }
    let journal = io.journal();
    Ok(History { tw, order, journal, marks, tips, label })
}

/// torn forms of a write of `data`: (name, content or None for "file absent")
fn torn_forms(data: &[u8]) -> Vec<(&'static str, Option<Vec<u8>>)> {
    let mut v: Vec<(&'static str, Option<Vec<u8>>)> = vec![("absent", None), ("empty", Some(vec![]))];
    let len = data.len();
    let mut cut = |name: &'static str, at: usize| {
        if at > 0 && at < len {
            v.push((name, Some(data[..at].to_vec())));
        }
    };
    cut("inside-header", 100);
    cut("header-minus-1", HEADER - 1);
    cut("exactly-header", HEADER);
    cut("inside-first-tx-length", HEADER + 3);
    cut("after-tx-lengths", HEADER + 16);
    cut("inside-first-tx", HEADER + 60);
    cut("half", len / 2);
    cut("all-but-last-byte", len - 1);
    v.push(("complete", Some(data.to_vec())));
    v
}

fn image_at(journal: &[JournalOp], k: usize) -> BTreeMap<String, Vec<u8>> {
    let mut files: BTreeMap<String, Vec<u8>> = BTreeMap::new();
    for op in journal[..k].iter() {
        match op {
            JournalOp::Write { key, data } => {
                files.insert(key.clone(), data.clone());
            }
            JournalOp::Append { key, data } => files.entry(key.clone()).or_default().extend_from_slice(data),
            JournalOp::Remove { key } => {
                files.remove(key);
            }
            JournalOp::SaveWallet { data } => {
                files.insert(crate::seams::WALLET_FILE.to_string(), data.clone());
            }
        }
    }
    files
}

pub struct Restarted {
    pub n: FullNode,
}

pub fn restart(w: &World, image: BTreeMap<String, Vec<u8>>, delete_old: bool) -> Result<Restarted, String> {
    let io = MemIO::with_files(image);
    let mut n = FullNode::new(key(9), node_cfg(w), io, ManualClock::new(6_000_000));
    n.consensus.delete_old_blocks = delete_old;
    match n.init() {
        Outcome::Done(()) => Ok(Restarted { n }),
        o => Err(o.label()),
    }
}

fn supply(w: &World, o: &Obs, tip: usize, g: u64) -> Result<(), String> {
    let lo = o.tip_id.saturating_sub(g);
    let utxo: u128 = w.ledgers[tip].total_u128(lo);
    let (t, gr, un, fe) = o.reservoirs;
    let total = utxo + t as u128 + gr as u128 + un as u128 + fe as u128;
    if total != w.initial_supply {
        Err(format!("in-window outputs {} + treasury {} + graveyard {} + unpaid {} + fees {} = {} but {} were issued", utxo, t, gr, un, fe, total, w.initial_supply))
    } else {
        Ok(())
    }
}

/// examine one restarted node; `allowed` = world indices the tip may be; `k` journal cut
#[allow(clippy::too_many_arguments)]
fn examine(h: &History, r: &mut Restarted, allowed: &BTreeSet<usize>, rep: &mut Report, keyp: &str, case: &serde_json::Value, clean: Option<(&Obs, usize)>) {
    let w = &h.tw.w;
    let g = w.cfg.consensus.genesis_period;
    let o = r.n.obs();
    // (1) tip
    if o.tip_id == 0 && o.tip_hash == [0; 32] {
        rep.outcome("restart:empty-chain");
        rep.distinct.insert(format!("{}:empty", h.label));
        if !allowed.is_empty() && clean.is_some() {
            rep.violate(&format!("{}/clean-restart-lost-the-chain", keyp), "after a clean shutdown the restarted node has no chain".into(), case.clone());
        }
        // an empty node is a valid (if useless) state for a crash before the first file is complete;
        // it must still be able to start a chain from the first block
        return;
    }
    let Some(t) = w.index_of(&o.tip_hash) else {
        rep.violate(&format!("{}/tip-unknown", keyp), format!("restarted tip {}:{} is not a delivered block", o.tip_id, hx(&o.tip_hash[..6])), case.clone());
        return;
    };
    // distinct observed restart results: (history, restarted tip, stored blocks)
    rep.distinct.insert(format!("{}:{}:{}", h.label, w.blocks[t].label, o.blocks.len()));
    if let Some(&bad) = w.path(t).iter().find(|&&i| !w.blocks[i].valid) {
        rep.violate(&format!("{}/restarted-on-a-chain-with-an-invalid-block", keyp), format!("restarted tip {}: its ancestor {} does not validate (the running node never adopted it)", w.blocks[t].label, w.blocks[bad].label), case.clone());
    }
    if !allowed.contains(&t) {
        rep.violate(&format!("{}/tip-not-allowed", keyp), format!("restarted tip {} was neither the pre-crash tip, an ancestor of it, nor a block known before the crash", w.blocks[t].label), case.clone());
    }
    // (2) valid chain: C03 oracle on the restarted node, from the lowest height the restarted
    // chain holds; that height must leave the whole spendable window (g blocks) covered
    let lowest = o.lc_index.iter().map(|x| x.0).min().unwrap_or(0);
    if lowest > 1 && lowest > o.tip_id.saturating_sub(g) {
        rep.violate(&format!("{}/chain-shorter-than-window", keyp), format!("restarted chain starts at height {} but the tip is {} and outputs back to height {} are spendable", lowest, o.tip_id, o.tip_id.saturating_sub(g)), case.clone());
    }
    for (clause, detail) in crate::props::c03::ledger_consistency_from(w, &o, lowest.saturating_sub(1)) {
        rep.violate(&format!("{}/ledger/{}", keyp, clause), detail, case.clone());
    }
    // (3) supply
    if let Err(e) = supply(w, &o, t, g) {
        rep.violate(&format!("{}/supply", keyp), e, case.clone());
    }
    // (5) clean restart: same tip, same in-window outputs, same reservoirs
    if let Some((before, tip_before)) = clean {
        if t != tip_before {
            let sibling = w.blocks[t].id == w.blocks[tip_before].id;
            let kind = if sibling { "equal-height-competitor-chosen-by-load-order" } else { "other-tip" };
            // keyed with the history and both tips: the open finding lists exactly the histories
            // in which the later-delivered sibling was the tip and the earlier one loads first
            rep.violate_inst(&format!("{}/clean-restart-different-tip/{}", keyp, kind), &format!("{}|{}|{}|{}", h.label, case["delete_old_blocks"], w.blocks[tip_before].label, w.blocks[t].label), format!("before shutdown {} (id {}) after restart {} (id {})", w.blocks[tip_before].label, w.blocks[tip_before].id, w.blocks[t].label, w.blocks[t].id), case.clone());
            return;
        }
        let lo = o.tip_id.saturating_sub(g);
        let win = |x: &Obs| -> BTreeSet<Vec<u8>> {
            x.utxo
                .iter()
                .filter(|(k, f)| *f && saito_core::core::consensus::slip::Slip::parse_slip_from_utxokey(k).map(|s| s.block_id >= lo && s.amount > 0).unwrap_or(false))
                .map(|(k, _)| k.to_vec())
                .collect()
        };
        if win(before) != win(&o) {
            let a = win(before);
            let b = win(&o);
            rep.violate(&format!("{}/clean-restart-different-outputs", keyp), format!("{} in-window outputs before, {} after; {} lost, {} new", a.len(), b.len(), a.difference(&b).count(), b.difference(&a).count()), case.clone());
        }
        if before.reservoirs != o.reservoirs {
            rep.violate(&format!("{}/clean-restart-different-supply", keyp), format!("{:?} before, {:?} after", before.reservoirs, o.reservoirs), case.clone());
        }
    }
    // (4a) resynchronisation: peers serve again every block of the history the restarted node
    // does not hold (the lost ones included); none of that may abort the node
    {
        let have: BTreeSet<Hash> = o.blocks.iter().map(|b| b.0).collect();
        // ... within the range of heights it retains (older, pruned blocks are a separate history)
        let lowest_kept = o.blocks.iter().map(|b| b.1).min().unwrap_or(0);
        for &wi in h.order.iter() {
            if have.contains(&w.blocks[wi].hash) || w.blocks[wi].id < lowest_kept {
                continue;
            }
            match deliver(&mut r.n, &w.blocks[wi].bytes) {
                Outcome::Done(()) => {}
                ob => {
                    rep.violate(&format!("{}/abort-on-resync", keyp), format!("re-delivery of {}: {}", w.blocks[wi].label, ob.label()), case.clone());
                    return;
                }
            }
        }
        rep.outcome("restart:resynced");
    }
    let o = r.n.obs();
    let Some(t) = w.index_of(&o.tip_hash) else {
        rep.violate(&format!("{}/tip-unknown-after-resync", keyp), format!("tip {}:{}", o.tip_id, hx(&o.tip_hash[..6])), case.clone());
        return;
    };
    // (4) the chain can be extended
    let mut w2 = World { builder_cfg: None, cfg: w.cfg.clone(), creator: w.creator, blocks: w.blocks.clone(), ledgers: w.ledgers.clone(), initial_supply: w.initial_supply };
    match w2.honest_child(t, 77, "next") {
        Ok(ci) => {
            let bytes = w2.blocks[ci].bytes.clone();
            match deliver(&mut r.n, &bytes) {
                Outcome::Done(()) => {
                    if r.n.tip().1 != w2.blocks[ci].hash {
                        rep.violate(&format!("{}/cannot-extend", keyp), format!("an honest child of the restarted tip {} was not adopted (tip stays {})", w.blocks[t].label, r.n.tip().0), case.clone());
                    } else {
                        rep.outcome("restart:extended");
                        // (6) start from a non-initial state: the recovered and extended node is
                        // shut down cleanly and restarted again; it must come back on the same tip
                        let want = r.n.tip();
                        let image = r.n.io.files();
                        let delete_old = r.n.consensus.delete_old_blocks;
                        match restart(w, image, delete_old) {
                            Ok(r2) => {
                                let got = r2.n.tip();
                                if got != want {
                                    rep.violate(
                                        &format!("{}/second-restart-loses-tip", keyp),
                                        format!("after recovery the node extended its chain to {}:{}; a clean restart from its own files comes back at {}:{}", want.0, hx(&want.1[..6]), got.0, hx(&got.1[..6])),
                                        case.clone(),
                                    );
                                } else {
                                    rep.outcome("restart:second-restart-same-tip");
                                }
                            }
                            Err(e) => rep.violate(&format!("{}/second-restart-aborts", keyp), e, case.clone()),
                        }
                    }
                }
                o => rep.violate(&format!("{}/abort-on-extend", keyp), o.label(), case.clone()),
            }
        }
        Err(e) => rep.machinery(format!("cannot build a child of {}: {}", w.blocks[t].label, e)),
    }
}

fn crash_sweep(h: &History, rep: &mut Report, nested: bool) {
    let w = &h.tw.w;
    let before_clean = {
        // state before shutdown for the uncut journal
        let io = MemIO::new();
        let mut n = FullNode::new(key(9), node_cfg(w), io, ManualClock::new(5_000_000));
        let _ = n.init();
        for &wi in h.order.iter() {
            let _ = deliver(&mut n, &w.blocks[wi].bytes);
        }
        (n.obs(), w.index_of(&n.tip().1))
    };
    for k in 0..=h.journal.len() {
        // deliveries completed before op k was issued / the delivery in progress
        let done = h.marks.iter().filter(|&&m| m <= k).count();
        let in_progress = if done < h.order.len() { Some(h.order[done]) } else { None };
        let mut allowed: BTreeSet<usize> = BTreeSet::new();
        for &wi in h.order[..done].iter() {
            allowed.insert(wi);
        }
        if let Some(wi) = in_progress {
            allowed.insert(wi);
        }
        // ancestors of anything known are known
        let known: Vec<usize> = allowed.iter().cloned().collect();
        for wi in known {
            for a in w.path(wi) {
                allowed.insert(a);
            }
        }
        let forms: Vec<(&'static str, Option<Vec<u8>>, Option<String>)> = if k < h.journal.len() {
            match &h.journal[k] {
                JournalOp::Write { key, data } if key.starts_with(BLOCK_DIR) => torn_forms(data).into_iter().filter(|f| f.0 != "complete").map(|(n, c)| (n, c, Some(key.clone()))).collect(),
                JournalOp::Write { key, data } => vec![("absent", None, Some(key.clone())), ("half", Some(data[..data.len() / 2].to_vec()), Some(key.clone()))],
                _ => vec![("between-operations", None, None)],
            }
        } else {
            vec![("clean-shutdown", None, None)]
        };
        for (form, content, fkey) in forms {
            for delete_old in [true, false] {
                rep.evaluations += 1;
                let mut image = image_at(&h.journal, k);
                if let (Some(c), Some(fk)) = (&content, &fkey) {
                    image.insert(fk.clone(), c.clone());
                }
                let op_desc = if k < h.journal.len() {
                    match &h.journal[k] {
                        JournalOp::Write { key, data } => format!("write {} ({} bytes)", key.rsplit('/').next().unwrap_or(""), data.len()),
                        JournalOp::Remove { key } => format!("remove {}", key.rsplit('/').next().unwrap_or("")),
                        JournalOp::Append { key, .. } => format!("append {}", key),
                        JournalOp::SaveWallet { .. } => "save wallet".to_string(),
                    }
                } else {
                    "end".to_string()
                };
                let case = json!({"history": h.label, "journal_ops": h.journal.len(), "cut_before_op": k, "op": op_desc, "form": form, "delete_old_blocks": delete_old,
                    "delivered": h.order[..done].iter().map(|&i| w.blocks[i].label.clone()).collect::<Vec<_>>(), "in_progress": in_progress.map(|i| w.blocks[i].label.clone())});
                let keyp = format!("{}{}", if k == h.journal.len() { "clean" } else { "crash" }, if form == "between-operations" || form == "clean-shutdown" { String::new() } else { format!("/torn:{}", form) });
                let mut r = match restart(w, image.clone(), delete_old) {
                    Ok(r) => r,
                    Err(e) => {
                        rep.violate(&format!("{}/restart-aborts", keyp), format!("ConsensusThread::on_init on the crashed image: {}", e), case.clone());
                        continue;
                    }
                };
                rep.traces_validated += 1;
                let clean = if k == h.journal.len() { before_clean.1.map(|t| (&before_clean.0, t)) } else { None };
                // nested crash: the recovery itself writes (deletes); crash it at every point too
                let recovery_journal: Vec<JournalOp> = vec![];
                let _ = recovery_journal;
                examine(h, &mut r, &allowed, rep, &keyp, &case, clean);
                if nested && delete_old {
                    nested_sweep(h, &image, &allowed, rep, &case);
                }
            }
        }
    }
}

/// the loader reads the block directory in passes (1000 files per pass in the normal build; hook H5
/// lowers the pass size): a clean image restarted with passes of 1, 2 and 3 files must give the
/// node the single-pass restart gives - same tip, same chain index, same stored blocks, same
/// spendable set and reservoirs
fn batched_restart(h: &History, rep: &mut Report) {
    let w = &h.tw.w;
    let image = image_at(&h.journal, h.journal.len());
    for delete_old in [false, true] {
        saito_core::core::verif_hooks::set_load_batch(1000);
        let Ok(mut base) = restart(w, image.clone(), delete_old) else { continue };
        let bo = base.n.obs();
        let bfiles: Vec<String> = base.n.io.files().keys().cloned().collect();
        for pass in [1usize, 2, 3] {
            saito_core::core::verif_hooks::set_load_batch(pass);
            let r = restart(w, image.clone(), delete_old);
            saito_core::core::verif_hooks::set_load_batch(1000);
            let case = json!({"history": h.label, "files_per_pass": pass, "delete_old_blocks": delete_old, "block_files": image.keys().filter(|k| k.starts_with(BLOCK_DIR)).count()});
            rep.traces_validated += 1;
            match r {
                Err(e) => rep.violate("clean/passes/restart-aborts", format!("ConsensusThread::on_init loading {} file(s) per pass: {}", pass, e), case),
                Ok(mut r) => {
                    let o = r.n.obs();
                    rep.outcome(&format!("passes:{}:{}", pass, if o == bo { "same-node" } else { "different-node" }));
                    let files: Vec<String> = r.n.io.files().keys().cloned().collect();
                    if o.tip_hash != bo.tip_hash || o.tip_id != bo.tip_id {
                        rep.violate("clean/passes/tip-depends-on-pass-size", format!("loading {} file(s) per pass restarts on {}:{}, loading all in one pass on {}:{}", pass, o.tip_id, hx(&o.tip_hash[..6]), bo.tip_id, hx(&bo.tip_hash[..6])), case);
                    } else if o.lc_index != bo.lc_index || o.utxo != bo.utxo || o.reservoirs != bo.reservoirs {
                        rep.violate("clean/passes/ledger-depends-on-pass-size", format!("loading {} file(s) per pass: same tip but chain index / spendable set / reservoirs differ from the single-pass restart", pass), case);
                    } else if files != bfiles {
                        rep.violate("clean/passes/stored-files-depend-on-pass-size", format!("loading {} file(s) per pass leaves {} files, one pass leaves {}", pass, files.len(), bfiles.len()), case);
                    }
                }
            }
        }
    }
}

/// a history of its own: after the run, an archive peer serves again the blocks the node has
/// already pruned (heights at or below tip - 2g); then a clean shutdown and restart
fn pruned_redelivery(h: &History, rep: &mut Report, restart_first: bool) {
    let w = &h.tw.w;
    let io = MemIO::new();
    let mut n = FullNode::new(key(9), node_cfg(w), io.clone(), ManualClock::new(5_000_000));
    let _ = n.init();
    for &wi in h.order.iter() {
        let _ = deliver(&mut n, &w.blocks[wi].bytes);
    }
    if restart_first {
        // the same after a clean restart: the restarted node's first block has no stored parent
        match restart(w, n.io.files(), true) {
            Ok(r) => n = r.n,
            Err(_) => return,
        }
    }
    let before = n.tip();
    let o = n.obs();
    let lowest_kept = o.blocks.iter().map(|b| b.1).min().unwrap_or(0);
    let old: Vec<usize> = h.order.iter().cloned().filter(|&wi| w.blocks[wi].id < lowest_kept).collect();
    if old.is_empty() {
        return;
    }
    let case = json!({"history": h.label, "restart_before_redelivery": restart_first, "then": "blocks below the purge horizon delivered again", "redelivered": old.iter().map(|&i| w.blocks[i].label.clone()).collect::<Vec<_>>()});
    for &wi in old.iter() {
        match deliver(&mut n, &w.blocks[wi].bytes) {
            Outcome::Done(()) => {}
            ob => {
                rep.violate("pruned-redelivery/abort", format!("re-delivery of {}: {}", w.blocks[wi].label, ob.label()), case.clone());
                return;
            }
        }
    }
    rep.evaluations += 1;
    {
        // nothing below the horizon may come back: neither into the block store nor onto the disk
        // (a file that returns is never purged again and is the first thing the next start loads)
        let o2 = n.obs();
        let back: Vec<String> = o2.blocks.iter().filter(|b| !o.blocks.iter().any(|x| x.0 == b.0)).map(|b| format!("block id {}", b.1)).chain(o2.files.iter().filter(|f| !o.files.contains(f)).map(|f| format!("file {}", f.0))).collect();
        if !back.is_empty() {
            rep.violate("pruned-redelivery/stored-again", format!("after blocks below the purge horizon (lowest kept id {}) were delivered again the node holds again: {:?}", lowest_kept, back), case.clone());
            return;
        }
    }
    if n.tip() != before {
        rep.violate("pruned-redelivery/tip-moved", format!("tip {}:{} before, {}:{} after blocks below the purge horizon were delivered again", before.0, hx(&before.1[..6]), n.tip().0, hx(&n.tip().1[..6])), case.clone());
        return;
    }
    // the node keeps working: one more block on its tip
    let mut before = before;
    if let Some(t) = w.index_of(&before.1) {
        let mut w2 = World { builder_cfg: None, cfg: w.cfg.clone(), creator: w.creator, blocks: w.blocks.clone(), ledgers: w.ledgers.clone(), initial_supply: w.initial_supply };
        if let Ok(ci) = w2.honest_child(t, 78, "next") {
            let bytes = w2.blocks[ci].bytes.clone();
            let _ = deliver(&mut n, &bytes);
            if n.tip().1 != w2.blocks[ci].hash {
                rep.violate("pruned-redelivery/cannot-extend", format!("an honest child of the tip {} was not adopted", w.blocks[t].label), case.clone());
                return;
            }
            before = n.tip();
        }
    }
    for delete_old in [true, false] {
        let mut c = case.clone();
        c["delete_old_blocks"] = json!(delete_old);
        match restart(w, n.io.files(), delete_old) {
            Ok(r) => {
                rep.traces_validated += 1;
                let got = r.n.tip();
                if got != before {
                    rep.violate("pruned-redelivery/restart-different-tip", format!("tip {}:{} before shutdown; after a clean restart {}:{}", before.0, hx(&before.1[..6]), got.0, hx(&got.1[..6])), c);
                } else {
                    rep.outcome("pruned-redelivery:same-tip-after-restart");
                }
            }
            Err(e) => rep.violate("pruned-redelivery/restart-aborts", e, c),
        }
    }
}

/// crash during the recovery: every prefix of the recovery's own storage operations
fn nested_sweep(h: &History, image: &BTreeMap<String, Vec<u8>>, allowed: &BTreeSet<usize>, rep: &mut Report, case: &serde_json::Value) {
    let w = &h.tw.w;
    let io = MemIO::with_files(image.clone());
    io.enable_journal(true);
    let mut n = FullNode::new(key(9), node_cfg(w), io.clone(), ManualClock::new(6_000_000));
    if !n.init().is_done() {
        return;
    }
    let j = io.journal();
    for k in 0..j.len() {
        rep.evaluations += 1;
        let mut img = image.clone();
        for op in j[..k].iter() {
            match op {
                JournalOp::Remove { key } => {
                    img.remove(key);
                }
                JournalOp::Write { key, data } => {
                    img.insert(key.clone(), data.clone());
                }
                _ => {}
            }
        }
        let mut c = case.clone();
        c["second_crash_after_recovery_ops"] = json!(k);
        match restart(w, img, true) {
            Ok(mut r) => {
                rep.traces_validated += 1;
                examine(h, &mut r, allowed, rep, "crash-during-recovery", &c, None);
            }
            Err(e) => rep.violate("crash-during-recovery/restart-aborts", e, c),
        }
    }
}

pub fn histories(tier: &Tier) -> Result<Vec<History>, String> {
    let mut out = vec![];
    let g = 3u64;
    // linear growth past the pruning horizon and the rebroadcast edge
    let stems: Vec<usize> = if tier.thorough { vec![3, 8, 10] } else { vec![8] };
    for stem in stems {
        // three further blocks: the smallest trees with a reorganisation onto a branch whose first
        // block arrived while that branch was behind
        let n_tree = 3;
        for sz in 0..=n_tree {
            for shape in shapes(sz) {
                let tw = build_tree(g, stem, &shape, None)?;
                let mut order: Vec<usize> = tw.stem.clone();
                order.extend(tw.tb.iter().cloned());
                let label = format!("g{}-stem{}-shape{:?}", g, stem, shape);
                out.push(record(tw, order, label)?);
                // the same tree with the last two tree blocks delivered in the other order
                if sz >= 2 && shape[sz - 1] != sz - 1 {
                    let tw = build_tree(g, stem, &shape, None)?;
                    let mut order: Vec<usize> = tw.stem.clone();
                    let mut t = tw.tb.clone();
                    t.swap(sz - 1, sz - 2);
                    order.extend(t);
                    let label = format!("g{}-stem{}-shape{:?}-swapped", g, stem, shape);
                    out.push(record(tw, order, label)?);
                }
            }
        }
    }
    // two branches on disk: the node followed M1..M3 and stored S1, S2 as a side branch; S's files
    // sort first at every height (earlier timestamps), so the start-up loader follows S until M3
    // arrives and then reorganises -- something the live node never did. With prune_after_blocks =
    // 1 the loader has dropped S1's transactions from memory by then.
    for prune in [8u64, 1] {
        let mut tw = build_tree(g, 8, &[0, 1, 0, 3, 4], None)?;
        tw.w.cfg.consensus.prune_after_blocks = prune;
        let mut order: Vec<usize> = tw.stem.clone();
        order.extend([tw.tb[2], tw.tb[0], tw.tb[3], tw.tb[1], tw.tb[4]]);
        let label = format!("g{}-stem8-side-branch-first-in-file-order-prune{}", g, prune);
        out.push(record(tw, order, label)?);
    }
    // a block on disk that was never examined: T2 (sibling of the tip T1) carries a creator
    // signature made with another key, its child T3 arrives first (stored parentless by the loading
    // node), then T2 itself (a side block of the tip's height: nothing is wound). The start-up
    // loader winds that branch for the first time.
    {
        let mut tw = build_tree(g, 8, &[0, 0, 2], None)?;
        let (t2, t3) = (tw.tb[1], tw.tb[2]);
        let mut forged = decode_block(&tw.w.blocks[t2].bytes);
        forged.sign(&key(7).private);
        forged.generate().map_err(|e| format!("forged block: {:?}", e))?;
        let (f2, f3) = if forged.hash == tw.w.blocks[t2].hash {
            tw.w.blocks[t2].bytes = crate::node::block_bytes(&forged);
            tw.w.blocks[t2].valid = false;
            (t2, t3)
        } else {
            let parent = tw.w.blocks[t2].parent;
            let child = decode_block(&tw.w.blocks[t3].bytes);
            let child = crate::props::c04::rebase(&tw.w, &child, forged.hash);
            let f2 = tw.w.register(forged, parent, false, "T2x".into());
            let f3 = tw.w.register(child, Some(f2), true, "T3r".into());
            (f2, f3)
        };
        let mut order: Vec<usize> = tw.stem.clone();
        order.extend([tw.tb[0], f3, f2]);
        out.push(record(tw, order, format!("g{}-stem8-unexamined-side-branch-with-forged-creator-signature", g))?);
    }
    Ok(out)
}

pub fn main(tier: Tier, _replay: Option<String>) -> i32 {
    let mut rep = Report::new("C12", tier.clone(), "fault_enumeration");
    rep.rule = "for every history, every prefix of the storage-operation journal, every torn form of the write at the cut (absent, empty, cuts at header / transaction-length / body boundaries, all but the last byte) and both settings of delete_old_blocks: restart a fresh FullNode with the real ConsensusThread::on_init on the crashed image; thorough additionally crashes the recovery at every one of its own storage operations".into();
    rep.assumptions = vec![
        "device model: write = create (truncate) + write_all, so a torn write leaves a prefix of the new content; remove is atomic; directory listing is sorted by the node itself".into(),
        "restart uses the same keys and a fresh in-memory wallet; the node runs in loading mode like saito-rust (initial_loading_completed is never set there)".into(),
        "in-memory device not cross-checked against saito-rust's RustIOHandler in this build".into(),
    ];
    let hs = match histories(&tier) {
        Ok(h) => h,
        Err(e) => {
            rep.machinery(format!("histories: {}", e));
            return rep.finish();
        }
    };
    rep.bounds = json!({"histories": hs.len(), "genesis_period": 3, "journal_ops_max": hs.iter().map(|h| h.journal.len()).max().unwrap_or(0), "torn_forms_per_block_write": 11, "nested_crash_during_recovery": tier.thorough});
    let removes: usize = hs.iter().map(|h| h.journal.iter().filter(|o| matches!(o, JournalOp::Remove { .. })).count()).sum();
    rep.outcome_n("journal:remove-operations", removes as u64);
    rep.outcome_n("journal:operations", hs.iter().map(|h| h.journal.len() as u64).sum());
    let nested = tier.thorough;
    let res = par_map(&hs, workers(), |_, h| {
        let mut r = rep.child();
        crash_sweep(h, &mut r, nested);
        batched_restart(h, &mut r);
        pruned_redelivery(h, &mut r, false);
        pruned_redelivery(h, &mut r, true);
        r.transitions += h.journal.len() as u64;
        r
    });
    for r in res {
        rep.merge(r);
    }
    rep.states = hs.len() as u64;
    rep.sample(json!({"history": hs.first().map(|h| h.label.clone()), "cut_before_op": 3, "form": "exactly-header"}));
    rep.required_outcomes = vec!["restart:extended".into(), "journal:remove-operations".into()];
    rep.finish()
}
