pub mod c03;
