pub mod c03;
pub mod c04;
pub mod c05;
