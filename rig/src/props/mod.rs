pub mod c03;
pub mod c04;
