//! Evidence, verdicts, known findings, replay artefacts, parallel helper.

use std::collections::{BTreeMap, BTreeSet};
use std::path::PathBuf;
use std::time::Instant;

use serde_json::{json, Value};

pub fn verif_dir() -> PathBuf {
    std::env::var("VERIF_DIR")
        .map(PathBuf::from)
        .unwrap_or_else(|_| PathBuf::from("/verif"))
}

#[derive(Clone, Debug)]
pub struct Violation {
    /// stable identity of the failing input / call site / history class; known findings match on it
    pub key: String,
    pub detail: String,
    pub case: Value,
}

#[derive(Clone, Debug)]
pub struct Tier {
    pub thorough: bool,
    pub seed: u64,
}
impl Tier {
    pub fn name(&self) -> &'static str {
        if self.thorough {
            "thorough"
        } else {
            "quick"
        }
    }
}

pub const MAX_VIOLATION_KEYS: usize = 4000;

pub struct Report {
    pub violation_counts: std::collections::BTreeMap<String, usize>,
    pub id: String,
    pub tier: Tier,
    pub level: &'static str,
    pub start: Instant,
    pub evaluations: u64,
    pub states: u64,
    pub transitions: u64,
    pub traces_validated: u64,
    pub distinct: BTreeSet<String>,
    pub outcomes: BTreeMap<String, u64>,
    pub samples: Vec<Value>,
    pub assumptions: Vec<String>,
    pub violations: Vec<Violation>,
    pub exhaustive: bool,
    pub bounds: Value,
    pub rule: String,
    pub extra: BTreeMap<String, Value>,
    pub machinery_errors: Vec<String>,
    /// outcome classes the harness is built to produce; a missing one is a machinery error
    pub required_outcomes: Vec<String>,
}

impl Report {
    pub fn new(id: &str, tier: Tier, level: &'static str) -> Report {
        Report {
            violation_counts: Default::default(),
            id: id.to_string(),
            tier,
            level,
            start: Instant::now(),
            evaluations: 0,
            states: 0,
            transitions: 0,
            traces_validated: 0,
            distinct: BTreeSet::new(),
            outcomes: BTreeMap::new(),
            samples: vec![],
            assumptions: vec![],
            violations: vec![],
            exhaustive: true,
            bounds: json!({}),
            rule: String::new(),
            extra: BTreeMap::new(),
            machinery_errors: vec![],
            required_outcomes: vec![],
        }
    }
    pub fn outcome(&mut self, k: &str) {
        *self.outcomes.entry(k.to_string()).or_insert(0) += 1;
    }
    pub fn outcome_n(&mut self, k: &str, n: u64) {
        *self.outcomes.entry(k.to_string()).or_insert(0) += n;
    }
    pub fn sample(&mut self, v: Value) {
        if self.samples.len() < 6 {
            self.samples.push(v);
        }
    }
    pub fn violate(&mut self, key: &str, detail: String, case: Value) {
        // keep at most a handful per key (the first is the shortest: alphabets are simplest-first)
        // and a bounded number of keys; everything is still counted in the outcomes
        let known = self.violation_counts.len();
        let n = self.violation_counts.entry(key.to_string()).or_insert(0);
        *n += 1;
        if *n <= 3 && (known < MAX_VIOLATION_KEYS || *n > 1) {
            self.violations.push(Violation {
                key: key.to_string(),
                detail,
                case,
            });
        }
        self.outcome(&format!("violation:{}", key));
    }
    /// a violation with a description of the exact instance (input / order / history); when the
    /// matching known finding lists its instances, an instance that is not listed stays a violation
    pub fn violate_inst(&mut self, key: &str, instance: &str, detail: String, case: Value) {
        let h = hex::encode(&saito_core::core::util::crypto::hash(instance.as_bytes())[..8]);
        if let Ok(path) = std::env::var("VERIF_DUMP_INSTANCES") {
            use std::io::Write;
            let _g = DUMP_LOCK.lock();
            if let Ok(mut f) = std::fs::OpenOptions::new().create(true).append(true).open(&path) {
                let _ = writeln!(f, "{}\t{}", key, h);
            }
        }
        let listed = known_findings().iter().find(|f| f.property == self.id && f.status == "open" && key.starts_with(&f.key) && f.instances.is_some()).map(|f| f.instances.as_ref().unwrap().contains(&h));
        match listed {
            Some(false) => self.violate(&format!("{}{}", key, UNLISTED), detail, case),
            _ => self.violate(key, detail, case),
        }
    }
    pub fn machinery(&mut self, msg: String) {
        self.machinery_errors.push(msg);
    }
    pub fn merge(&mut self, o: Report) {
        self.evaluations += o.evaluations;
        self.states += o.states;
        self.transitions += o.transitions;
        self.traces_validated += o.traces_validated;
        self.distinct.extend(o.distinct);
        for (k, v) in o.outcomes {
            *self.outcomes.entry(k).or_insert(0) += v;
        }
        for s in o.samples {
            self.sample(s);
        }
        for v in o.violations {
            let known = self.violation_counts.len();
            let n = self.violation_counts.entry(v.key.clone()).or_insert(0);
            *n += 1;
            if *n <= 3 && (known < MAX_VIOLATION_KEYS || *n > 1) {
                self.violations.push(v);
            }
        }
        self.exhaustive &= o.exhaustive;
        self.machinery_errors.extend(o.machinery_errors);
    }
    pub fn child(&self) -> Report {
        Report::new(&self.id, self.tier.clone(), self.level)
    }

    /// write evidence, print verdict lines, return the process exit code
    pub fn finish(mut self) -> i32 {
        for r in self.required_outcomes.clone() {
            if self.outcomes.get(&r).cloned().unwrap_or(0) == 0 {
                self.machinery
                    (format!("vacuity: outcome class '{}' was never produced by the harness", r));
            }
        }
        let findings = known_findings().clone();
        let mut unlisted: Vec<&Violation> = vec![];
        let mut known_hit: BTreeMap<String, (String, u64)> = BTreeMap::new();
        for v in self.violations.iter() {
            let m = findings.iter().find(|f| {
                f.property == self.id && f.status == "open" && v.key.starts_with(&f.key) && !v.key.ends_with(UNLISTED)
            });
            match m {
                Some(f) => {
                    let e = known_hit
                        .entry(f.key.clone())
                        .or_insert((f.what.clone(), 0));
                    e.1 += 1;
                }
                None => unlisted.push(v),
            }
        }
        let wall = self.start.elapsed().as_secs_f64();
        // replay artefacts for unlisted violations
        let mut lines = vec![];
        let rdir = verif_dir().join("replays").join(&self.id);
        let _ = std::fs::remove_dir_all(&rdir);
        if !unlisted.is_empty() {
            let _ = std::fs::create_dir_all(&rdir);
        }
        for (i, v) in unlisted.iter().enumerate() {
            let p = rdir.join(format!("{}.json", i));
            let body = json!({"property": self.id, "key": v.key, "detail": v.detail, "case": v.case});
            let _ = std::fs::write(&p, serde_json::to_string_pretty(&body).unwrap());
            lines.push(format!(
                "VIOLATION property={} replay={}",
                self.id,
                p.display()
            ));
            eprintln!("  violation key={} :: {}", v.key, v.detail);
        }
        for (k, (what, n)) in known_hit.iter() {
            println!(
                "KNOWN-FINDING: property={} {} [{}; {} instance(s) this run]",
                self.id, what, k, n
            );
        }
        let distinct_n = self.distinct.len() as u64;
        let mut cov = serde_json::Map::new();
        cov.insert("evaluations".into(), json!(self.evaluations.max(1)));
        cov.insert("distinct_nontrivial".into(), json!(distinct_n));
        cov.insert("rule".into(), json!(self.rule));
        if self.samples.is_empty() {
            self.samples.push(json!("no sample recorded"));
        }
        cov.insert("samples".into(), json!(self.samples));
        cov.insert("states".into(), json!(self.states));
        cov.insert("transitions".into(), json!(self.transitions));
        cov.insert(
            "traces_validated_against_impl".into(),
            json!(self.traces_validated),
        );
        cov.insert("exhaustive".into(), json!(self.exhaustive));
        cov.insert("bounds".into(), self.bounds.clone());
        cov.insert("outcomes".into(), json!(self.outcomes));
        cov.insert(
            "known_findings_hit".into(),
            json!(known_hit
                .iter()
                .map(|(k, (w, n))| json!({"key":k,"what":w,"instances":n}))
                .collect::<Vec<_>>()),
        );
        for (k, v) in self.extra.iter() {
            cov.insert(k.clone(), v.clone());
        }
        if !self.machinery_errors.is_empty() {
            cov.insert("machinery_errors".into(), json!(self.machinery_errors));
        }
        let ev = json!({
            "property_id": self.id,
            "tier": self.tier.name(),
            "seed": self.tier.seed,
            "level": self.level,
            "coverage": Value::Object(cov),
            "assumptions": self.assumptions,
            "wall_s": wall,
            "violations": unlisted.len(),
        });
        let edir = verif_dir().join("evidence");
        let _ = std::fs::create_dir_all(&edir);
        let ep = edir.join(format!("{}.json", self.id));
        std::fs::write(&ep, serde_json::to_string_pretty(&ev).unwrap()).expect("write evidence");
        println!(
            "{} {}: evaluations={} states={} transitions={} distinct={} outcomes={} exhaustive={} wall={:.1}s",
            self.id,
            self.tier.name(),
            self.evaluations,
            self.states,
            self.transitions,
            distinct_n,
            self.outcomes.len(),
            self.exhaustive,
            wall
        );
        for (k, v) in self.outcomes.iter() {
            println!("    {:>9}  {}", v, k);
        }
        for l in lines.iter() {
            println!("{}", l);
        }
        for m in self.machinery_errors.iter() {
            eprintln!("MACHINERY-ERROR: {}", m);
        }
        if !unlisted.is_empty() {
            // a violation was demonstrated; machinery trouble elsewhere does not hide it
            return 1;
        }
        if !self.machinery_errors.is_empty() {
            return 2;
        }
        0
    }
}

#[derive(Clone, Debug)]
pub struct Finding {
    pub property: String,
    pub key: String,
    pub status: String,
    pub what: String,
    /// when present, only these instances (64-bit hashes of the instance description) of the key
    /// are the recorded finding; any other instance under the same key is reported
    pub instances: Option<BTreeSet<String>>,
}

static FINDINGS: std::sync::OnceLock<Vec<Finding>> = std::sync::OnceLock::new();
static DUMP_LOCK: std::sync::Mutex<()> = std::sync::Mutex::new(());

pub fn known_findings() -> &'static Vec<Finding> {
    FINDINGS.get_or_init(load_known_findings)
}

pub const UNLISTED: &str = "#unlisted-instance";

pub fn load_known_findings() -> Vec<Finding> {
    let p = verif_dir().join("known_findings.json");
    let Ok(s) = std::fs::read_to_string(&p) else {
        return vec![];
    };
    let Ok(v) = serde_json::from_str::<Value>(&s) else {
        eprintln!("MACHINERY-ERROR: known_findings.json does not parse");
        std::process::exit(2);
    };
    let mut out = vec![];
    if let Some(a) = v.get("findings").and_then(|x| x.as_array()) {
        for f in a {
            out.push(Finding {
                property: f["property"].as_str().unwrap_or("").to_string(),
                key: f["key"].as_str().unwrap_or("\u{0}").to_string(),
                status: f["status"].as_str().unwrap_or("open").to_string(),
                what: f["what"].as_str().unwrap_or("").to_string(),
                instances: f["instances_file"].as_str().map(|rel| {
                    let path = verif_dir().join(rel);
                    match std::fs::read_to_string(&path) {
                        Ok(t) => t.lines().map(|l| l.trim().to_string()).filter(|l| !l.is_empty()).collect(),
                        Err(e) => {
                            eprintln!("MACHINERY-ERROR: instances file {} of a known finding is not readable: {}", path.display(), e);
                            std::process::exit(2);
                        }
                    }
                }),
            });
        }
    }
    out
}

/// run `f` over items on up to `workers` threads; results in input order
pub fn par_map<T: Sync, R: Send>(
    items: &[T],
    workers: usize,
    f: impl Fn(usize, &T) -> R + Sync,
) -> Vec<R> {
    let n = items.len();
    let workers = workers.max(1).min(n.max(1));
    let next = std::sync::atomic::AtomicUsize::new(0);
    let mut slots: Vec<Option<R>> = (0..n).map(|_| None).collect();
    let slots_ptr = std::sync::Mutex::new(&mut slots);
    std::thread::scope(|s| {
        for _ in 0..workers {
            s.spawn(|| loop {
                let i = next.fetch_add(1, std::sync::atomic::Ordering::SeqCst);
                if i >= n {
                    break;
                }
                let r = f(i, &items[i]);
                let mut g = slots_ptr.lock().unwrap();
                g[i] = Some(r);
            });
        }
    });
    slots.into_iter().map(|x| x.unwrap()).collect()
}

pub fn workers() -> usize {
    std::env::var("VERIF_WORKERS")
        .ok()
        .and_then(|s| s.parse().ok())
        .unwrap_or_else(|| {
            std::thread::available_parallelism()
                .map(|n| n.get())
                .unwrap_or(4)
                .min(16)
        })
}
