pub mod exec;
pub mod factory;
pub mod lock;
pub mod node;
pub mod prod;
pub mod props;
pub mod report;
pub mod seams;
