//! Counting global allocator (declared in the vrig binary): per-thread current / peak bytes,
//! so that a decoder call's peak allocation can be compared with its input length.

use std::alloc::{GlobalAlloc, Layout, System};
use std::cell::Cell;

pub struct Counting;

thread_local! {
    static CUR: Cell<usize> = const { Cell::new(0) };
    static PEAK: Cell<usize> = const { Cell::new(0) };
    static ON: Cell<bool> = const { Cell::new(false) };
}

unsafe impl GlobalAlloc for Counting {
    unsafe fn alloc(&self, l: Layout) -> *mut u8 {
        let p = System.alloc(l);
        if !p.is_null() {
            let _ = ON.try_with(|on| {
                if on.get() {
                    let _ = CUR.try_with(|c| {
                        let v = c.get() + l.size();
                        c.set(v);
                        let _ = PEAK.try_with(|pk| {
                            if v > pk.get() {
                                pk.set(v)
                            }
                        });
                    });
                }
            });
        }
        p
    }
    unsafe fn dealloc(&self, p: *mut u8, l: Layout) {
        let _ = ON.try_with(|on| {
            if on.get() {
                let _ = CUR.try_with(|c| c.set(c.get().saturating_sub(l.size())));
            }
        });
        System.dealloc(p, l)
    }
    unsafe fn realloc(&self, p: *mut u8, l: Layout, new_size: usize) -> *mut u8 {
        let q = System.realloc(p, l, new_size);
        if !q.is_null() {
            let _ = ON.try_with(|on| {
                if on.get() {
                    let _ = CUR.try_with(|c| {
                        let v = c.get().saturating_sub(l.size()) + new_size;
                        c.set(v);
                        let _ = PEAK.try_with(|pk| {
                            if v > pk.get() {
                                pk.set(v)
                            }
                        });
                    });
                }
            });
        }
        q
    }
}

/// run `f` and return (result, peak bytes allocated above the level at entry)
pub fn measure<T>(f: impl FnOnce() -> T) -> (T, usize) {
    CUR.with(|c| c.set(0));
    PEAK.with(|c| c.set(0));
    ON.with(|o| o.set(true));
    let r = f();
    ON.with(|o| o.set(false));
    (r, PEAK.with(|p| p.get()))
}
