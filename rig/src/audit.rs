//! Canonicalisation audit for the breadth-first searches: a history that is dropped because its
//! digest was already seen must have the same one-step futures as the history that represents
//! that digest. A difference means the digest merges states with different futures, i.e. the
//! search silently loses behaviours; that is a machinery error, never a verdict.

use std::collections::BTreeMap;
use std::fmt::Debug;

use crate::node::Hash;
use crate::report::{par_map, workers, Report};

pub struct MergeAudit<H: Clone> {
    pub rep_of: BTreeMap<Hash, H>,
    pub merged: Vec<(H, Hash)>,
    pub merged_total: u64,
    store_cap: usize,
}

impl<H: Clone + Sync + Debug> MergeAudit<H> {
    pub fn new() -> Self {
        MergeAudit { rep_of: BTreeMap::new(), merged: vec![], merged_total: 0, store_cap: 200_000 }
    }

    /// records the history under its digest; true when the digest is new
    pub fn see(&mut self, d: Hash, h: &H) -> bool {
        if self.rep_of.contains_key(&d) {
            self.merged_total += 1;
            if self.merged.len() < self.store_cap {
                self.merged.push((h.clone(), d));
            }
            false
        } else {
            self.rep_of.insert(d, h.clone());
            true
        }
    }

    pub fn contains(&self, d: &Hash) -> bool {
        self.rep_of.contains_key(d)
    }

    pub fn len(&self) -> usize {
        self.rep_of.len()
    }

    /// compares the one-step futures (label -> digest or not-applicable) of up to `pairs` merged
    /// histories, evenly spaced over the order in which the search met them, with those of their
    /// representatives
    pub fn audit(&self, pairs: usize, name: &str, futures: impl Fn(&H) -> Vec<(String, Option<Hash>)> + Sync, rep: &mut Report) {
        let n = self.merged.len();
        let pick: Vec<usize> = if n <= pairs { (0..n).collect() } else { (0..pairs).map(|i| i * n / pairs).collect() };
        let jobs: Vec<(&H, &H)> = pick.iter().map(|&i| (&self.merged[i].0, self.rep_of.get(&self.merged[i].1).unwrap())).collect();
        let res = par_map(&jobs, workers(), |_, (a, b)| {
            let fa = futures(a);
            let fb = futures(b);
            if fa == fb {
                None
            } else {
                let at = fa.iter().zip(fb.iter()).find(|(x, y)| x != y).map(|(x, y)| format!("{} -> {:?} vs {} -> {:?}", x.0, x.1.map(|h| hex::encode(&h[..6])), y.0, y.1.map(|h| hex::encode(&h[..6])))).unwrap_or_else(|| format!("{} vs {} futures", fa.len(), fb.len()));
                Some(format!("{:?} and {:?} share a digest but differ one step later: {}", a, b, at))
            }
        });
        let bad: Vec<String> = res.into_iter().flatten().collect();
        rep.extra.insert(format!("digest_audit:{}", name), serde_json::json!({"merged_histories": self.merged_total, "pairs_compared": jobs.len(), "pairs_with_different_futures": bad.len()}));
        for b in bad.iter().take(5) {
            rep.machinery(format!("digest audit ({}): {}", name, b));
        }
    }
}
