//! FullNode: the three real event handlers (RoutingThread, VerificationThread, ConsensusThread)
//! of one node, assembled from their pub fields; the harness holds every channel receiver, so
//! every queued inter-task message is a schedulable event.

use std::collections::VecDeque;
use std::sync::Arc;
use std::time::Duration;

use saito_core::core::consensus::blockchain::Blockchain;
use saito_core::core::consensus::blockchain_sync_state::BlockchainSyncState;
use saito_core::core::consensus::mempool::Mempool;
use saito_core::core::consensus::peers::peer_collection::PeerCollection;
use saito_core::core::consensus::wallet::Wallet;
use saito_core::core::consensus_thread::{ConsensusEvent, ConsensusStats, ConsensusThread};
use saito_core::core::defs::StatVariable;
use saito_core::core::io::network::Network;
use saito_core::core::io::network_event::NetworkEvent;
use saito_core::core::io::storage::Storage;
use saito_core::core::mining_thread::MiningEvent;
use saito_core::core::process::process_event::ProcessEvent;
use saito_core::core::routing_thread::{RoutingEvent, RoutingStats, RoutingThread};
use saito_core::core::util::configuration::Configuration;
use saito_core::core::verification_thread::{VerificationThread, VerifyRequest};
use tokio::sync::mpsc::{channel, Receiver};

use crate::exec::{run, Outcome};
use crate::lock::RwLock;
use crate::node::{Hash, Obs};
use crate::seams::{Cfg, Key, ManualClock, MemIO};

pub struct FullNode {
    pub key: Key,
    pub io: MemIO,
    pub clock: ManualClock,
    pub cfg: Cfg,
    pub cfg_lock: Arc<RwLock<dyn Configuration + Send + Sync>>,
    pub wallet: Arc<RwLock<Wallet>>,
    pub blockchain: Arc<RwLock<Blockchain>>,
    pub mempool: Arc<RwLock<Mempool>>,
    pub peers: Arc<RwLock<PeerCollection>>,
    pub routing: RoutingThread,
    pub consensus: ConsensusThread,
    pub verification: VerificationThread,
    rx_consensus: Receiver<ConsensusEvent>,
    rx_routing: Receiver<RoutingEvent>,
    rx_verify: Receiver<VerifyRequest>,
    rx_miner: Receiver<MiningEvent>,
    rx_stat: Receiver<String>,
    pub q_consensus: VecDeque<ConsensusEvent>,
    pub q_routing: VecDeque<RoutingEvent>,
    pub q_verify: VecDeque<VerifyRequest>,
    pub mined: Vec<(Hash, u64, u64)>,
}

#[derive(Clone, Copy, Debug, PartialEq, Eq, PartialOrd, Ord)]
pub enum Chan {
    Verify,
    Consensus,
    Routing,
}

impl FullNode {
    pub fn new(key: Key, cfg: Cfg, io: MemIO, clock: ManualClock) -> FullNode {
        let cfg_lock: Arc<RwLock<dyn Configuration + Send + Sync>> = Arc::new(RwLock::new(cfg.clone()));
        let wallet = Arc::new(RwLock::new(Wallet::new(key.private, key.public)));
        let blockchain = Arc::new(RwLock::new(Blockchain::new(
            wallet.clone(),
            cfg.consensus.genesis_period,
            cfg.consensus.default_social_stake,
            cfg.consensus.default_social_stake_period,
        )));
        let mempool = Arc::new(RwLock::new(Mempool::new(wallet.clone())));
        let peers = Arc::new(RwLock::new(PeerCollection::default()));
        let (tx_consensus, rx_consensus) = channel::<ConsensusEvent>(1000);
        let (tx_routing, rx_routing) = channel::<RoutingEvent>(1000);
        let (tx_verify, rx_verify) = channel::<VerifyRequest>(1000);
        let (tx_miner, rx_miner) = channel::<MiningEvent>(1000);
        let (tx_stat, rx_stat) = channel::<String>(10_000);
        let timer = clock.timer();
        let batch = cfg.server.as_ref().map(|s| s.block_fetch_batch_size as usize).unwrap_or(2);
        let routing = RoutingThread {
            blockchain_lock: blockchain.clone(),
            mempool_lock: mempool.clone(),
            sender_to_consensus: tx_consensus.clone(),
            sender_to_miner: tx_miner.clone(),
            config_lock: cfg_lock.clone(),
            timer: timer.clone(),
            wallet_lock: wallet.clone(),
            network: Network::new(Box::new(io.clone()), peers.clone(), wallet.clone(), cfg_lock.clone(), timer.clone()),
            storage: Storage::new(Box::new(io.clone())),
            reconnection_timer: 0,
            peer_removal_timer: 0,
            peer_file_write_timer: 0,
            last_emitted_block_fetch_count: 0,
            stats: RoutingStats::new(tx_stat.clone()),
            senders_to_verification: vec![tx_verify.clone()],
            last_verification_thread_index: 0,
            stat_sender: tx_stat.clone(),
            blockchain_sync_state: BlockchainSyncState::new(batch),
        };
        let consensus = ConsensusThread {
            mempool_lock: mempool.clone(),
            blockchain_lock: blockchain.clone(),
            wallet_lock: wallet.clone(),
            generate_genesis_block: false,
            sender_to_router: tx_routing.clone(),
            sender_to_miner: tx_miner.clone(),
            block_producing_timer: 0,
            timer: timer.clone(),
            network: Network::new(Box::new(io.clone()), peers.clone(), wallet.clone(), cfg_lock.clone(), timer.clone()),
            storage: Storage::new(Box::new(io.clone())),
            stats: ConsensusStats::new(tx_stat.clone()),
            txs_for_mempool: vec![],
            stat_sender: tx_stat.clone(),
            config_lock: cfg_lock.clone(),
            produce_blocks_by_timer: false,
            delete_old_blocks: true,
        };
        let st = |n: &str| StatVariable::new(n.to_string(), 3, tx_stat.clone());
        let verification = VerificationThread {
            sender_to_consensus: tx_consensus.clone(),
            blockchain_lock: blockchain.clone(),
            peer_lock: peers.clone(),
            wallet_lock: wallet.clone(),
            processed_txs: st("v1"),
            processed_blocks: st("v2"),
            processed_msgs: st("v3"),
            invalid_txs: st("v4"),
            stat_sender: tx_stat.clone(),
        };
        FullNode {
            key,
            io,
            clock,
            cfg,
            cfg_lock,
            wallet,
            blockchain,
            mempool,
            peers,
            routing,
            consensus,
            verification,
            rx_consensus,
            rx_routing,
            rx_verify,
            rx_miner,
            rx_stat,
            q_consensus: VecDeque::new(),
            q_routing: VecDeque::new(),
            q_verify: VecDeque::new(),
            mined: vec![],
        }
    }

    /// move everything the handlers queued into the harness-side queues
    pub fn pump(&mut self) {
        while let Ok(e) = self.rx_consensus.try_recv() {
            self.q_consensus.push_back(e);
        }
        while let Ok(e) = self.rx_routing.try_recv() {
            self.q_routing.push_back(e);
        }
        while let Ok(e) = self.rx_verify.try_recv() {
            self.q_verify.push_back(e);
        }
        while let Ok(MiningEvent::LongestChainBlockAdded { hash, difficulty, block_id }) = self.rx_miner.try_recv() {
            self.mined.push((hash, difficulty, block_id));
        }
        while self.rx_stat.try_recv().is_ok() {}
    }

    pub fn init(&mut self) -> Outcome<()> {
        let r = {
            let routing = &mut self.routing;
            run(async { routing.on_init().await })
        };
        if !r.is_done() {
            return r;
        }
        let r = {
            let consensus = &mut self.consensus;
            run(async { consensus.on_init().await })
        };
        self.pump();
        r
    }

    pub fn net(&mut self, ev: NetworkEvent) -> Outcome<()> {
        let r = {
            let routing = &mut self.routing;
            run(async {
                routing.process_network_event(ev).await;
            })
        };
        self.pump();
        r
    }

    pub fn pending(&self) -> Vec<Chan> {
        let mut v = vec![];
        if !self.q_verify.is_empty() {
            v.push(Chan::Verify);
        }
        if !self.q_consensus.is_empty() {
            v.push(Chan::Consensus);
        }
        if !self.q_routing.is_empty() {
            v.push(Chan::Routing);
        }
        v
    }

    /// deliver the head of one internal channel to its handler
    pub fn step(&mut self, c: Chan) -> Option<Outcome<()>> {
        let r = match c {
            Chan::Verify => {
                let e = self.q_verify.pop_front()?;
                let v = &mut self.verification;
                run(async {
                    v.process_event(e).await;
                })
            }
            Chan::Consensus => {
                let e = self.q_consensus.pop_front()?;
                let v = &mut self.consensus;
                run(async {
                    v.process_event(e).await;
                })
            }
            Chan::Routing => {
                let e = self.q_routing.pop_front()?;
                let v = &mut self.routing;
                run(async {
                    v.process_event(e).await;
                })
            }
        };
        self.pump();
        Some(r)
    }

    /// run internal channels to quiescence in the default order; returns the first abort
    pub fn settle(&mut self) -> Outcome<()> {
        for _ in 0..10_000 {
            let p = self.pending();
            let Some(c) = p.first().cloned() else { return Outcome::Done(()) };
            match self.step(c) {
                Some(Outcome::Done(())) | None => {}
                Some(o) => return o,
            }
        }
        Outcome::Stalled
    }

    pub fn tick_routing(&mut self, ms: u64) -> Outcome<()> {
        self.clock.advance(ms);
        let r = {
            let routing = &mut self.routing;
            run(async {
                routing.process_timer_event(Duration::from_millis(ms)).await;
            })
        };
        self.pump();
        r
    }

    pub fn tick_consensus(&mut self, ms: u64) -> Outcome<()> {
        let r = {
            let c = &mut self.consensus;
            run(async {
                c.process_timer_event(Duration::from_millis(ms)).await;
            })
        };
        self.pump();
        r
    }

    pub fn tip(&self) -> (u64, Hash) {
        let bc = self.blockchain.try_read().expect("bc lock");
        (bc.get_latest_block_id(), bc.get_latest_block_hash())
    }

    /// chain/pool/wallet snapshot (same structure as LedgerNode's)
    pub fn obs(&self) -> Obs {
        let view = crate::node::LedgerView { blockchain: &self.blockchain, mempool: &self.mempool, wallet: &self.wallet, io: &self.io };
        Obs::take_view(&view)
    }

    /// peers as (index, status, key, outstanding challenge present, fetch url)
    pub fn peer_table(&self) -> Vec<(u64, String, Option<[u8; 33]>, bool, String)> {
        let p = self.peers.try_read().expect("peers lock");
        let mut v: Vec<_> = p
            .index_to_peers
            .values()
            .map(|x| {
                let st = match x.peer_status {
                    saito_core::core::consensus::peers::peer::PeerStatus::Connected => "Connected".to_string(),
                    saito_core::core::consensus::peers::peer::PeerStatus::Connecting => "Connecting".to_string(),
                    saito_core::core::consensus::peers::peer::PeerStatus::Disconnected(..) => "Disconnected".to_string(),
                };
                (x.index, st, x.public_key, x.challenge_for_peer.is_some(), x.block_fetch_url.clone())
            })
            .collect();
        v.sort();
        v
    }

    pub fn address_table(&self) -> Vec<([u8; 33], u64)> {
        let p = self.peers.try_read().expect("peers lock");
        let mut v: Vec<_> = p.address_to_peers.iter().map(|(k, v)| (*k, *v)).collect();
        v.sort();
        v
    }
}
