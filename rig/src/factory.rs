//! BlockFactory: builds block *trees* with the real producer (`Block::create`) on builder nodes
//! whose tip is the parent; every block is kept as wire bytes.

use saito_core::core::consensus::block::Block;
use saito_core::core::consensus::slip::Slip;
use saito_core::core::consensus::transaction::Transaction;
use saito_core::core::defs::{Currency, SaitoPublicKey, Timestamp};

use crate::exec::{run, Outcome};
use crate::node::*;
use crate::seams::{key, Cfg, Key};

#[derive(Clone, Debug)]
pub struct BInfo {
    pub bytes: Vec<u8>,
    pub hash: Hash,
    pub id: u64,
    pub parent: Option<usize>,
    pub ts: Timestamp,
    pub has_gt: bool,
    pub burnfee: u64,
    /// valid per the harness's construction record (honestly produced, unedited)
    pub valid: bool,
    pub label: String,
}

pub struct World {
    /// configuration of builder nodes (defaults to `cfg`; C05 lets builders bypass the
    /// golden-ticket density rule so that children of density-violating blocks can be produced)
    pub builder_cfg: Option<Cfg>,
    pub cfg: Cfg,
    pub creator: Key,
    pub blocks: Vec<BInfo>,
    /// reference ledger after block i (on the chain genesis..i)
    pub ledgers: Vec<RefLedger>,
    pub initial_supply: u128,
}

pub const SPACING: u64 = 10_000;
pub const HEARTBEAT: u64 = 5_000;

impl World {
    pub fn new(cfg: Cfg) -> World {
        World {
            builder_cfg: None,
            cfg,
            creator: key(0),
            blocks: vec![],
            ledgers: vec![],
            initial_supply: 0,
        }
    }

    /// standard world: genesis issuing several outputs to K1 (payer), K2, K0
    pub fn standard(g: u64) -> World {
        let mut w = World::new(Cfg::new(g, HEARTBEAT));
        let k0 = key(0).public;
        let k1 = key(1).public;
        let k2 = key(2).public;
        w.genesis(
            &[
                (k1, 1_000_000),
                (k1, 2_000_000),
                (k1, 3_000_000),
                (k1, 4_000_000),
                (k2, 5_000_000),
                (k2, 6_000_000),
                (k0, 7_000_000),
                (k0, 8_000_000),
            ],
            1_000_000,
        );
        w
    }

    pub fn genesis(&mut self, issuance: &[(SaitoPublicKey, Currency)], ts: Timestamp) -> usize {
        assert!(self.blocks.is_empty());
        let creator = self.creator;
        let node = LedgerNode::new(creator, self.cfg.clone());
        let cfg = self.cfg.clone();
        let bc = node.blockchain.clone();
        let storage = &node.storage;
        let mut block = crate::exec::must(async {
            let bc = bc.read().await;
            let mut txs = txmap(vec![]);
            Block::create(
                &mut txs,
                [0; 32],
                &bc,
                ts,
                &creator.public,
                &creator.private,
                None,
                &cfg,
                storage,
            )
            .await
            .unwrap()
        });
        for (pk, amt) in issuance {
            block.add_transaction(issuance_tx(pk, *amt, &creator));
            self.initial_supply += *amt as u128;
        }
        block.merkle_root = block.generate_merkle_root(false, false);
        block.generate().unwrap();
        block.sign(&creator.private);
        block.generate().unwrap();
        self.register(block, None, true, "G".into())
    }

    pub fn register(&mut self, block: Block, parent: Option<usize>, valid: bool, label: String) -> usize {
        let bytes = block_bytes(&block);
        let decoded = decode_block(&bytes);
        let mut ledger = match parent {
            Some(p) => self.ledgers[p].clone(),
            None => RefLedger::default(),
        };
        ledger.missing_inputs.clear();
        ledger.apply(&decoded);
        self.blocks.push(BInfo {
            bytes,
            hash: decoded.hash,
            id: decoded.id,
            parent,
            ts: decoded.timestamp,
            has_gt: decoded.has_golden_ticket,
            burnfee: decoded.burnfee,
            valid,
            label,
        });
        self.ledgers.push(ledger);
        self.blocks.len() - 1
    }

    pub fn path(&self, mut i: usize) -> Vec<usize> {
        let mut v = vec![i];
        while let Some(p) = self.blocks[i].parent {
            v.push(p);
            i = p;
        }
        v.reverse();
        v
    }

    pub fn is_ancestor_or_self(&self, a: usize, mut b: usize) -> bool {
        loop {
            if a == b {
                return true;
            }
            match self.blocks[b].parent {
                Some(p) => b = p,
                None => return false,
            }
        }
    }

    pub fn index_of(&self, h: &Hash) -> Option<usize> {
        self.blocks.iter().position(|b| &b.hash == h)
    }

    /// a fresh node that has received genesis..=tip in order through add_block
    pub fn builder_at(&self, tip: usize) -> Result<LedgerNode, String> {
        match &self.builder_cfg {
            Some(c) => self.node_at_cfg(tip, self.creator, c.clone()),
            None => self.node_at(tip, self.creator),
        }
    }

    pub fn node_at(&self, tip: usize, who: Key) -> Result<LedgerNode, String> {
        self.node_at_cfg(tip, who, self.cfg.clone())
    }

    pub fn node_at_cfg(&self, tip: usize, who: Key, cfg: Cfg) -> Result<LedgerNode, String> {
        let browser = cfg.browser;
        let mut n = LedgerNode::new(who, cfg);
        for i in self.path(tip) {
            match n.add_block_bytes(&self.blocks[i].bytes) {
                Outcome::Done(AddRes::AddedLongest) => {
                    if browser {
                        // a browser-configured builder does not write block files, yet the
                        // rebroadcast of an expiring block reads that block from disk: put the
                        // file where the storage layer would have put it
                        let d = decode_block(&self.blocks[i].bytes);
                        let path = n.storage.generate_block_filepath(&d);
                        n.io.put(&path, self.blocks[i].bytes.clone());
                    }
                }
                o => {
                    return Err(format!(
                        "builder refused block {} ({}): {:?}",
                        i, self.blocks[i].label, o
                    ))
                }
            }
        }
        Ok(n)
    }

    /// produce a block on `parent` with the real producer
    pub fn build(
        &mut self,
        parent: usize,
        ts: Timestamp,
        gt_miner: Option<Key>,
        txs: Vec<Transaction>,
        label: &str,
    ) -> Result<usize, String> {
        let block = self.produce(parent, ts, gt_miner, txs)?;
        Ok(self.register(block, Some(parent), true, label.to_string()))
    }

    pub fn produce(
        &self,
        parent: usize,
        ts: Timestamp,
        gt_miner: Option<Key>,
        txs: Vec<Transaction>,
    ) -> Result<Block, String> {
        let node = self.builder_at(parent)?;
        self.produce_on(&node, parent, ts, gt_miner, txs)
    }

    pub fn produce_on(
        &self,
        node: &LedgerNode,
        parent: usize,
        ts: Timestamp,
        gt_miner: Option<Key>,
        txs: Vec<Transaction>,
    ) -> Result<Block, String> {
        let creator = node.key;
        let cfg = node.cfg.clone();
        let phash = self.blocks[parent].hash;
        let bc = node.blockchain.clone();
        let storage = &node.storage;
        let r = run(async {
            let bc = bc.read().await;
            let difficulty = bc.get_block(&phash).map(|b| b.difficulty).unwrap_or(0);
            let gt = gt_miner.map(|m| {
                let mut t = golden_ticket_tx(phash, difficulty, &m, 0);
                t.generate(&creator.public, 0, 0);
                t
            });
            let mut gen: Vec<Transaction> = vec![];
            for mut t in txs {
                t.generate(&creator.public, 0, 0);
                gen.push(t);
            }
            let mut map = txmap(gen);
            Block::create(
                &mut map,
                phash,
                &bc,
                ts,
                &creator.public,
                &creator.private,
                gt,
                &cfg,
                storage,
            )
            .await
        });
        match r {
            Outcome::Done(Ok(b)) => Ok(b),
            Outcome::Done(Err(e)) => Err(format!("Block::create failed: {:?}", e)),
            o => Err(format!("Block::create: {}", o.label())),
        }
    }

    /// default timestamp for a child of `parent` (well past two heartbeats; `salt` separates siblings)
    pub fn child_ts(&self, parent: usize, salt: u64) -> Timestamp {
        self.blocks[parent].ts + SPACING + salt
    }

    /// payment from the first sufficiently large unspent output of `from` (in the ledger at `at`)
    pub fn payment(
        &self,
        at: usize,
        from: &Key,
        to: &SaitoPublicKey,
        amount: Currency,
        fee: Currency,
        ts: Timestamp,
    ) -> Option<Transaction> {
        let g = self.cfg.consensus.genesis_period;
        let h = self.blocks[at].id + 1;
        let slip = self.ledgers[at]
            .unspent_of(&from.public)
            .into_iter()
            .find(|s| s.amount >= amount + fee && s.block_id + g > h)?;
        Some(self.spend(&slip, from, to, amount, fee, ts))
    }

    /// like `payment` but spends the most recently created output of `from` (creates
    /// block-to-block dependency chains inside a fork)
    pub fn payment_newest(
        &self,
        at: usize,
        from: &Key,
        to: &SaitoPublicKey,
        amount: Currency,
        fee: Currency,
        ts: Timestamp,
    ) -> Option<Transaction> {
        let slip = self.ledgers[at]
            .unspent_of(&from.public)
            .into_iter()
            .rev()
            .find(|s| s.amount >= amount + fee)?;
        Some(self.spend(&slip, from, to, amount, fee, ts))
    }

    pub fn spend(
        &self,
        slip: &Slip,
        from: &Key,
        to: &SaitoPublicKey,
        amount: Currency,
        fee: Currency,
        ts: Timestamp,
    ) -> Transaction {
        let change = slip.amount - amount - fee;
        let mut outs = vec![(*to, amount)];
        if change > 0 {
            outs.push((from.public, change));
        }
        make_tx(&[slip.clone()], &outs, from, ts, b"pay")
    }

    /// convenience: honest child with one payment K1->K2 (same first output for siblings: forced
    /// conflict) and a golden ticket on even ids
    pub fn honest_child(&mut self, parent: usize, salt: u64, label: &str) -> Result<usize, String> {
        self.honest_child_with(parent, salt, label, false)
    }

    /// `newest`: the payment spends the payer's most recently created output, so that consecutive
    /// blocks of a branch depend on each other (an output created and spent inside a segment)
    pub fn honest_child_with(&mut self, parent: usize, salt: u64, label: &str, newest: bool) -> Result<usize, String> {
        if newest {
            let ts = self.child_ts(parent, salt);
            let id = self.blocks[parent].id + 1;
            let k1 = key(1);
            let k2 = key(2);
            if let Some(t) = self.payment_newest(parent, &k1, &k1.public, 1000 + salt, 0, ts) {
                let _ = k2;
                let gt = if id % 2 == 0 { Some(key(0)) } else { None };
                return self.build(parent, ts, gt, vec![t], label);
            }
        }
        let ts = self.child_ts(parent, salt);
        let id = self.blocks[parent].id + 1;
        let k1 = key(1);
        let k2 = key(2);
        let mut txs = vec![];
        if let Some(t) = self.payment(parent, &k1, &k2.public, 1000 + salt, 0, ts) {
            txs.push(t);
        } else if let Some(t) = self.payment(parent, &k2, &k1.public, 1000 + salt, 0, ts) {
            txs.push(t);
        } else {
            txs.push(make_tx(&[], &[(k2.public, 0)], &k1, ts, b"empty"));
        }
        let gt = if id % 2 == 0 { Some(key(0)) } else { None };
        self.build(parent, ts, gt, txs, label)
    }
}
