//! Producer world: a node that assembles blocks with its own producer (Mempool::bundle_block)
//! plus an independent twin node that receives every produced block as bytes.

use saito_core::core::consensus::block::Block;
use saito_core::core::consensus::slip::{Slip, SlipType};
use saito_core::core::consensus::transaction::Transaction;
use saito_core::core::defs::{Currency, SaitoPublicKey};

use crate::exec::{run, Outcome};
use crate::factory::World;
use crate::node::*;
use crate::seams::{key, Cfg, Key};

pub struct Prod {
    pub cfg: Cfg,
    pub node: LedgerNode,
    pub twin: LedgerNode,
    pub ledger: RefLedger,
    pub issued: u128,
    pub chain: Vec<Vec<u8>>,
    pub tip_ts: u64,
    pub tip_hash: Hash,
    pub tip_id: u64,
    pub tip_difficulty: u64,
    pub log: Vec<String>,
}

#[derive(Clone, Debug, PartialEq, Eq)]
pub enum TxKind {
    None,
    /// payer index (1 or 2), fee, route: 0 = no path, 1 = one hop ending at the producer,
    /// 2 = two hops ending at the producer, 3 = one hop ending elsewhere
    Pay { payer: u8, fee: Currency, route: u8 },
    /// two routed fee-paying payments enter the pool, then a block of another producer arrives
    /// that spends the first one's input differently and confirms nothing from the pool; the
    /// round's bundling happens `dt` after that block (handled by the script runner)
    PeerConflict(Currency),
    /// this round's block comes from another producer (key index), assembled by the real
    /// bundle_block on that producer's own node (with its own stake when staking is on)
    PeerBlock(u8),
    /// like PeerBlock, but first the node under test pools a payment that spends the payer's oldest
    /// still-spendable output (the other producer's block does not carry it: it stays pooled while
    /// its input ages by one block)
    PeerBlockPending(u8),
}

#[derive(Clone, Debug, PartialEq, Eq)]
pub struct Round {
    pub tx: TxKind,
    pub gt: bool,
    /// elapsed time since the parent in half-heartbeats (4 = two heartbeats)
    pub dt_half_hb: u64,
}

pub enum Produced {
    Block(Vec<u8>),
    NoBlock,
    Abort(String),
}

impl Prod {
    pub fn new(g: u64, hb: u64, staking: Currency) -> Result<Prod, String> {
        Self::new_world(g, hb, staking, false)
    }

    /// `rich_treasury`: small holdings for everybody but the fee payer, so that the treasury
    /// outgrows the looping outputs and rebroadcasts carry a treasury payout
    pub fn new_world(g: u64, hb: u64, staking: Currency, rich_treasury: bool) -> Result<Prod, String> {
        Self::new_with(g, hb, staking, rich_treasury, 8)
    }

    /// `prune`: prune_after_blocks of producer and twin (1 = every block below the tip drops its
    /// transactions from memory and is reloaded from disk when needed)
    pub fn new_with(g: u64, hb: u64, staking: Currency, rich_treasury: bool, prune: u64) -> Result<Prod, String> {
        let mut cfg = Cfg::new(g, hb);
        cfg.consensus.prune_after_blocks = prune;
        cfg.consensus.default_social_stake = staking;
        cfg.consensus.default_social_stake_period = 2;
        let mut w = World::new(cfg.clone());
        let k = |i: u8| key(i).public;
        // the genesis itself is produced with staking off (block 1 needs no stake)
        if rich_treasury {
            w.genesis(
                &[
                    (k(1), 1_800_000_000),
                    (k(2), 3_000),
                    (k(2), 2_000),
                    (k(2), 40),
                    (k(0), 5_000),
                    (k(6), 1_500),
                ],
                1_000_000,
            );
        } else {
        w.genesis(
            &[
                (k(1), 10_000_000),
                (k(1), 20_000_000),
                (k(1), 30_000_000),
                (k(1), 40_000_000),
                (k(2), 50_000_000),
                (k(2), 60_000_000),
                (k(0), 700_000_000),
                (k(0), 800_000_000),
                (k(0), 900_000_000),
            ],
            1_000_000,
        );
        }
        let mut node = LedgerNode::new(key(0), cfg.clone());
        let mut twin = LedgerNode::new(key(9), cfg.clone());
        for n in [&mut node, &mut twin] {
            match n.add_block_bytes(&w.blocks[0].bytes) {
                Outcome::Done(AddRes::AddedLongest) => {}
                o => return Err(format!("genesis refused: {:?}", o)),
            }
        }
        let g0 = &w.blocks[0];
        Ok(Prod {
            cfg,
            node,
            twin,
            ledger: w.ledgers[0].clone(),
            issued: w.initial_supply,
            chain: vec![g0.bytes.clone()],
            tip_ts: g0.ts,
            tip_hash: g0.hash,
            tip_id: 1,
            tip_difficulty: 0,
            log: vec![],
        })
    }

    pub fn hb(&self) -> u64 {
        self.cfg.consensus.heartbeat_interval
    }

    pub fn make_tx(&self, kind: &TxKind, ts: u64) -> Option<Transaction> {
        match kind {
            TxKind::None | TxKind::PeerConflict(_) | TxKind::PeerBlock(_) | TxKind::PeerBlockPending(_) => None,
            TxKind::Pay { payer, fee, route } => {
                let from = key(*payer);
                let to = if *payer == 1 { key(2).public } else { key(1).public };
                let g = self.cfg.consensus.genesis_period;
                let h = self.tip_id + 1;
                let slip = self
                    .ledger
                    .unspent_of(&from.public)
                    .into_iter()
                    .filter(|s| s.block_id + g > h + 1 && s.amount >= 1000 + fee)
                    .max_by_key(|s| s.amount)?;
                let change = slip.amount - 1000 - fee;
                let mut outs = vec![(to, 1000u64)];
                if change > 0 {
                    outs.push((from.public, change));
                }
                let mut tx = make_tx(&[slip], &outs, &from, ts, b"p");
                let producer = self.node.key.public;
                match route {
                    0 => {}
                    1 => add_hops(&mut tx, &[from], &producer),
                    2 => add_hops(&mut tx, &[from, key(4)], &producer),
                    _ => add_hops(&mut tx, &[from], &key(5).public),
                }
                Some(tx)
            }
        }
    }

    pub fn submit(&mut self, tx: Transaction) -> Outcome<bool> {
        let bc = self.node.blockchain.clone();
        let mp = self.node.mempool.clone();
        let sig = tx.signature;
        run(async move {
            let bc = bc.read().await;
            let mut mp = mp.write().await;
            mp.add_transaction_if_validates(tx, &bc).await;
            mp.transactions.contains_key(&sig)
        })
    }

    /// Mempool::bundle_block on the producer at `ts`
    pub fn bundle(&mut self, ts: u64, with_gt: bool) -> Produced {
        let bc = self.node.blockchain.clone();
        let mp = self.node.mempool.clone();
        let cfg = self.cfg.clone();
        let miner = self.node.key;
        let gt = if with_gt {
            let mut t = golden_ticket_tx(self.tip_hash, self.tip_difficulty, &miner, 0);
            t.generate(&miner.public, 0, 0);
            Some(t)
        } else {
            None
        };
        let storage = &self.node.storage;
        let r = run(async move {
            let bc = bc.read().await;
            let mut mp = mp.write().await;
            mp.bundle_block(&bc, ts, gt, &cfg, storage).await
        });
        match r {
            Outcome::Done(Some(b)) => Produced::Block(block_bytes(&b)),
            Outcome::Done(None) => Produced::NoBlock,
            o => Produced::Abort(o.label()),
        }
    }

    /// add a produced block to producer and twin; returns (own result, twin result)
    pub fn commit(&mut self, bytes: &[u8]) -> (Outcome<AddRes>, Outcome<AddRes>) {
        let a = self.node.add_block_bytes(bytes);
        let b = self.twin.add_block_bytes(bytes);
        if let (Outcome::Done(AddRes::AddedLongest), Outcome::Done(AddRes::AddedLongest)) = (&a, &b) {
            let blk = decode_block(bytes);
            self.ledger.missing_inputs.clear();
            self.ledger.apply(&blk);
            self.tip_ts = blk.timestamp;
            self.tip_hash = blk.hash;
            self.tip_id = blk.id;
            self.tip_difficulty = blk.difficulty;
            self.chain.push(bytes.to_vec());
        }
        (a, b)
    }
}

/// conservation in unbounded arithmetic; returns Err(description) on mismatch
pub fn supply_check(n: &LedgerNode, ledger: &RefLedger, issued: u128, g: u64) -> Result<u128, String> {
    let o = n.obs();
    let lo = o.tip_id.saturating_sub(g);
    let utxo: u128 = ledger.total_u128(lo);
    let (treasury, graveyard, unpaid, fees) = o.reservoirs;
    let total = utxo + treasury as u128 + graveyard as u128 + unpaid as u128 + fees as u128;
    if total != issued {
        Err(format!(
            "at height {}: in-window outputs {} + treasury {} + graveyard {} + unpaid {} + fees {} = {} but {} were issued (difference {})",
            o.tip_id,
            utxo,
            treasury,
            graveyard,
            unpaid,
            fees,
            total,
            issued,
            total as i128 - issued as i128
        ))
    } else {
        Ok(total)
    }
}

/// per-transaction balance from the block's own bytes
pub fn tx_balances(b: &Block) -> Vec<(usize, u128, u128, String)> {
    b.transactions
        .iter()
        .enumerate()
        .map(|(i, t)| {
            let tin: u128 = t.from.iter().filter(|s| s.slip_type != SlipType::Bound).map(|s| s.amount as u128).sum();
            let tout: u128 = t.to.iter().filter(|s| s.slip_type != SlipType::Bound).map(|s| s.amount as u128).sum();
            (i, tin, tout, tx_type_name(t.transaction_type).to_string())
        })
        .collect()
}

pub fn slip_desc(s: &Slip) -> String {
    format!("{}-{}-{}:{}:{:?}", s.block_id, s.tx_ordinal, s.slip_index, s.amount, s.slip_type)
}

pub fn _unused(_: SaitoPublicKey, _: Key) {}
