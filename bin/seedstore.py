#!/usr/bin/env python3
# usage: seedstore.py <seed id> <round> <json meta fields...>   -- copies a confirmed seed from /tmp/seed/<id>.out
# into /verif/seeded/<id>/ with meta.json, then removes the scratch worktree and the output directory
import json,os,shutil,subprocess,sys
sid,rnd,meta=sys.argv[1],int(sys.argv[2]),json.loads(sys.argv[3])
d=f'/verif/seeded/{sid}'; os.makedirs(d,exist_ok=True)
for f in ('patch.diff','demo.diff','README.md'):
    shutil.copy(f'/tmp/seed/{sid}.out/{f}',d)
meta.setdefault('breaks',sid[:3]); meta['round']=rnd
meta['confirmed']='bin/confirm_seed.sh in a scratch worktree of /repo HEAD: demo passes without the patch, fails with it; cargo build --workspace ok; 104/104 stable baseline tests pass with the patch'
meta['ran']=[f'bin/confirm_seed.sh /tmp/seed/{sid}.out <demo filter>',f'bin/seedtest.sh /tmp/seed/{sid}.out/patch.diff {meta["breaks"]}']
json.dump(meta,open(d+'/meta.json','w'),indent=1)
subprocess.run(['git','-C','/repo','worktree','remove','--force',f'/tmp/seed/{sid}'])
shutil.rmtree(f'/tmp/seed/{sid}.out',ignore_errors=True)
print('stored',sid)
