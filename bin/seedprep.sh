#!/bin/bash
# usage: seedprep.sh <seed id>...   -- scratch worktree of /repo HEAD + property text for a seeding sub-agent
for sid in "$@"; do
  pid=${sid:0:3}
  git -C /repo worktree add -q --detach /tmp/seed/$sid HEAD || exit 2
  mkdir -p /tmp/seed/$sid.out
  python3 - "$pid" > /tmp/seed/$sid.out/property.txt <<'PY'
import json,sys
for l in open('/verif/properties.jsonl'):
    d=json.loads(l)
    if d['id']==sys.argv[1]:
        print(d.get('statement') or d.get('text') or json.dumps(d))
PY
  echo "$sid: $(wc -c < /tmp/seed/$sid.out/property.txt) bytes of property text"
done
