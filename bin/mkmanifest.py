#!/usr/bin/env python3
"""Regenerates /verif/MANIFEST.json from the table below (single source of truth)."""
import json

CHECKS = {}
def check(pid, technique, category, text, note, design):
    CHECKS[pid] = dict(technique=technique, category=category, text=text, note=note, design=design)

check("C03",
  "explicit-state exploration of the implementation: every block-tree shape x every delivery order, reference-model agreement after every step",
  "model_checking",
  "Every recursive tree shape of n blocks (quick n=4 plus the five-block trees in which a two-block branch is overtaken by a three-block one, thorough n=5) above a stem, tree blocks spending the output their parent created, every permutation of their delivery through the real consumer path (mempool queue + add_blocks_from_mempool), with conflicting sibling payments, one-invalid-leaf and re-delivery variants, both initial_loading settings, and on a node that keeps transactions in memory (prune_after_blocks 8) as well as one that drops them below the tip (prune_after_blocks 1: every unwind reloads its block from disk); after every delivery the tip/index/flags/utxoset are compared with a replay of genesis..tip by a reference ledger and with a fresh node fed that chain directly.",
  "Bounded by tree size; genesis periods 10 and 3 (window wrap and purge inside the bound); trusted: the harness's RefLedger (set insert/remove) and the block factory built on the real producer.",
  "DESIGN.md §3 C03")

check("C04",
  "explicit-state exploration of the implementation: every fork shape x offending-block position x invalidity kind, full-state before/after comparison and hooked step counter",
  "model_checking",
  "For every fork shape (current segment a<=2/3, candidate a+1 or a+2 blocks, light-first-block variants that delay the reorg trigger), every position of the offending block and ten kinds of invalidity (signed/unsigned header field, creator signature, transaction signature, spent input, transaction list vs merkle root, timestamp/burn fee, golden-ticket density, unknown parent, id not continuing the parent's), node under test = outsider, block creator or the payer whose outputs the candidate blocks spend, genesis period 10 and 3: the complete observable state (chain, index, flags, spendable set, files, pool, and every wallet slip with its recorded origin) before add_block equals the state after a rejection, the wind/unwind loop stays within 2(a+b)+2 dispatches (cfg-guarded counter turns a livelock into a verdict), the C03 consistency oracle holds afterwards and an honest successor of the tip is still accepted. Every case ends with the invalid twin of the old chain's next block being offered (refused with and without stored, unadopted candidate blocks at its height): same before/after comparison.",
  "Descendants of an offending block are honest blocks re-parented and re-signed with the creator key the harness owns; pool contents are outside the property's no-trace list and only reported.",
  "DESIGN.md §3 C04")

check("C01",
  "explicit-state exploration of the implementation: chain positions x adversarial edit catalogue x placements x four gates, judged by a reference ledger",
  "model_checking",
  "At five chain positions reached through the real producer (fresh, after a reorganisation, window wrapped with and without a fee level, after a reorganisation attempt that failed part-way: the spend of an input only the rejected block named) every edit of a ~75-entry catalogue (forged/zero/wrong-key signature, a foreign / non-existent / inflated input at every position of two- and three-input lists mixed with the signer's own valued and zero-amount inputs, non-existent/inflated/spent/replayed/expired/duplicated input, same input in two transactions of a hand-assembled block, Bound retag, outputs exceeding inputs incl. 64-bit wrap, theft and mint under every privileged type, look-up dependent edits under every user-signable type) is offered to the pool, to VerificationThread::verify_tx, and inside attacker-produced blocks as tip extension (two placements) and as completion of a winning side chain; accepted implies authorised per the reference ledger, and every unedited twin / spent-only-on-the-other-fork control must be accepted. Window-edge sweep: at every height of the two wrapped chains every unspent output of every key with age up to g+3 is spent by its owner through all four gates; ages <= g are controls (must be accepted), ages > g must be refused (age g+1 is the block the next block rebroadcasts).",
  "Reference ledger = set of output coordinates replayed from the harness's block bytes; attacker owns its key and the creator key of its blocks; the window edge is exact (created at h-g: inside; at h-g-1: outside).",
  "DESIGN.md §3 C01")
check("C05",
  "explicit-state exploration of the implementation: two-branch forks x every golden-ticket placement x burn-fee profile x every interleaving, three monitors per delivery",
  "model_checking",
  "Stems of 1/3/5 blocks with every golden-ticket placement the node accepts, two branches of length <=2 (quick) / <=3 (thorough) with every golden-ticket subset, normal or light (slow) spacing per branch, plus a two-block segment against a three-block candidate with every per-block spacing pattern over {2,5} heartbeats, every interleaved delivery plus child-before-parent swaps through the consumer path; the same grid at genesis period 3 (ring of six slots wraps inside the cases; stems of 1..5 blocks incl. four) on a node that has and one that has not completed its initial loading, with and without the last block of a branch replaced by an invalid twin (a chain that fails while being wound); after every delivery: M1 (a moved tip is strictly longer, at least as heavy over the diverging segment, valid, dense in every six-block window), M2 (height never decreases, an orphan changes neither tip nor index), M3 (a block completing a longer, heavy-enough, valid, dense chain becomes the tip) and the C03 consistency oracle.",
  "Start-up phase of the density rule: M1 lenient, M3 strict (code's), chains between the readings are don't-cares; blocks are spaced >= 2 heartbeats so no routing work is needed; builders bypass the density rule to be able to produce descendants of violators; density windows whose oldest block the node has already purged (g=3 only) are not judged.",
  "DESIGN.md §3 C05")

check("C02",
  "explicit-state exploration of the implementation: producer histories, fork trees and a boundary amount sweep, conservation oracle in 128-bit arithmetic after every accepted block",
  "model_checking",
  "Conservation (in-window outputs per reference ledger + treasury + graveyard + unpaid + collected fees == issued, u128) is evaluated after every block accepted in (1) every script of the C07 producer world (three configurations incl. staking, fee levels, routed/unrouted payers, golden ticket present/absent, fast/slow blocks, two window wraps, a treasury-rich variant), (2) every tree shape of n blocks over a stem at genesis period 3 in two delivery orders (reorganisations across the window edge), and per transaction sum(out) <= sum(in); plus every output vector of length <=3 over eight boundary amounts (0,1,in,in+1,2^63-1,2^63,2^64-in,2^64-1) through the verification gate; (4) adversarial peer blocks at the five C01 chain positions: for every (owner key, slip kind) with an unspent in-window output (Normal, ATR, MinerOutput, RouterOutput) a block in which the owner spends it in two transactions, and its single-spend control; an accepted block is applied to the reference ledger and judged by the same oracle.",
  "The node's wrapping u64 supply check is not the oracle (a panic there is itself reported). Rebroadcasts with a treasury payout are never accepted on the pinned tree (C07 known finding), so that path is not covered.",
  "DESIGN.md §3 C02")
check("C07",
  "explicit-state exploration of the implementation: deviation-bounded and exhaustive-prefix round scripts on the real producer, differential acceptance on an independent node",
  "model_checking",
  "Rounds of {submit transaction variant (fee 0/small/large, 0-2 hop routing paths ending or not at the producer, two payers), golden ticket available or not, elapsed time 0.5/1/2/3 heartbeats, Mempool::bundle_block} from genesis through two window wraps (2g+4 rounds; g=3, g=3 with staking, g=4, treasury-rich variant): default script with <=1 (quick) / <=2 (thorough) deviations from a 48-symbol round alphabet the exhaustive product of the first two rounds from a fresh and a just-wrapped chain, rounds in which a block of another producer double-spends a pooled routed transaction before bundling (six fee levels, four elapsed times), and runs of 1..g+1 consecutive rounds whose block is assembled by another funded producer on its own node (own wallet and stake, real bundle_block) at every position, after which the producer under test produces again (staking worlds 100,000,000 and 20,000,000). Every produced block must be accepted by the producer and, as bytes, by an independent node; both chain states must then agree; no block produced => pool unchanged.",
  "Producer K0 and twin K9 share only bytes. Heartbeat 5000 ms; the hash-dependent minimum spacing in can_bundle_block makes some fast rounds produce no block (counted).",
  "DESIGN.md §3 C07")

check("C06",
  "bounded-exhaustive enumeration of single edits of real blocks against the implementation, accepted variants grouped by hash",
  "exploration",
  "For three base blocks built by the real producer (golden ticket + routed fee-paying + plain + payload transactions; a post-wrap block with rebroadcast and fee transactions; a fee-less block with a routed transaction) every single edit that keeps the bytes decodable: remove / duplicate / replace / swap every pair / append transaction; one change in every field class of every transaction (signature, timestamp, type, replacement count, input amount/key/coordinates, output amount/key/slip type, payload, routing path strip/truncate/hop-to/hop-sig/append-hop); one bit in each of the 32 header fields; zero and foreign merkle root; creator swapped or block re-signed by another key; transaction count field. Whole-list edits (remove all, keep first / last only, reverse), insertion of a crafted zero-value transaction (SPV / Normal / Bound type x replacement count 0..2) at every list position, and the genesis block as a fourth base. Each variant goes bytes -> decode -> VerificationThread::verify_block (original's advertised id/hash), Blockchain::add_block on a fresh node at the parent, and Blockchain::add_block as the first block of an empty node. All accepted variants with equal hash must carry byte-identical ordered transaction lists and a creator signature that verifies.",
  "Single edits only (no edit pairs); four base blocks. Variants with a different hash are different blocks and not judged here.",
  "DESIGN.md §3 C06")

check("C09",
  "small-scope exhaustive enumeration of values of every format against the real encoders/decoders",
  "exploration",
  "Every value of a small-scope grammar with pairwise distinct non-zero fields: 40 slips (10 types x boundary amounts), hops, ~2000 transactions (9 types x input/output counts {0,1,2,254,255} x payload sizes x 0..3 hops x replacement counts), full and header-only blocks with 31 distinct header fields and 0..3 transactions, all 15 message tags with each payload shape, handshake responses (url 0/1/300 bytes, 0..2 services), chain-sync messages with 0..3 entries, service lists, versions, balance-snapshot rows and text, the wallet disk record: decode(encode v) = v field by field, predicted size = real size, encode(decode b) = b, transaction hash unchanged. Plus a real 9-block chain (fees, golden tickets, rebroadcasts): bytes -> decode -> re-encode identical, acceptance verdict after the wire, block file written by the node -> Storage::load_block_from_disk -> same bytes / hash / creator signature / transaction hashes, and a twin node fed from those files reaches the same chain state.",
  "Lite blocks are covered by C18. Values outside the grammar (arbitrary payload bytes) are not enumerated.",
  "DESIGN.md §3 C09")
check("C10",
  "bounded-exhaustive truncation and boundary corruption of valid encodings against every reachable decoder, in a child process with a counting allocator",
  "exploration",
  "For 85 base encodings covering every decoder a peer or the disk can reach (Message::deserialize for all tags, Block / Transaction / Slip / Hop decoders incl. the generate() pass every decoded block and transaction goes through, block files through Storage, chain-sync, handshake challenge/response, blockchain request, service list, version, wallet disk record, utxo key parser, balance-snapshot text, issuance file): every prefix, every 1/2/4-byte window forced to 00/FF, eleven boundary values on every count / length / tag field, all 256 values of tag and type bytes, and all byte strings of length <= 3 under every message tag (~190k inputs quick). Oracle: Ok or Err, no panic, peak allocation (counting global allocator) <= 64*len + 1 MiB; the sweep runs in a child process so an abort is reported. Nested decoders: every block that passes generate() has its golden-ticket payloads decoded, and every golden-ticket payload length 0..=300 is sent as a signed transaction through VerificationThread::verify_tx and the pool, and inside a re-signed block through Blockchain::add_block at the parent.",
  "Prefix/window sweeps are exhaustive over the first 700 bytes of each encoding in the quick tier and over the whole encoding in the thorough tier. GoldenTicket::deserialize_from_net and ApiMessage::deserialize are swept through their guarded callers.",
  "DESIGN.md §3 C10")

check("C18",
  "exhaustive enumeration of key-list subsets (placeholder patterns) on real blocks through the route's pipeline",
  "exploration",
  "Blocks with n = 0..8 (quick) / 0..11 (thorough) payments to distinct keys built by the real producer, with and without golden ticket and fee transaction; for every subset of the payee keys (every pattern of adjacent placeholders, 2^n per block) plus key lists that match only inputs or nothing: disk bytes -> decode -> generate -> generate_lite_block -> serialize -> decode -> generate. A further base block has every header field perturbed to a distinct non-default value (so a projection that drops or defaults any field shows). Checked: all 31 header fields, id, hash and signature equal the full block's; every transaction paying to or spending from a listed key is carried byte-identical (before and after the wire); the decoded lite block regenerates the same hash; MerkleTree::generate over the lite block's transactions reproduces the header's merkle root before and after the wire.",
  "Key lists are subsets of payee keys plus two special lists; one payer. The HTTP framing of the route (warp) is not exercised, its body is.",
  "DESIGN.md §3 C18")

check("C13",
  "explicit-state exploration of the implementation: deviation-bounded producer histories across the window edge with a per-block rebroadcast monitor",
  "model_checking",
  "Histories of 2g+5 blocks (g = 3, 4; 5 in thorough) at fee levels 0 and 6000 built with the real producer from a 9-symbol action alphabet (payment, payment with two outputs, dust output, spend of the oldest still-spendable output, NFT mint, empty), default script with 1 deviation everywhere and 2 deviations at g=3 (all g thorough), golden ticket every other block, and histories in which a competitor block arrives first at some height and loses to a two-block branch whose first block carries a payment (two blocks stored at the expiring height). Monitor on every accepted block at height h > g+1: its rebroadcast transactions are in bijection with the outputs of block h-g-1 that are unspent per the reference ledger and can pay the fee (same owner; amount = value x payout multiplier - size x parent's fee-per-byte, from the parent's header), NFT triples move as triples, too-small outputs are collected (total_fees_atr = rebroadcast fees + dust), nothing else is rebroadcast, every expired original is refused by the pool afterwards, and before each block is produced every still-unspent output of the block it is about to rebroadcast is refused by the pool (not spendable in the block that rebroadcasts it).",
  "Payout multiplier > 1 is unobservable on the pinned tree (blocks with a treasury payout never validate: C07 known finding). No forks inside these histories (C02/C03 trees cross the window edge with forks).",
  "DESIGN.md §3 C13")

check("C14",
  "explicit-state breadth-first search over operation sequences on the real pool and chain, state = history, digest deduplication, invariants and a destructive probe in every state",
  "model_checking",
  "From a 3-block chain, all sequences to depth 4 (quick) / 6 (thorough) over a 12-symbol alphabet: submit A (spends u1, routed with fee), submit a conflicting A', submit B spending u1+u2 in both input orders, submit independent C, peer block confirming A, peer block spending u1 by an unknown transaction, empty peer block, bundle with enough / not enough elapsed time, own block that fails validation (transactions put back), two-block side chain that un-confirms the tip. States are deduplicated by the digest of the full observable state (chain, utxo, pool transactions, reservation index, cached work, queued blocks). In every state: no two pooled transactions share a value-carrying input; every pooled transaction validates against the ledger; cached routing work = sum over pooled transactions; every unspent in-window output of the two payers that no pooled transaction spends admits a fresh spend (probe); bundling yields a valid block and removes exactly the bundled transactions, or leaves the pool unchanged.",
  "Two payers, three tracked outputs; the probe mutates the pool, so each state is rebuilt from its history before expansion (replay determinism is covered by the digest).",
  "DESIGN.md §3 C14")

check("C19",
  "explicit-state breadth-first search over wallet-relevant operation sequences on the real Wallet and chain, state = history, digest deduplication",
  "model_checking",
  "At genesis period 3 (outputs expire inside the bound) and 6 (what a reorganisation returns can be spent again; built transactions registered as pending like the node's send path) all sequences to depth 6 (quick) / 8 (thorough, frontier-capped) over {incoming payment with one / two outputs, an own-key payment built outside the wallet and relayed through the node, wallet-built outgoing transaction of a small amount with and without fee, of exactly the balance, of balance+1, block, side chain that unwinds the last one / two blocks, longer chain that winds them back}. In every state: available balance = sum of the amounts of the slips listed as unspent; on histories without reorganisation the unspent list equals the reference ledger's spendable in-window outputs of the key minus the inputs the wallet committed to pending transactions (outputs exactly at the window edge are don't-cares); every transaction the wallet builds has pairwise distinct inputs, outputs + fee <= inputs and passes Transaction::validate on the ledger it was built on; a request above the balance is refused.",
  "The frontier is capped at 1500 histories per level beyond depth 4 (reported as exhaustive=false with the level). Staking slips are out of scope (staking off).",
  "DESIGN.md §3 C19")

check("C08",
  "exhaustive grid over the work function plus bounded-exhaustive boundary blocks and lottery outcomes against the implementation",
  "model_checking",
  "(1) The real work function is evaluated at every elapsed time 1..2hb+2 for heartbeats {1,2,100,5000} x ~50 boundary burn fees (0, 1, 10^n-1, 10^n, 2^53+-1, 2^63+-1, 2^64-1, the misordering sentinel): non-increasing in elapsed time, zero from two heartbeats on, sentinel for misordered timestamps (~5*10^5 evaluations, the whole grid). (2) Real blocks produced on a 3-block chain at elapsed in {1, hb/2, hb, 2hb-1, 2hb} whose single fee-paying transaction delivers exactly needed-2..needed+2 work through each of 7 path variants (1 hop, 2 hops with halving, no path, last hop not the creator, broken chain, forged hop signature, self hop): accepted iff an independent oracle (every hop signature verifies, hops contiguous, last hop = creator, halving per extra hop) counts at least the requirement; each such block is offered to a node holding the chain from genesis and to a node that joined at the parent (its first block). (3) Payout blocks for 24 (quick) / 64 (thorough) distinct golden-ticket solutions, paying one or two earlier fee blocks: every output of the fee transaction goes to the ticket's solver or to a key that originated or routed a transaction of a paid block, and the outputs sum to at most the fees those blocks collected.",
  "A 1-nolan band around the float-rounded requirement is a don't-care. Lottery outcomes are covered per distinct winner reachable in the small world, not per hash value.",
  "DESIGN.md §3 C08")

check("C16",
  "explicit-state breadth-first search of the real routing layer + scheduler (state = event history, digest from a cfg-guarded snapshot hook), monitors at the I/O boundary, closure run for the retry bound",
  "model_checking",
  "A real FullNode (RoutingThread + VerificationThread + ConsensusThread over in-memory I/O) with two handshaken scripted peers and a universe of four real blocks at three heights (one height forked), batch size 1 and 2: all sequences to depth 5 (quick) / 7 (thorough) of announce(peer,hash), fetched(peer,hash) with the real block bytes, failed(peer,hash), internal processing (verification -> consensus -> add -> BlockchainUpdated) and timer tick. Monitors on the fetch requests that reach the I/O boundary: per-peer in-flight <= batch size, heights non-decreasing within a selection round and no queued lower entry skipped, no (peer, block) in flight twice; every visited state is additionally driven to quiescence (all fetches answered, internals run, ticks) and every announced block must be stored or have been requested. The retry bound is decided on a closure run: one peer, one always-failing block, alternate failed/tick until no request appears for 60 rounds (requests <= 502).",
  "Frontier capped at 3000 states per level (reported, exhaustive=false when hit). Hook H3 exposes the private scheduler fields for the digest only.",
  "DESIGN.md §3 C16")

check("C17",
  "explicit-state breadth-first search over Dolev-Yao attacker actions on the real handshake handlers of two real nodes, symbolic renaming of challenges",
  "model_checking",
  "Two real FullNodes (S accepts two connections, C dials S and accepts one) and an attacker who owns one connection to S and one to C and controls the wire between C and S: deliver or drop queued messages, replay any observed message to S or C (on either of their connections), send a challenge with any observed or a fresh value, send a response signed with its own key over any observed challenge with a compatible or incompatible version, tear down and re-dial the C-S connection (fresh peer index, fresh challenge). All action sequences to depth 4 (quick) / 5 (thorough), under 2 / 4 seeds of the peer maps' iteration order (hook H4); challenges are random per run and named by order of observation in actions and digests, which also name the challenge each observed response signs. After every step, for every acceptance (status change or PeerHandshakeComplete event): the key is not the node's own, the response's signature verifies under that key over the challenge outstanding on that very connection, that (connection, challenge) was not accepted before, the version is compatible, a challenge was outstanding at all and is one the harness saw issued on that connection; no connected peer and no address-map entry changes because of a message on another connection unless that message is itself a valid authentication by the same key; no handler aborts.",
  "Signatures are unforgeable; one attacker key. Pure relay of a genuine answer to a genuine challenge (no channel binding in the protocol) is not flagged.",
  "DESIGN.md §3 C17")

check("C11",
  "explicit-state breadth-first search over hostile peer input on a real FullNode (routing, verification and consensus handlers), every delivery order of the internal channels",
  "model_checking",
  "One real FullNode with a 3-block chain in full-node and in lite (SPV) configuration; an honest peer runs a 7-step script (announce a block, serve it, send a transaction, timers, chain request); three hostile senders (authenticated, connected-but-never-authenticated, unknown index) draw from an alphabet of about 150 symbols: every message tag in hostile shapes (Block-tagged message, chain / ghost-chain requests with 0 and u64::MAX, ghost chains empty / fabricated / huge ids, key lists up to the rate limit, unsolicited handshake traffic, undecodable and truncated buffers), 13 hostile transactions (96-byte golden ticket, no inputs, producer-only types, theft, wrapping amounts, bad path), 18 hostile block buffers served for an announced hash (garbage, truncated, wrong hash / id, bad signatures, double spend, golden ticket payload too short / too long, malformed rebroadcast / fee payloads, id 0 and u64::MAX, failing fetch), zero-parent / orphan blocks below and above the tip, an invalid-block burst, connection events for known and unknown indices. In addition an exhaustive sweep of correctly signed zero-amount transactions over type x input count x output count (0..3) x slip-type pattern x payload length (around the golden ticket size), delivered from an authenticated and an unauthenticated peer at two points of the script and to a node without a chain (3312 deliveries). Histories = interleavings of honest steps, at most 1 (quick) / 2 (thorough, capped) hostile symbols and single deliveries of the verification / consensus / routing channel heads; state = history, deduplicated by digest. Every handler call must return (no panic, no stall, no step-budget cut); every quiescent end state's honest-visible projection (tip, longest chain, utxo, supply, pool, the honest peer's table entry, messages sent to the honest peer) must be one that the hostile-free schedules also reach.",
  "Socket layer raises fetch results only for requested fetches and answers disconnect requests; InterfaceIO calls succeed; in lite mode blocks and ghost chains from an authenticated peer are accepted input by design (only abort-freedom is checked for them); announcements of unvalidated side-chain blocks are relayed by design and are not part of the comparison.",
  "DESIGN.md §3 C11")

check("C15",
  "exhaustive evaluation of the real fork-id / shared-ancestor functions over all ordered chain pairs of a forest of real blocks, plus explicit-state breadth-first search over message, fetch-completion and handler delivery orders between two real FullNodes",
  "model_checking",
  "Part 1: a forest of real blocks (trunk of 120 crossing the 10..100 checkpoints, and a branch up to length 120-p at 38 selected fork points p (quick) / at every fork point (thorough)). For every ordered pair of chains (3384 / 7380 chains, 1.1e7 / 5.4e7 pairs) the requester's real generate_fork_id and the server's real generate_last_shared_ancestor (on a live Blockchain holding that chain) are evaluated; the estimate must not exceed the id of the last common block. Part 2: two real FullNodes, A dials B; chains from the forest with common prefix 0..2 (0 = different first blocks), A's own suffix 0..1 (0..2 thorough), B longer by 1..2; BFS over every order of wire deliveries (FIFO per direction), independently completing block fetches, single deliveries of each node's verification / consensus / routing channel heads and up to 2 timer ticks, deduplicated by a digest of both nodes, wires and fetches; at every quiescent state A's tip equals B's tip and every block A lacked was requested. Long chains (lengths 9..30 quick, up to 110 thorough; A a prefix, A forked 3 or 12 blocks back, A empty) in the default order.",
  "Fixed keys and timestamps make block hashes, hence chance agreements of hash bytes, identical on every run. B's own fetches from A are not served (B holds the longer chain).",
  "DESIGN.md §3 C15")

check("C12",
  "exhaustive crash-point and torn-write enumeration over the storage-operation journal of real node histories, with restart through the real ConsensusThread::on_init",
  "fault_enumeration",
  "Histories: a real FullNode (loading mode, like saito-rust) receives, through its consensus handler, the blocks of block trees built by the real producer at genesis period 3 — stems of 3 / 8 / 10 blocks (8 and 10 cross the 2g pruning horizon and the rebroadcast edge) (quick: stem 8) followed by every tree shape of 0..3 further blocks, tree blocks spending their parent's output, plus the variants with the last two deliveries swapped (reorganisations, equal-height competitors). The in-memory device journals every write and remove. For every prefix of every journal, for the write at the cut every torn form (absent, empty, cut inside the header, one byte before / exactly at the header end, inside the first transaction's length field, after the length fields, inside the first transaction, half, all but the last byte), and for both settings of delete_old_blocks: restart a fresh FullNode on the image with the real on_init. Oracles: no abort; tip is a block known before the crash or an ancestor; the restarted chain is contiguous, covers the spendable window and satisfies the C03 ledger-consistency clauses; supply is conserved; peers then serve again every block of the history the restarted node lacks within its retained range and none of that may abort it; an honest child of the tip is adopted; after that extension a further clean restart from the node's own files returns the same tip; for the uncut journal the tip, the in-window outputs and the reservoirs equal those before shutdown. A separate history re-delivers the blocks already pruned (with and without a restart in between), extends the chain and restarts. Thorough additionally crashes the recovery itself at each of its own storage operations and restarts again.",
  "Device model: write = create(truncate)+write_all (a torn write leaves a prefix), remove atomic; fresh wallet with the same keys at restart; MemIO is not cross-checked against saito-rust's RustIOHandler.",
  "DESIGN.md §3 C12")

check("C20",
  "explicit-state exploration of lock automata extracted from the source (every reachable function x held-lock-set state), bound to the code by trace inclusion of the real handlers' acquisitions recorded through a lock shim",
  "model_checking",
  "lockx parses all non-test source of saito-core, saito-rust, saito-spammer and saito-wasm with syn: every .read()/.write()/.lock() await site (also inside logging / select! macro arguments) is classified to a lock by the declared type of its receiver (completeness gate: classified sites = textual sites, else machinery error), guard lifetimes follow Rust's drop rules, calls are resolved by receiver type (unknown receivers: every method of that name, marked unconfirmed). The explorer visits every reachable (function, held-lock-set) pair, path-wise through branches and up to two loop iterations, following calls with the caller's held set. In every state: no shared lock (configs < blockchain < mempool < peers < wallet) is requested while a later one is held, unless every site nesting that pair does so under a common write-held outer lock; the same lock is not requested again in a conflicting mode; in saito-wasm an inversion is tolerated only under the global SAITO mutex. Binding: the real routing / verification / consensus handlers are run with hook H1 (recording lock shim) through the C11 world (honest script plus each hostile symbol, full and lite node) and the C15 sync worlds; every executed acquisition (source line, lock, mode, held set) must be a state of the model (else machinery error: the extraction is unsound), and any inversion the shim witnesses is a violation by itself.",
  "Inversions that need an unconfirmed call link are listed in the evidence, not alarmed; branch conditions are not interpreted; the deadlock-freedom consequence is not searched separately on the product of task automata.",
  "DESIGN.md §3 C20")

NOT_YET = "check not built yet in this session (work in progress, see DESIGN.md §8 build order); nothing is claimed for it"
NA = {}

props = [json.loads(l)["id"] for l in open("/verif/properties.jsonl")]
hooks_commits = [l.strip() for l in open("/verif/bin/hook_commits.txt") if l.strip()]
m = {
  "version": 1,
  "setup_cmd": "cd /verif/rig && CARGO_NET_OFFLINE=true cargo build --offline && cd /verif/lockx && CARGO_NET_OFFLINE=true cargo build --offline",
  "hooks": {
    "guard": "--cfg saito_verif",
    "enable": "rig/.cargo/config.toml sets rustflags = [--cfg saito_verif, --cfg fuzzing]; the rig depends on /repo/saito-core by path, so every check rebuilds saito-core from the working tree with the hooks compiled in",
    "baseline_off_cmd": "/verif/bin/baseline_off.sh",
    "source_commits": hooks_commits,
    "add_only": True,
  },
  "engines": [
    {"name": "lockx", "path": "lockx/", "serves_properties": ["C20"],
     "kind_free_text": "syn-based extractor and explicit-state explorer of lock automata (model side of C20); its result is judged and bound to the code by vrig"},
    {"name": "vrig", "path": "rig/", "serves_properties": sorted(CHECKS),
     "kind_free_text": "explicit-state / bounded-exhaustive exploration of the real saito-core code from an external harness crate (in-memory InterfaceIO, manual clock, fixed keys, deterministic aHash)"}
  ],
  "checks": [],
  "not_applicable": [],
  "notes": "Checks are added property by property; every unclaimed property is listed under not_applicable with the reason.",
}
for pid in props:
    if pid in CHECKS:
        c = CHECKS[pid]
        m["checks"].append({
          "property_id": pid,
          "quick_cmd": f"bin/check {pid} quick",
          "thorough_cmd": f"bin/check {pid} thorough",
          "evidence_file": f"evidence/{pid}.json",
          "replay_cmd_template": f"bin/check {pid} quick --replay {{path}}",
          "engine": "vrig",
          "technique": c["technique"],
          "level_claimed": {"category": c["category"], "text": c["text"], "design_ref": c["design"]},
          "level_note": c["note"],
        })
    else:
        m["not_applicable"].append({"property_id": pid, "reason": NA.get(pid, NOT_YET)})
json.dump(m, open("/verif/MANIFEST.json", "w"), indent=1)
print("wrote MANIFEST.json:", len(m["checks"]), "checks,", len(m["not_applicable"]), "not_applicable")
