#!/bin/bash
# every stored seed against the quick check of its own property (regression for the machinery)
cd /repo || exit 2
if [ -n "$(git status --porcelain --untracked-files=no)" ]; then echo "repo not clean"; exit 2; fi
fail=0
for s in $(ls /verif/seeded | grep '^C'); do
  id=$(echo $s | cut -c1-3)
  git apply /verif/seeded/$s/patch.diff 2>/dev/null || { echo "$s: patch does not apply"; fail=1; continue; }
  timeout 900 /verif/bin/check "$id" quick > /tmp/own.$s.log 2>&1; rc=$?
  v=$(grep -c '^VIOLATION' /tmp/own.$s.log)
  echo "$s: $id rc=$rc violations=$v"
  [ $rc -eq 1 ] || fail=1
  git -C /repo checkout -- .
done
exit $fail
