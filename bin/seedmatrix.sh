#!/bin/bash
# usage: bin/seedmatrix.sh [seed-id ...]   -- every stored seed against every quick check.
# Applies each seeded change to /repo's working tree, runs all quick checks, restores /repo.
# Output: one line per seed: id: <check>=<rc>/<violation lines> ...
cd /repo || exit 2
if [ -n "$(git status --porcelain --untracked-files=no)" ]; then echo "repo not clean"; exit 2; fi
SEEDS="$@"; [ -z "$SEEDS" ] && SEEDS=$(ls /verif/seeded | grep '^C')
CHECKS=$(python3 -c "import json;print(' '.join(c['property_id'] for c in json.load(open('/verif/MANIFEST.json'))['checks']))")
for s in $SEEDS; do
  P=/verif/seeded/$s/patch.diff
  git apply "$P" 2>/dev/null || { echo "$s: patch does not apply"; continue; }
  line="$s:"
  for id in $CHECKS; do
    timeout 600 /verif/bin/check "$id" quick > /tmp/matrix.$s.$id.log 2>&1; rc=$?
    v=$(grep -c '^VIOLATION' /tmp/matrix.$s.$id.log)
    if [ $rc -ne 0 ]; then line="$line $id=$rc/$v"; fi
  done
  echo "$line"
  git -C /repo checkout -- .
done
