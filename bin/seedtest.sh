#!/bin/bash
# usage: seedtest.sh <patch.diff> <property-id>...   -- applies a seeded change to /repo, runs the
# quick checks, and always restores /repo afterwards. Prints one line per check.
P="$1"; shift
cd /repo || exit 2
if [ -n "$(git status --porcelain --untracked-files=no)" ]; then echo "repo not clean"; exit 2; fi
git apply "$P" || { echo "patch does not apply"; exit 2; }
for id in "$@"; do
  /verif/bin/check "$id" quick > /tmp/seedtest.$id.log 2>&1; rc=$?
  echo "check $id rc=$rc $(grep -c '^VIOLATION' /tmp/seedtest.$id.log) violation line(s)"
  grep "violation key" /tmp/seedtest.$id.log | sed 's/ :: .*//' | sort | uniq -c | sort -rn | head -5
done
git -C /repo checkout -- .
