#!/usr/bin/env python3
# Rewrites the size column of the table in DESIGN.md section 9.2 from the evidence files (quick tier).
import json,re
p='/verif/DESIGN.md'
s=open(p).read()
i=s.index('### 9.2 The twenty checks'); j=s.index('### 9.3',i)
sec=s[i:j]
def size(cid):
    d=json.load(open(f'/verif/evidence/{cid}.json'))
    c=d['coverage']
    parts=[f"{c.get('evaluations',0):,} evaluations"]
    if c.get('states'): parts.append(f"{c['states']:,} states")
    if c.get('transitions') and c.get('transitions')!=c.get('evaluations'): parts.append(f"{c['transitions']:,} transitions")
    parts.append(f"{d.get('wall_s',0):.0f} s")
    if not c.get('exhaustive',True): parts.append('frontier cap hit')
    return ', '.join(parts)
def fix(m):
    cid=m.group(1)
    try: return f"| {cid} |{m.group(2)}| {size(cid)} |"
    except Exception as e: return m.group(0)
sec2=re.sub(r'^\| (C\d\d) \|(.*?)\|[^|]*\|$',fix,sec,flags=re.M)
open(p,'w').write(s[:i]+sec2+s[j:])
print('table updated')
