#!/bin/bash
# Runs the repository's stable baseline (104 tests) with the verification guard OFF and
# checks that every test of BASELINE.json's stable_pass list passes.
set -u
cd /repo
unset RUSTFLAGS
export CARGO_NET_OFFLINE=true
OUT=$(mktemp -d)
rm -f /repo/target/nextest/pb/junit.xml
cargo nextest run --workspace --no-fail-fast --tool-config-file pb:/w/lib/nextest.toml --profile pb --test-threads 8 --offline >"$OUT/log" 2>&1
J=/repo/target/nextest/pb/junit.xml
if [ ! -f "$J" ]; then echo "baseline did not run (build failure?)"; tail -20 "$OUT/log"; rm -rf "$OUT"; exit 1; fi
python3 - "$J" <<'PY'
import json,sys,xml.etree.ElementTree as ET
stable=set(json.load(open('/root/.vp/BASELINE.json'))['stable_pass'])
t=ET.parse(sys.argv[1]).getroot()
ok=set();bad=set()
for ts in t.iter('testsuite'):
    for tc in ts.iter('testcase'):
        cls=tc.get('classname');name=tc.get('name')
        full=f"{cls}::{name}"
        failed=any(c.tag in('failure','error') for c in tc)
        (bad if failed else ok).add(full)
missing=[s for s in stable if s not in ok]
print(f"stable baseline: {len(stable)-len(missing)}/{len(stable)} pass")
import subprocess
still=[]
for m in sorted(missing):
    # tests share ./data directories and can collide under parallel execution: retry alone once
    pkg,rest=m.split('::',1)
    r=subprocess.run(['cargo','nextest','run','-p',pkg,'--offline','--tool-config-file','pb:/w/lib/nextest.toml','--profile','pb','-E',f'test(={rest})'],cwd='/repo',capture_output=True,text=True)
    if r.returncode==0: print("  passed on isolated retry:",m)
    else:
        print("  NOT PASSING:",m); still.append(m)
sys.exit(1 if still else 0)
PY
RC=$?
rm -rf "$OUT"
exit $RC
