#!/bin/bash
# usage: confirm_seed.sh <seed-out-dir> <demo-test-name-filter>
# In a scratch worktree of /repo HEAD (/tmp/vw): demo passes without the patch, fails with it,
# and the stable baseline still passes with the patch (without the demo).
D="$1"; F="$2"
set -u
cd /repo
if [ ! -d /tmp/vw ]; then git worktree add -q --detach /tmp/vw HEAD; fi
cd /tmp/vw && git checkout -q --detach $(git -C /repo rev-parse HEAD) && git checkout -- . && git clean -fdq -e target
export CARGO_TARGET_DIR=/tmp/vw/target CARGO_NET_OFFLINE=true
git apply "$D/demo.diff" || { echo "DEMO does not apply"; exit 2; }
cargo test -p saito-core --lib --offline "$F" > /tmp/vw.demo0.log 2>&1; r0=$?
echo "demo without patch: rc=$r0 $(grep -E '^test result' /tmp/vw.demo0.log | head -1)"
git apply "$D/patch.diff" || { echo "PATCH does not apply"; exit 2; }
cargo test -p saito-core --lib --offline "$F" > /tmp/vw.demo1.log 2>&1; r1=$?
echo "demo with patch:    rc=$r1 $(grep -E '^test result' /tmp/vw.demo1.log | head -1)"
git checkout -- . && git clean -fdq -e target
git apply "$D/patch.diff"
cargo build --workspace --offline > /tmp/vw.build.log 2>&1; echo "workspace build with patch rc=$?"
rm -f /tmp/vw/target/nextest/pb/junit.xml; cargo nextest run --workspace --no-fail-fast --tool-config-file pb:/w/lib/nextest.toml --profile pb --test-threads 8 --offline > /tmp/vw.suite.log 2>&1
python3 - <<'PY'
import json,xml.etree.ElementTree as ET,subprocess
stable=set(json.load(open('/root/.vp/BASELINE.json'))['stable_pass'])
t=ET.parse('/tmp/vw/target/nextest/pb/junit.xml').getroot()
ok=set()
for ts in t.iter('testsuite'):
    for tc in ts.iter('testcase'):
        if not any(c.tag in('failure','error') for c in tc): ok.add(f"{tc.get('classname')}::{tc.get('name')}")
missing=sorted(s for s in stable if s not in ok)
still=[]
for m in missing:
    pkg,rest=m.split('::',1)
    r=subprocess.run(['cargo','nextest','run','-p',pkg,'--offline','--tool-config-file','pb:/w/lib/nextest.toml','--profile','pb','-E',f'test(={rest})'],cwd='/tmp/vw',capture_output=True,text=True)
    if r.returncode!=0: still.append(m)
print(f"suite with patch: {len(stable)-len(still)}/{len(stable)} stable tests pass (isolated retries: {len(missing)-len(still)})", still)
PY
git checkout -- . && git clean -fdq -e target
