#!/usr/bin/env python3
# usage: seedprompts.py <suffix> <property ids...>  -- writes /tmp/seedprompts/<id><suffix>.txt from the template,
# with the avoid-list built from every stored seed of that property
import json,glob,os,sys
suffix=sys.argv[1]; ids=sys.argv[2:]
about=json.load(open('/verif/seeded/_prompts/about.json'))
tmpl=open('/verif/seeded/_prompts/_template.txt').read()
specific=open('/verif/seeded/_prompts/specific_generic.txt').read().strip()
av={}
for f in sorted(glob.glob('/verif/seeded/C*/meta.json')):
    m=json.load(open(f)); pid=m.get('breaks')
    if isinstance(pid,list): pid=pid[0]
    av.setdefault(pid,[]).append(m.get('summary',''))
os.makedirs('/tmp/seedprompts',exist_ok=True)
for pid in ids:
    sid=pid+suffix
    a="; ".join("'"+s.replace("'","")+"'" for s in av.get(pid,[]))
    t=tmpl.replace('{id}',sid).replace('{about}',about[pid]).replace('{specific}',specific).replace('{avoid}',a)
    t+="\nDo NOT use `git stash` (the stash is shared between worktrees). If a cargo build seems stuck on a lock, wait; other builds run on this machine.\n"
    open(f'/tmp/seedprompts/{sid}.txt','w').write(t)
    print('wrote',sid)
